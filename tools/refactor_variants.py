#!/usr/bin/env python3
"""Developer tool: behaviour-preserving rewrites of /repo/propka into a scratch
copy, to look for false alarms.

  refactor_variants.py rename    - alpha-rename every local variable
  refactor_variants.py unparse   - re-emit every module with ast.unparse
                                   (drops comments, normalises formatting)
  refactor_variants.py both
  refactor_variants.py params    - rename parameters that are never passed by keyword
  refactor_variants.py logging   - add _LOGGER.debug(...) at the top of every function and loop body
  refactor_variants.py fstrings  - turn simple str.format calls into f-strings
  refactor_variants.py flip      - a < b  ->  b > a for every single ordering comparison
  refactor_variants.py reorder   - sort runs of consecutive function definitions by name
  refactor_variants.py temps     - bind return values and comparison tests to
                                   temporaries first

Runs all quick checks with --root on the copy and prints the ones that do
not exit 0.  The copy is removed afterwards."""
import ast
import builtins
import concurrent.futures
import os
import shutil
import subprocess
import symtable
import sys
import tempfile

HERE = os.path.dirname(os.path.dirname(os.path.abspath(__file__)))
PROPS = ['C%02d' % i for i in range(1, 21)]


class Renamer(ast.NodeTransformer):
    """Rename locals of each function (not parameters, globals, free vars or
    names shared with nested scopes)."""

    def __init__(self, src, filename):
        self.table = symtable.symtable(src, filename, 'exec')
        self.stack = [self.table]

    def _child(self, name, lineno):
        for ch in self.stack[-1].get_children():
            if ch.get_name() == name and ch.get_lineno() == lineno:
                return ch
        for ch in self.stack[-1].get_children():
            if ch.get_name() == name:
                return ch
        return None

    def visit_ClassDef(self, node):
        ch = self._child(node.name, node.lineno)
        if ch is None:
            return node
        self.stack.append(ch)
        self.generic_visit(node)
        self.stack.pop()
        return node

    def visit_FunctionDef(self, node):
        ch = self._child(node.name, node.lineno)
        if ch is None:
            return node
        self.stack.append(ch)
        # locals that are safe to rename
        nested_names = set()
        for sub in ch.get_children():
            for s in sub.get_symbols():
                if s.is_free():
                    nested_names.add(s.get_name())
        has_nested = bool(ch.get_children())
        mapping = {}
        for s in ch.get_symbols():
            n = s.get_name()
            if s.is_local() and not s.is_parameter() and not s.is_global() and not s.is_free() \
                    and n not in nested_names and not n.startswith('_') and n != 'self' \
                    and not hasattr(builtins, n) and not s.is_imported():
                mapping[n] = n + '_r'
        # names bound inside comprehension / lambda scopes keep their names;
        # a local that shares its name with one of them is left alone too
        inner_bound = set()
        for sub in ast.walk(node):
            if isinstance(sub, ast.comprehension):
                inner_bound |= {n.id for n in ast.walk(sub.target) if isinstance(n, ast.Name)}
            elif isinstance(sub, ast.Lambda):
                inner_bound |= {a.arg for a in sub.args.args + sub.args.kwonlyargs}
                if sub.args.vararg:
                    inner_bound.add(sub.args.vararg.arg)
        for n in inner_bound:
            mapping.pop(n, None)
        # symtable marks a local read by a comprehension as a cell variable,
        # still is_local(): they were excluded above through nested_names
        for n in list(nested_names):
            if n not in inner_bound and not n.startswith('_') and not hasattr(builtins, n):
                sym = [x for x in ch.get_symbols() if x.get_name() == n]
                if sym and sym[0].is_local() and not sym[0].is_parameter() and not sym[0].is_imported():
                    mapping[n] = n + '_r'
        outer = self
        real_nested = any(isinstance(x, (ast.FunctionDef, ast.AsyncFunctionDef, ast.ClassDef))
                          for x in ast.walk(node) if x is not node)

        class Local(ast.NodeTransformer):
            def visit_Name(self, n):
                if n.id in mapping:
                    n.id = mapping[n.id]
                return n

            def visit_ExceptHandler(self, n):
                if n.name in mapping:
                    n.name = mapping[n.name]
                return self.generic_visit(n)
        if real_nested:
            # closures over locals: leave the function untouched
            self.stack.pop()
            return node
        Local().generic_visit(node)
        self.stack.pop()
        return node


class Temps(ast.NodeTransformer):
    """Behaviour-preserving introduction of temporaries:
    ``return E`` -> ``_rv = E; return _rv`` and ``if <compare>:`` ->
    ``_t = <compare>; if _t:`` (one evaluation, same truth value)."""

    def __init__(self):
        self.n = 0

    def _block(self, stmts):
        out = []
        for st in stmts:
            st = self.visit(st)
            if isinstance(st, ast.Return) and st.value is not None and \
                    not isinstance(st.value, (ast.Name, ast.Constant)):
                self.n += 1
                name = '_rv%d' % self.n
                out.append(ast.Assign(targets=[ast.Name(id=name, ctx=ast.Store())], value=st.value,
                                      lineno=st.lineno, col_offset=0))
                out.append(ast.Return(value=ast.Name(id=name, ctx=ast.Load()), lineno=st.lineno,
                                      col_offset=0))
            elif isinstance(st, ast.If) and isinstance(st.test, ast.Compare):
                self.n += 1
                name = '_t%d' % self.n
                out.append(ast.Assign(targets=[ast.Name(id=name, ctx=ast.Store())], value=st.test,
                                      lineno=st.lineno, col_offset=0))
                st.test = ast.Name(id=name, ctx=ast.Load())
                out.append(st)
            else:
                out.append(st)
        return out

    def generic_visit(self, node):
        for field in ('body', 'orelse', 'finalbody'):
            val = getattr(node, field, None)
            if isinstance(val, list) and val and isinstance(val[0], ast.stmt):
                setattr(node, field, self._block(val))
        if isinstance(node, ast.Try):
            for h in node.handlers:
                h.body = self._block(h.body)
        return node


class ParamRenamer(ast.NodeTransformer):
    """Rename the parameters of every function (except self/cls, *args,
    **kwargs, and names used as a keyword anywhere in the package) together
    with their uses in the body.  Nested scopes are left alone when they
    rebind the name."""

    def __init__(self, keywords_used):
        self.keywords_used = keywords_used

    def visit_FunctionDef(self, node):
        self.generic_visit(node)
        if any(isinstance(x, (ast.FunctionDef, ast.AsyncFunctionDef, ast.ClassDef, ast.Lambda))
               for x in ast.walk(node) if x is not node):
            return node
        comp_bound = set()
        for sub in ast.walk(node):
            if isinstance(sub, ast.comprehension):
                comp_bound |= {n.id for n in ast.walk(sub.target) if isinstance(n, ast.Name)}
        mapping = {}
        for a in node.args.posonlyargs + node.args.args + node.args.kwonlyargs:
            if a.arg in ('self', 'cls', '_') or a.arg in self.keywords_used or a.arg in comp_bound \
                    or a.arg.startswith('_'):
                continue
            mapping[a.arg] = a.arg + '_p'
            a.arg = a.arg + '_p'
        for sub in ast.walk(node):
            if isinstance(sub, ast.Name) and sub.id in mapping:
                sub.id = mapping[sub.id]
        return node


class Logging(ast.NodeTransformer):
    """Add a debug logging call at the top of every function and of every
    for-loop body (only in modules that already define _LOGGER)."""

    def _call(self, text, node):
        return ast.Expr(value=ast.Call(
            func=ast.Attribute(value=ast.Name(id='_LOGGER', ctx=ast.Load()), attr='debug', ctx=ast.Load()),
            args=[ast.Constant(text)], keywords=[]), lineno=node.lineno, col_offset=0)

    def visit_FunctionDef(self, node):
        self.generic_visit(node)
        idx = 1 if (node.body and isinstance(node.body[0], ast.Expr)
                    and isinstance(node.body[0].value, ast.Constant)
                    and isinstance(node.body[0].value.value, str)) else 0
        if any(isinstance(n, (ast.Yield, ast.YieldFrom)) for n in ast.walk(node)) or True:
            node.body.insert(idx, self._call('entering %s' % node.name, node))
        return node

    def visit_For(self, node):
        self.generic_visit(node)
        node.body.insert(0, self._call('loop', node))
        return node

    def visit_If(self, node):
        self.generic_visit(node)
        node.body.insert(0, self._call('branch', node))
        if node.orelse and not (len(node.orelse) == 1 and isinstance(node.orelse[0], ast.If)):
            node.orelse.insert(0, self._call('other branch', node))
        return node


class FStrings(ast.NodeTransformer):
    """'..{0:3s}..'.format(a, b)  ->  f'..{a:3s}..' when every field is a plain
    positional index without conversion and every argument a simple expression."""

    def visit_Call(self, node):
        self.generic_visit(node)
        import string
        if not (isinstance(node.func, ast.Attribute) and node.func.attr == 'format'
                and isinstance(node.func.value, ast.Constant) and isinstance(node.func.value.value, str)
                and not node.keywords and node.args
                and all(isinstance(a, (ast.Name, ast.Attribute, ast.Subscript, ast.Constant)) for a in node.args)):
            return node
        parts = []
        try:
            parsed = list(string.Formatter().parse(node.func.value.value))
        except ValueError:
            return node
        auto = 0
        for lit, field, spec, conv in parsed:
            if lit:
                parts.append(ast.Constant(lit))
            if field is None:
                continue
            if conv or (spec and ('{' in spec)):
                return node
            if field == '':
                idx = auto
                auto += 1
            elif field.isdigit():
                idx = int(field)
            else:
                return node
            if idx >= len(node.args):
                return node
            fs = ast.JoinedStr(values=[ast.Constant(spec)]) if spec else None
            parts.append(ast.FormattedValue(value=node.args[idx], conversion=-1, format_spec=fs))
        return ast.copy_location(ast.JoinedStr(values=parts), node)


class FlipCompare(ast.NodeTransformer):
    """a < b -> b > a (and <=, >, >=) for single comparisons: same meaning."""
    FLIP = {ast.Lt: ast.Gt, ast.Gt: ast.Lt, ast.LtE: ast.GtE, ast.GtE: ast.LtE}

    def visit_Compare(self, node):
        self.generic_visit(node)
        if len(node.ops) == 1 and type(node.ops[0]) in self.FLIP:
            node.left, node.comparators[0] = node.comparators[0], node.left
            node.ops = [self.FLIP[type(node.ops[0])]()]
        return node


class InvertBranches(ast.NodeTransformer):
    """``if T: A else: B`` -> ``if not T: B else: A`` (not for elif chains), and
    the same for conditional expressions: same meaning.  Equality, membership
    and identity tests are negated by their opposite operator, anything else
    by ``not``."""
    OPP = {ast.Eq: ast.NotEq, ast.NotEq: ast.Eq, ast.In: ast.NotIn, ast.NotIn: ast.In,
           ast.Is: ast.IsNot, ast.IsNot: ast.Is}

    def neg(self, test):
        if isinstance(test, ast.Compare) and len(test.ops) == 1 and type(test.ops[0]) in self.OPP:
            return ast.Compare(left=test.left, ops=[self.OPP[type(test.ops[0])]()],
                               comparators=test.comparators)
        if isinstance(test, ast.UnaryOp) and isinstance(test.op, ast.Not):
            return test.operand
        return ast.UnaryOp(op=ast.Not(), operand=test)

    def visit_If(self, node):
        self.generic_visit(node)
        if node.orelse and not (len(node.orelse) == 1 and isinstance(node.orelse[0], ast.If)):
            node.test = self.neg(node.test)
            node.body, node.orelse = node.orelse, node.body
        return node

    def visit_IfExp(self, node):
        self.generic_visit(node)
        node.test = self.neg(node.test)
        node.body, node.orelse = node.orelse, node.body
        return node


class NestGuards(ast.NodeTransformer):
    """Early exits turned into nesting: in a loop body ``if T: continue`` followed
    by more statements becomes ``if not T: <those statements>``; anywhere,
    ``if T: <block ending in return/raise/continue/break>`` followed by more
    statements becomes ``if T: ... else: <those statements>``.  Same meaning."""

    def _exits(self, stmts):
        return bool(stmts) and isinstance(stmts[-1], (ast.Return, ast.Raise, ast.Continue, ast.Break))

    def _nest(self, stmts, in_loop):
        out = list(stmts)
        for i in range(len(out) - 1, -1, -1):
            st = out[i]
            rest = out[i + 1:]
            if isinstance(st, ast.If) and not st.orelse and rest and self._exits(st.body):
                if in_loop and len(st.body) == 1 and isinstance(st.body[0], ast.Continue):
                    new = ast.If(test=InvertBranches().neg(st.test), body=rest, orelse=[])
                else:
                    new = ast.If(test=st.test, body=st.body, orelse=rest)
                out = out[:i] + [ast.copy_location(new, st)]
        return out

    def generic_visit(self, node):
        super().generic_visit(node)
        for field in ('body', 'orelse', 'finalbody'):
            stmts = getattr(node, field, None)
            if isinstance(stmts, list) and stmts and isinstance(stmts[0], ast.stmt):
                in_loop = isinstance(node, (ast.For, ast.While)) and field == 'body'
                setattr(node, field, self._nest(stmts, in_loop))
        return node


class AliasHolders(ast.NodeTransformer):
    """``<param>.parameters`` / ``.version`` / ``.options`` read in a function are
    bound once to a local at the top of the function and read through it
    (``par_ = self.parameters`` ... ``par_.desolv_cutoff``): same meaning as long
    as the attribute is not re-bound inside the function (checked)."""
    HOLDERS = ('parameters', 'version', 'options')

    def visit_FunctionDef(self, node):
        self.generic_visit(node)
        params = {a.arg for a in node.args.args + node.args.kwonlyargs}
        stored = set()
        nested = False
        for sub in ast.walk(node):
            if isinstance(sub, ast.Attribute) and isinstance(sub.ctx, (ast.Store, ast.Del)):
                stored.add(sub.attr)
            if sub is not node and isinstance(sub, (ast.FunctionDef, ast.Lambda, ast.ClassDef)):
                nested = True
        if nested:
            return node
        chains = {}
        for sub in ast.walk(node):
            if isinstance(sub, ast.Attribute) and isinstance(sub.ctx, ast.Load) and sub.attr in self.HOLDERS \
                    and sub.attr not in stored and isinstance(sub.value, ast.Name) and sub.value.id in params:
                chains.setdefault((sub.value.id, sub.attr), []).append(sub)
        rebound = {t.id for sub in ast.walk(node) if isinstance(sub, ast.Name) and isinstance(sub.ctx, ast.Store)
                   for t in [sub]}
        new = []
        for (base, attr), uses in sorted(chains.items()):
            if base in rebound:
                continue
            local = '%s_%s_' % (base, attr[:3])
            for u in uses:
                u.__class__ = ast.Name
                u.__dict__.clear()
                u.id, u.ctx = local, ast.Load()
            new.append(ast.Assign(targets=[ast.Name(id=local, ctx=ast.Store())],
                                  value=ast.Attribute(value=ast.Name(id=base, ctx=ast.Load()), attr=attr,
                                                      ctx=ast.Load())))
        if new:
            pos = 1 if (node.body and isinstance(node.body[0], ast.Expr)
                        and isinstance(getattr(node.body[0], 'value', None), ast.Constant)
                        and isinstance(node.body[0].value.value, str)) else 0
            node.body[pos:pos] = new
        return node


def reorder_functions(tree):
    """Sort every run of consecutive function definitions (module level and
    class bodies) by name: definition order of functions does not matter."""
    def fix(body):
        out, run = [], []
        for st in body:
            if isinstance(st, (ast.FunctionDef, ast.AsyncFunctionDef)) and not st.decorator_list:
                run.append(st)
            else:
                out.extend(sorted(run, key=lambda f: f.name))
                run = []
                out.append(st)
        out.extend(sorted(run, key=lambda f: f.name))
        return out
    tree.body = fix(tree.body)
    for node in ast.walk(tree):
        if isinstance(node, ast.ClassDef):
            node.body = fix(node.body)
    return tree


def transform(path, mode):
    with open(path, encoding='utf-8') as handle:
        src = handle.read()
    tree = ast.parse(src)
    if 'rename' in mode:
        tree = Renamer(src, path).visit(tree)
    if 'params' in mode:
        tree = ParamRenamer(KEYWORDS_USED).visit(tree)
    if 'logging' in mode and '_LOGGER' in src and 'getLogger' in src:
        tree = Logging().visit(tree)
        ast.fix_missing_locations(tree)
    if 'fstrings' in mode:
        tree = FStrings().visit(tree)
        ast.fix_missing_locations(tree)
    if 'flip' in mode:
        tree = FlipCompare().visit(tree)
        ast.fix_missing_locations(tree)
    if 'alias' in mode:
        tree = AliasHolders().visit(tree)
        ast.fix_missing_locations(tree)
    if 'nest' in mode:
        tree = NestGuards().visit(tree)
        ast.fix_missing_locations(tree)
    if 'invert' in mode:
        tree = InvertBranches().visit(tree)
        ast.fix_missing_locations(tree)
    if 'reorder' in mode:
        tree = reorder_functions(tree)
    if 'temps' in mode:
        tree = Temps().visit(tree)
        ast.fix_missing_locations(tree)
    out = ast.unparse(tree) + '\n'
    compile(out, path, 'exec')
    with open(path, 'w', encoding='utf-8') as handle:
        handle.write(out)


KEYWORDS_USED = set()


def main():
    for fname in os.listdir('/repo/propka'):
        if fname.endswith('.py'):
            with open(os.path.join('/repo/propka', fname), encoding='utf-8') as handle:
                for n in ast.walk(ast.parse(handle.read())):
                    if isinstance(n, ast.keyword) and n.arg:
                        KEYWORDS_USED.add(n.arg)
    mode = sys.argv[1] if len(sys.argv) > 1 else 'both'
    if mode == 'both':
        mode = 'rename+unparse'
    base = tempfile.mkdtemp(prefix='propka_ref_', dir='/var/tmp')
    try:
        shutil.copytree('/repo/propka', os.path.join(base, 'propka'),
                        ignore=shutil.ignore_patterns('__pycache__'))
        for fname in sorted(os.listdir(os.path.join(base, 'propka'))):
            if fname.endswith('.py') and fname != '_version.py':
                transform(os.path.join(base, 'propka', fname), mode)
        if '--keep' in sys.argv:
            print('kept', base)

        def run(p):
            r = subprocess.run(['/venv/bin/python' if os.access('/venv/bin/python', os.X_OK) else sys.executable, os.path.join(HERE, 'run_check.py'), p,
                                '--root', base], capture_output=True, text=True)
            fired = [l.strip() for l in r.stdout.splitlines() if l.startswith('  rule=')]
            err = [l for l in r.stdout.splitlines() if l.startswith('ANALYSIS-ERROR')]
            return p, r.returncode, fired, err
        with concurrent.futures.ThreadPoolExecutor(16) as pool:
            results = list(pool.map(run, PROPS))
        bad = 0
        for p, code, fired, err in results:
            if code != 0:
                bad += 1
                print('%s exit=%d (%d)' % (p, code, len(fired)))
                for f in fired[:40]:
                    print('    ' + f[:170])
                for e in err:
                    print('    ' + e[:200])
        print('%d of %d checks alarm on the %s variant' % (bad, len(PROPS), mode))
    finally:
        if '--keep' not in sys.argv:
            shutil.rmtree(base, ignore_errors=True)


if __name__ == '__main__':
    main()
