#!/usr/bin/env python3
"""Developer tool: run the quick checks against a scratch copy of /repo with a
patch applied.  usage: try_patch.py <patch.diff> [Cxx ...]

The copy lives outside /repo and /verif and is removed afterwards."""
import concurrent.futures
import os
import shutil
import subprocess
import sys
import tempfile

HERE = os.path.dirname(os.path.dirname(os.path.abspath(__file__)))
PROPS = ['C%02d' % i for i in range(1, 21)]


def main():
    diff = os.path.abspath(sys.argv[1])
    props = [p.upper() for p in sys.argv[2:]] or PROPS
    base = tempfile.mkdtemp(prefix='propka_try_', dir='/var/tmp')
    try:
        shutil.copytree('/repo/propka', os.path.join(base, 'propka'),
                        ignore=shutil.ignore_patterns('__pycache__'))
        res = subprocess.run(['patch', '-p1', '-d', base, '-i', diff, '--no-backup-if-mismatch'],
                             capture_output=True, text=True)
        if res.returncode != 0:
            print('PATCH FAILED', res.stdout, res.stderr)
            return 3

        def run(p):
            r = subprocess.run(['/venv/bin/python' if os.access('/venv/bin/python', os.X_OK) else sys.executable, os.path.join(HERE, 'run_check.py'), p,
                                '--root', base], capture_output=True, text=True)
            fired = [l.strip() for l in r.stdout.splitlines() if l.startswith('  rule=')]
            err = [l for l in r.stdout.splitlines() if l.startswith('ANALYSIS-ERROR')]
            return p, r.returncode, fired, err
        with concurrent.futures.ThreadPoolExecutor(16) as pool:
            results = list(pool.map(run, props))
        any_fire = False
        for p, code, fired, err in results:
            if code != 0:
                any_fire = True
                print('%s exit=%d' % (p, code))
                for f in fired[:8]:
                    print('    ' + f[:200])
                for e in err:
                    print('    ' + e[:200])
        if not any_fire:
            print('no check fired')
        return 0
    finally:
        shutil.rmtree(base, ignore_errors=True)


if __name__ == '__main__':
    sys.exit(main())
