#!/usr/bin/env python3
"""Regenerate MANIFEST.json from the table below (developer tool)."""
import json
import os

HERE = os.path.dirname(os.path.dirname(os.path.abspath(__file__)))

BASE_NOTE = ('Trusted base: CPython ast parses the tree as the interpreter does; '
             'the rule set of DESIGN.md section 4 for this property; the '
             'resolver/flow approximations of section 2. Decides the structural '
             'clauses named in level_claimed.text, not the numeric behaviour '
             '(see "Does not decide" in DESIGN.md).')

# id -> (claimed text, technique, design_ref)
CLAIMS = {}
NOT_YET = {}


def claim(pid, text, technique, ref=None):
    CLAIMS[pid] = (text, technique, ref or ('DESIGN.md section 4, ' + pid))


def load_claims():
    path = os.path.join(HERE, 'tools', 'claims.json')
    with open(path, encoding='utf-8') as handle:
        data = json.load(handle)
    for pid, rec in data['claims'].items():
        claim(pid, rec['text'], rec['technique'], rec.get('design_ref'))
    return data.get('not_applicable', {})


def main():
    not_applicable = load_claims()
    checks = []
    for pid in sorted(CLAIMS):
        text, technique, ref = CLAIMS[pid]
        checks.append({
            'property_id': pid,
            'quick_cmd': './check {0} --tier quick'.format(pid),
            'thorough_cmd': './check {0} --tier thorough'.format(pid),
            'evidence_file': 'evidence/{0}.json'.format(pid),
            'replay_cmd_template': './check {0} --replay {{path}}'.format(pid),
            'engine': 'sa',
            'level_claimed': {'category': 'other', 'text': text, 'design_ref': ref},
            'level_note': BASE_NOTE,
            'technique': technique,
        })
    manifest = {
        'version': 1,
        'setup_cmd': 'sh -c "python3 -m compileall -q sa checks selftest run_check.py >/dev/null && ./check --help >/dev/null"',
        'hooks': {
            'guard': 'PROPKA_VERIF',
            'enable': 'none needed: the checks parse /repo/propka with ast and never execute it; no hook or instrumentation commit exists',
            'baseline_off_cmd': 'cd /repo && /venv/bin/python -m pytest -ra -q -p no:cacheprovider --timeout=900 --continue-on-collection-errors',
            'source_commits': [],
            'add_only': True,
        },
        'engines': [{
            'name': 'sa', 'path': 'sa/',
            'serves_properties': sorted(CLAIMS),
            'kind_free_text': 'purpose-built static analysis over the Python ast: '
                              'structural rules, guard dominance, structured forward '
                              'dataflow (typestate, parity, tags), call graph/effects, '
                              'constant folding, abstract interpretation (sign/interval), '
                              'table agreement with the parsed propka.cfg',
        }],
        'checks': checks,
        'not_applicable': [{'property_id': pid, 'reason': reason}
                           for pid, reason in sorted(not_applicable.items())
                           if pid not in CLAIMS],
        'notes': 'All checks are static: they re-read /repo on every run, exit 0/1/2 '
                 '(2 = ANALYSIS-ERROR, anchor lost or checker failure). Known genuine '
                 'defects are listed in known_findings.json. Thorough tier adds wider '
                 'rule scopes and the checker self-test on scratch copies (evidence only).',
    }
    with open(os.path.join(HERE, 'MANIFEST.json'), 'w', encoding='utf-8') as handle:
        json.dump(manifest, handle, indent=1)
        handle.write('\n')
    print('MANIFEST.json: {0} checks, {1} not_applicable'.format(
        len(checks), len(manifest['not_applicable'])))


if __name__ == '__main__':
    main()
