#!/usr/bin/env python3
"""Developer tool: re-confirm a stored seeded change against the CURRENT /repo
HEAD (after repairs in /repo a stored patch may need porting):
  verify_seed.py <id> [new.diff]
With new.diff the stored patch.diff is replaced when the confirmation
succeeds (demo exits 0 without / non-zero with the change; 49 tests pass)."""
import json
import os
import shutil
import subprocess
import sys
import tempfile

HERE = os.path.dirname(os.path.dirname(os.path.abspath(__file__)))
PY = '/venv/bin/python'


def sh(cmd, cwd=None, env=None):
    r = subprocess.run(cmd, cwd=cwd, env=env, capture_output=True, text=True)
    return r.returncode, r.stdout + r.stderr


def main():
    seed = sys.argv[1]
    d = os.path.join(HERE, 'seeded', seed)
    diff = sys.argv[2] if len(sys.argv) > 2 else os.path.join(d, 'patch.diff')
    wt = tempfile.mkdtemp(prefix='seedverify_', dir='/tmp')
    os.rmdir(wt)
    sh(['git', '-C', '/repo', 'worktree', 'add', '--detach', wt, 'HEAD'])
    try:
        env = dict(os.environ, PYTHONPATH=wt, PYTHONDONTWRITEBYTECODE='1')
        prop = seed.split('-')[0]
        demo = open(os.path.join(d, 'demo.py')).read().replace('/tmp/seed/%s' % prop, wt)
        open(os.path.join(wt, '_demo_seed.py'), 'w').write(demo)
        is_pytest = 'def test_' in demo and '__main__' not in demo
        run = (lambda: sh([PY, '-m', 'pytest', '-q', '-p', 'no:cacheprovider', '_demo_seed.py'], wt, env)) \
            if is_pytest else (lambda: sh([PY, '_demo_seed.py'], wt, env))
        c0, _ = run()
        c, log = sh(['git', '-C', wt, 'apply', os.path.abspath(diff)])
        if c:
            print(seed, 'patch does not apply:', log.strip()[:200])
            return 1
        c1, _ = run()
        ct, lt = sh([PY, '-m', 'pytest', '-q', '-p', 'no:cacheprovider', '--ignore=_demo_seed.py', 'tests'], wt, env)
        ok = c0 == 0 and c1 != 0 and ct == 0
        print('%s: demo without %d, with %d, tests %s -> %s' % (
            seed, c0, c1, lt.strip().splitlines()[-1], 'CONFIRMED' if ok else 'NOT CONFIRMED'))
        if ok and len(sys.argv) > 2:
            shutil.copy(diff, os.path.join(d, 'patch.diff'))
            meta = json.load(open(os.path.join(d, 'meta.json')))
            meta['ported_to'] = sh(['git', '-C', '/repo', 'rev-parse', '--short', 'HEAD'])[1].strip()
            json.dump(meta, open(os.path.join(d, 'meta.json'), 'w'), indent=1)
        return 0 if ok else 1
    finally:
        sh(['git', '-C', '/repo', 'worktree', 'remove', '--force', wt])
        shutil.rmtree(wt, ignore_errors=True)


if __name__ == '__main__':
    sys.exit(main())
