#!/usr/bin/env python3
"""Developer tool: confirm a seeded change produced by a sub-agent and store it
under /verif/seeded/<id>/.

usage: keep_seed.py <Cxx> <n> [--name NAME]

Reads /tmp/seed/out_<Cxx>/change<n>.diff, demo<n>.py, note<n>.txt.  In a scratch
worktree of /repo (outside /repo and /verif, removed afterwards) it checks:
  1. the diff applies, the 49 tests pass with it,
  2. the demo fails (non-zero) with the change,
  3. the demo passes (zero) without it.
Then runs the quick checks against the patched tree (scratch copy, --root) and
records which fired."""
import json
import os
import shutil
import subprocess
import sys
import tempfile

HERE = os.path.dirname(os.path.dirname(os.path.abspath(__file__)))
PY = '/venv/bin/python'


def sh(cmd, cwd=None, env=None, timeout=1200):
    r = subprocess.run(cmd, cwd=cwd, env=env, capture_output=True, text=True, timeout=timeout)
    return r.returncode, (r.stdout + r.stderr)


def main():
    prop, n = sys.argv[1].upper(), sys.argv[2]
    rnd = 1
    if '--round' in sys.argv:
        rnd = int(sys.argv[sys.argv.index('--round') + 1])
    out = '/tmp/seed/out%s_%s' % ('' if rnd == 1 else str(rnd), prop)
    diff = os.path.join(out, 'change%s.diff' % n)
    demo = os.path.join(out, 'demo%s.py' % n)
    note = os.path.join(out, 'note%s.txt' % n)
    name = '%s-%d' % (prop, int(n) + 2 * (rnd - 1))
    if '--name' in sys.argv:
        name = sys.argv[sys.argv.index('--name') + 1]
    wt = tempfile.mkdtemp(prefix='seedcheck_', dir='/tmp')
    os.rmdir(wt)
    code, log = sh(['git', '-C', '/repo', 'worktree', 'add', '--detach', wt, 'HEAD'])
    if code:
        print(log)
        return 2
    meta = {'property': prop, 'seed': name}
    try:
        env = dict(os.environ, PYTHONPATH=wt, PYTHONDONTWRITEBYTECODE='1')
        # demo refers to /tmp/seed/<prop>; rewrite to the confirmation worktree
        demo_txt = open(demo).read().replace('/tmp/seed/%s' % prop, wt)
        demo_local = os.path.join(wt, '_demo_seed.py')
        open(demo_local, 'w').write(demo_txt)
        is_pytest = 'def test_' in demo_txt and '__main__' not in demo_txt

        def run_demo():
            if is_pytest:
                return sh([PY, '-m', 'pytest', '-q', '-p', 'no:cacheprovider', demo_local], cwd=wt, env=env)
            return sh([PY, demo_local], cwd=wt, env=env)
        c0, l0 = run_demo()
        meta['demo_without_change_exit'] = c0
        code, log = sh(['git', '-C', wt, 'apply', diff])
        if code:
            print('diff does not apply:', log)
            return 2
        c1, l1 = run_demo()
        meta['demo_with_change_exit'] = c1
        ct, lt = sh([PY, '-m', 'pytest', '-q', '-p', 'no:cacheprovider', '--timeout=900',
                     '--ignore=_demo_seed.py', 'tests'], cwd=wt, env=env)
        meta['tests_with_change'] = lt.strip().splitlines()[-1] if lt.strip() else ''
        meta['tests_with_change_exit'] = ct
        ok = c0 == 0 and c1 != 0 and ct == 0
        print('demo without change: exit %d; with change: exit %d; tests with change: %s'
              % (c0, c1, meta['tests_with_change']))
        if not ok:
            print('NOT CONFIRMED')
            print(l0[-600:] if c0 else '')
            print(l1[-300:])
            return 1
    finally:
        sh(['git', '-C', '/repo', 'worktree', 'remove', '--force', wt])
        shutil.rmtree(wt, ignore_errors=True)
    # which checks fire
    code, log = sh([sys.executable, os.path.join(HERE, 'tools', 'try_patch.py'), diff])
    fired = {}
    cur = None
    for line in log.splitlines():
        if line.startswith('C') and 'exit=' in line:
            cur = line.split()[0]
            fired[cur] = {'exit': int(line.split('exit=')[1].split()[0]), 'rules': []}
        elif line.strip().startswith('rule=') and cur:
            fired[cur]['rules'].append(line.strip())
    meta['checks_fired'] = fired
    meta['caught_by_own_property_check'] = fired.get(prop, {}).get('exit') == 1
    dest = os.path.join(HERE, 'seeded', name)
    os.makedirs(dest, exist_ok=True)
    shutil.copy(diff, os.path.join(dest, 'patch.diff'))
    shutil.copy(demo, os.path.join(dest, 'demo.py'))
    if os.path.exists(note):
        meta['note'] = open(note).read()
    meta['needs_to_manifest'] = meta.get('note', '')
    meta['what_was_run'] = ('git worktree of /repo HEAD; demo.py with PYTHONPATH=<worktree> before and '
                            'after `git apply patch.diff`; `/venv/bin/python -m pytest tests` with the '
                            'change; then every quick check with --root on a patched scratch copy')
    with open(os.path.join(dest, 'meta.json'), 'w') as handle:
        json.dump(meta, handle, indent=1)
    print('kept as seeded/%s; fired: %s' % (name, {k: v['exit'] for k, v in fired.items()}))
    return 0


if __name__ == '__main__':
    sys.exit(main())
