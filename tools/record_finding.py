#!/usr/bin/env python3
"""Developer tool: append an entry to known_findings.json.

usage: record_finding.py <Fid> <Cxx> <rule> <key> fixed <commit> <witness> <what fails>
       record_finding.py <Fid> <Cxx> <rule> <key> open  -        <witness> <what fails>"""
import json
import sys

fid, prop, rule, key, status, commit, witness = sys.argv[1:8]
what = ' '.join(sys.argv[8:])
path = __file__.rsplit('/tools/', 1)[0] + '/known_findings.json'
kf = json.load(open(path))
assert not any(f['id'] == fid for f in kf['findings']), 'duplicate id'
entry = {'id': fid, 'property': prop, 'rule': rule, 'key': key, 'status': status,
         'what_fails': what, 'witness': witness}
if status == 'fixed':
    entry['commit'] = commit
    kf['fixed'].append('fixed: property=%s %s %s' % (prop, commit, what))
kf['findings'].append(entry)
json.dump(kf, open(path, 'w'), indent=1)
print('recorded', fid, status)
