#!/usr/bin/env python3
"""Developer tool: run every quick check against every seeded change
(/verif/seeded/<id>/patch.diff applied to a scratch copy) and write
seeded/MATRIX.md plus the checks_fired field of each meta.json."""
import concurrent.futures
import json
import os
import shutil
import subprocess
import sys
import tempfile

HERE = os.path.dirname(os.path.dirname(os.path.abspath(__file__)))
PROPS = ['C%02d' % i for i in range(1, 21)]
PY = '/venv/bin/python' if os.access('/venv/bin/python', os.X_OK) else sys.executable


def one(seed):
    diff = os.path.join(HERE, 'seeded', seed, 'patch.diff')
    base = tempfile.mkdtemp(prefix='propka_mx_', dir='/var/tmp')
    try:
        shutil.copytree('/repo/propka', os.path.join(base, 'propka'),
                        ignore=shutil.ignore_patterns('__pycache__'))
        res = subprocess.run(['patch', '-p1', '-d', base, '-i', diff, '--no-backup-if-mismatch'],
                             capture_output=True, text=True)
        if res.returncode != 0:
            return seed, None
        fired = {}
        for p in PROPS:
            r = subprocess.run([PY, os.path.join(HERE, 'run_check.py'), p, '--root', base],
                               capture_output=True, text=True)
            if r.returncode != 0:
                rules = [l.strip() for l in r.stdout.splitlines() if l.startswith('  rule=')]
                fired[p] = {'exit': r.returncode, 'rules': rules[:12]}
        return seed, fired
    finally:
        shutil.rmtree(base, ignore_errors=True)


def main():
    seeds = sorted(d for d in os.listdir(os.path.join(HERE, 'seeded'))
                   if os.path.isfile(os.path.join(HERE, 'seeded', d, 'patch.diff')))
    with concurrent.futures.ThreadPoolExecutor(8) as pool:
        results = dict(pool.map(one, seeds))
    lines = ['# Seeded changes x checks', '',
             'Each row is one change produced by a sub-agent from the property text alone (see',
             '`<id>/meta.json`); every change passes the 49 tests and has a demonstration.',
             'Columns: the check of the property the change was written against, and every',
             'other check that reports a violation on the changed tree.', '',
             '| seed | own check | rules (own check) | other checks that fire |', '|---|---|---|---|']
    missed = []
    for seed in seeds:
        fired = results[seed]
        prop = seed.split('-')[0]
        meta_path = os.path.join(HERE, 'seeded', seed, 'meta.json')
        meta = json.load(open(meta_path))
        if fired is None:
            lines.append('| %s | patch does not apply | | |' % seed)
            continue
        meta['checks_fired'] = fired
        own = fired.get(prop)
        meta['caught_by_own_property_check'] = bool(own and own['exit'] == 1)
        json.dump(meta, open(meta_path, 'w'), indent=1)
        own_txt = 'VIOLATION' if own and own['exit'] == 1 else ('exit %d' % own['exit'] if own else 'silent')
        rules = '; '.join(sorted({r.split(' key=')[0].replace('rule=', '') + ' ' + r.split(' key=')[1][:60]
                                  for r in (own['rules'] if own else [])}))[:300]
        others = ', '.join('%s%s' % (p, '' if v['exit'] == 1 else '(exit %d)' % v['exit'])
                           for p, v in sorted(fired.items()) if p != prop)
        lines.append('| %s | %s | %s | %s |' % (seed, own_txt, rules, others))
        if not (own and own['exit'] == 1):
            missed.append(seed)
    lines += ['', 'Not caught by the own-property check: %s' % (', '.join(missed) or 'none')]
    open(os.path.join(HERE, 'seeded', 'MATRIX.md'), 'w').write('\n'.join(lines) + '\n')
    print('\n'.join(lines[-1:]))
    for seed in seeds:
        f = results[seed]
        print(seed, {k: v['exit'] for k, v in (f or {}).items()})


if __name__ == '__main__':
    main()
