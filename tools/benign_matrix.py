#!/usr/bin/env python3
"""Developer tool: run the twenty quick checks against every behaviour-preserving
refactoring kept under /verif/benign/<id>/patch.diff (made by independent
sub-agents that saw nothing of /verif) and list the checks that alarm.

A refactoring whose patch no longer applies to /repo is reported as stale."""
import os
import subprocess
import sys

HERE = os.path.dirname(os.path.dirname(os.path.abspath(__file__)))


def main():
    ids = sorted(os.listdir(os.path.join(HERE, 'benign')))
    ids = [i for i in ids if os.path.isdir(os.path.join(HERE, 'benign', i))]
    alarms = stale = 0
    lines = []
    for i in ids:  # serial over refactorings; each runs the twenty checks in parallel
        patch = os.path.join(HERE, 'benign', i, 'patch.diff')
        r = subprocess.run([sys.executable, os.path.join(HERE, 'tools', 'try_patch.py'), patch],
                           capture_output=True, text=True)
        out = [l for l in r.stdout.splitlines() if l.strip()]
        if any('PATCH FAILED' in l for l in out):
            stale += 1
            lines.append('%s  stale (patch does not apply to the current tree)' % i)
        elif out and out[0].startswith('no check fired'):
            lines.append('%s  silent' % i)
        else:
            alarms += 1
            lines.append('%s  ALARM  %s' % (i, ' '.join(l.strip() for l in out)[:300]))
    lines.append('%d refactorings, %d alarm, %d stale' % (len(ids), alarms, stale))
    text = '\n'.join(lines)
    print(text)
    open(os.path.join(HERE, 'benign', 'MATRIX.md'), 'w').write(
        '# Behaviour-preserving refactorings vs. the twenty checks\n\n```\n' + text + '\n```\n')


if __name__ == '__main__':
    main()
