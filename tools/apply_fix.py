#!/usr/bin/env python3
"""Developer tool: apply a repair to /repo as one `fix:` commit.

usage: apply_fix.py <diff> <witness.py> "<commit message starting with fix:>"

Steps: the witness (a script under design_notes/, run with PYTHONPATH=/repo)
must exit non-zero before and zero after the diff; the 49 tests must pass with
it; then the diff is committed in /repo.  Nothing is committed when a step
fails (the diff is reverted)."""
import json
import subprocess
import sys

PY = '/venv/bin/python'


def sh(cmd, cwd=None):
    r = subprocess.run(cmd, cwd=cwd, capture_output=True, text=True,
                       env={'PYTHONPATH': '/repo', 'PATH': '/usr/bin:/bin:/venv/bin',
                            'PYTHONDONTWRITEBYTECODE': '1', 'HOME': '/root'})
    return r.returncode, r.stdout + r.stderr


def main():
    diff, witness, msg = sys.argv[1:4]
    assert msg.startswith('fix:')
    c0, l0 = sh([PY, witness], cwd='/tmp')
    print('witness before: exit', c0)
    if c0 == 0:
        print('witness does not fail on the current tree'); return 1
    c, l = sh(['git', '-C', '/repo', 'apply', diff])
    if c:
        print('diff does not apply', l); return 1
    c1, l1 = sh([PY, witness], cwd='/tmp')
    print('witness after: exit', c1)
    base = json.load(open('/root/.vp/BASELINE.json'))
    ct, lt = sh([PY, '-m', 'pytest', '-q', '-p', 'no:cacheprovider', 'tests'], cwd='/repo')
    print('tests:', lt.strip().splitlines()[-1])
    if c1 != 0 or ct != 0:
        sh(['git', '-C', '/repo', 'checkout', '--', '.'])
        print('REVERTED'); print(l1[-800:]); return 1
    sh(['git', '-C', '/repo', 'commit', '-qam', msg])
    c, l = sh(['git', '-C', '/repo', 'log', '--oneline', '-1'])
    print('committed', l.strip())
    return 0


if __name__ == '__main__':
    sys.exit(main())
