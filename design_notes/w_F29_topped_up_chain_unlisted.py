"""C08 hunt 3: groups of a chain that the FIRST conformation gets only through
the top-up are left out of the determinant section of the conformation average.

Chain A: tripeptide GLY-SER-GLY.  Chain B: one free glutamate given as ATOM
records (N, CA, C, O, CB, CG, CD, OE1, OE2 taken from GLU 27 of 1FTJ), 4 bonds
between N and CD, so nothing is covalently coupled.
  variant 1: MODEL 1 = chain A, MODEL 2 = chain A + chain B
  variant 2: one model, every atom of chain B has alt-loc 'B'
  variant 3: the hydrogens are in the file and --keep-protons is given; chain B
             is a second GLY-SER-GLY that only MODEL 2 contains
Both conformations contain chain B after the top-up and both calculate
N+ 1 B and GLU 1 B, the summary section lists them, but the determinant
section (pKa, buried, desolvation, determinants) of AVR has no line for them.

exit 1 = violation reproduced, exit 0 = behaviour correct.
"""
import io
import logging
import re
import sys

from propka.input import read_parameter_file, read_molecule_file
from propka.lib import loadOptions
from propka.molecular_container import MolecularContainer
from propka.parameters import Parameters
from propka.output import get_summary_section, get_determinant_section

logging.disable(logging.CRITICAL)

CHAIN_A = (
    "ATOM      1  N   GLY A   1       2.037  -0.982   0.836  1.00  0.00           N  \n"
    "ATOM      2  CA  GLY A   1       3.462  -0.865   0.540  1.00  0.00           C  \n"
    "ATOM      3  C   GLY A   1       4.291  -1.573   1.584  1.00  0.00           C  \n"
    "ATOM      4  O   GLY A   1       3.777  -2.158   2.541  1.00  0.00           O  \n"
    "ATOM      5  N   SER A   2       5.576  -1.566   1.473  1.00  0.00           N  \n"
    "ATOM      6  CA  SER A   2       6.377  -2.251   2.483  1.00  0.00           C  \n"
    "ATOM      7  C   SER A   2       7.852  -2.130   2.177  1.00  0.00           C  \n"
    "ATOM      8  O   SER A   2       8.265  -1.521   1.190  1.00  0.00           O  \n"
    "ATOM      9  CB  SER A   2       5.943  -3.732   2.620  1.00  0.00           C  \n"
    "ATOM     10  OG  SER A   2       6.285  -4.520   1.474  1.00  0.00           O  \n"
    "ATOM     11  N   GLY A   3       8.703  -2.681   2.974  1.00  0.00           N  \n"
    "ATOM     12  CA  GLY A   3      10.128  -2.564   2.677  1.00  0.00           C  \n"
    "ATOM     13  C   GLY A   3      10.957  -3.272   3.721  1.00  0.00           C  \n"
    "ATOM     14  O   GLY A   3      10.444  -3.857   4.678  1.00  0.00           O  \n"
    "TER   \n")


def free_glu(alt=' '):
    """GLU 27 of 1FTJ, renamed to chain B residue 1, moved next to chain A."""
    src = [l for l in open('/repo/tests/pdb/1FTJ-Chain-A.pdb')
           if l.startswith('ATOM  ') and l[17:20] == 'GLU'
           and int(l[22:26]) == 27]
    assert [l[12:16].strip() for l in src] == [
        'N', 'CA', 'C', 'O', 'CB', 'CG', 'CD', 'OE1', 'OE2'], src
    x0, y0, z0 = (float(src[1][30:38]), float(src[1][38:46]),
                  float(src[1][46:54]))
    out = ''
    for i, l in enumerate(src):
        x = float(l[30:38]) - x0 + 6.0
        y = float(l[38:46]) - y0 + 6.0
        z = float(l[46:54]) - z0 + 2.0
        out += ('ATOM  {0:5d} {1}{2}GLU B   1    {3:8.3f}{4:8.3f}{5:8.3f}'
                '  1.00  0.00           {6}  \n').format(
                    15 + i, l[12:16], alt, x, y, z, l[12:16].strip()[0])
    return out + 'TER   \n'


def run(text, options=()):
    args = loadOptions(list(options) + ['x.pdb'])
    parameters = read_parameter_file(args.parameters, Parameters())
    mol = MolecularContainer(parameters, args)
    mol = read_molecule_file('x.pdb', mol, stream=io.StringIO(text))
    mol.calculate_pka()
    return mol


def labels(section, first_line_only):
    """Group labels (e.g. 'GLU   1 B') that have a line in a section."""
    found = []
    for line in section.splitlines():
        match = re.match(r'^\s*([A-Z][A-Z0-9+-]{1,2}\s+\d+ [A-Z])\s+-?\d+\.\d\d',
                         line)
        if match and match.group(1) not in found:
            found.append(match.group(1))
    return found


# chain A with its two backbone amide hydrogens (as PROPKA itself places them)
CHAIN_A_H = CHAIN_A.replace('TER   \n', (
    "ATOM     15  H   SER A   2       6.021  -1.094   0.699  1.00  0.00           H  \n"
    "ATOM     16  H   GLY A   3       8.389  -3.185   3.791  1.00  0.00           H  \n"
    "TER   \n"))


def second_peptide():
    """Copy of chain A (with hydrogens) as chain B, 12 A away along y."""
    out = ''
    for line in CHAIN_A_H.splitlines(True):
        if line.startswith('ATOM  '):
            line = '{0}B{1}{2:8.3f}{3}'.format(
                line[:21], line[22:38], float(line[38:46]) + 12.0, line[46:])
        out += line
    return out


VARIANTS = [
    ('1: chain B (free GLU) only in MODEL 2', (),
     'MODEL        1\n' + CHAIN_A + 'ENDMDL\nMODEL        2\n' + CHAIN_A
     + free_glu() + 'ENDMDL\nEND\n'),
    ('2: chain B (free GLU) only as alt-loc B', (),
     CHAIN_A + free_glu('B') + 'END\n'),
    ('3: hydrogens in the file, --keep-protons, chain B (GLY-SER-GLY) only '
     'in MODEL 2', ('--keep-protons',),
     'MODEL        1\n' + CHAIN_A_H + 'ENDMDL\nMODEL        2\n' + CHAIN_A_H
     + second_peptide() + 'ENDMDL\nEND\n'),
    ('control: chain B (free GLU) in MODEL 1, not in MODEL 2', (),
     'MODEL        1\n' + CHAIN_A + free_glu() + 'ENDMDL\nMODEL        2\n'
     + CHAIN_A + 'ENDMDL\nEND\n'),
]

bad = False
for title, options, text in VARIANTS:
    mol = run(text, options)
    par = mol.version.parameters
    print(title)
    print('   conformations', mol.conformation_names, ' chains recorded:',
          {n: c.chains for n, c in mol.conformations.items()})
    for name in mol.conformation_names:
        conf = mol.conformations[name]
        print('   {0:s} has {1:d} heavy atoms of chain B; groups: {2}'.format(
            name,
            len([a for a in conf.atoms
                 if a.chain_id == 'B' and a.element != 'H']),
            [(g.label, round(g.pka_value, 2))
             for g in conf.get_groups_for_calculations()]))
    in_summary = labels(get_summary_section(mol, 'AVR', par), True)
    in_determinants = labels(get_determinant_section(mol, 'AVR', par), True)
    print('   AVR summary section    :', in_summary)
    print('   AVR determinant section:', in_determinants)
    calculated = [g.label for g in
                  mol.conformations['AVR'].get_groups_for_calculations()]
    missing = [l for l in calculated if l not in in_determinants]
    if missing:
        bad = True
        print('   --> averaged but NOT in the determinant section:', missing)
    missing = [l for l in calculated if l not in in_summary]
    if missing:
        bad = True
        print('   --> averaged but NOT in the summary section:', missing)

if bad:
    print('VIOLATION: ionizable groups that exist in every (completed) '
          'conformation are not reported in the determinant section')
    sys.exit(1)
print('ok')
sys.exit(0)
