#!/usr/bin/env python
"""C17 / hunt1: hydrogens built on a centre whose neighbour directions cancel.

Protonate.tetrahedral()/trigonal() derive the direction of a new hydrogen on an
atom with two (three) neighbours from the SUM of the unit vectors to the
neighbours.  For a linear two-neighbour centre (azide N2, internal alkyne /
allene / cyanate carbon) or a planar symmetric three-neighbour centre (boric
acid B) this sum is the zero vector (or pure coordinate-rounding noise):

  * tetrahedral, 2 neighbours: the rotation axis a1+a2 is (0,0,0);
    rotate_vector_around_an_axis() then silently rotates about the z axis of
    the laboratory frame.  The hydrogens end up perpendicular to the molecule
    in one orientation and ON the N-N bonds (0.16 A from the neighbouring
    nitrogen) in another one.
  * trigonal, 2 neighbours: -(a1+a2) is (0,0,0) and Vector.rescale() divides by
    zero: reading the structure fails with ZeroDivisionError.
  * tetrahedral, 3 neighbours: -(a1+a2+a3) is rounding noise, the hydrogen
    points in a different direction in every orientation.

None of these atoms has a single neighbour, Vector.orthogonal() is not involved.

exit 1: violation demonstrated, exit 0: behaviour correct.
"""
import io
import logging
import math
import sys

from propka.lib import loadOptions
from propka.parameters import Parameters
from propka.input import read_parameter_file, read_molecule_file
from propka.molecular_container import MolecularContainer

logging.getLogger('propka').setLevel(logging.ERROR)


def load(text, opts=()):
    options = loadOptions([*opts, '-q', 'x.pdb'])
    parameters = read_parameter_file(options.parameters, Parameters())
    mol = MolecularContainer(parameters, options)
    return read_molecule_file('x.pdb', mol, stream=io.StringIO(text))


def hetatm(res, atoms):
    text = ''
    for i, (name, (x, y, z)) in enumerate(atoms):
        text += ('HETATM%5d  %-3s %3s L 900    %8.3f%8.3f%8.3f  1.00 20.00\n'
                 % (i + 1, name, res, x, y, z))
    return text


# the rigid motion: rotation by 90 degrees about y (x -> z ... exact in three
# decimals) followed by a translation
def motion(p):
    x, y, z = p
    return (-z + 3.0, y - 7.0, x + 11.0)


def dist(p, q):
    return math.dist(p, q)


def xyz(a):
    return (a.x, a.y, a.z)


def hydrogens_on(mol, name):
    conf = mol.conformations['1A']
    parent = [a for a in conf.atoms if a.name == name][0]
    return parent, [xyz(h) for h in parent.get_bonded_elements('H')], conf


def compare(label, res, atoms, centre):
    """Hydrogens on `centre` in frame A, moved, versus built in frame B."""
    bad = False
    text_a = hetatm(res, atoms)
    text_b = hetatm(res, [(n, motion(p)) for n, p in atoms])
    try:
        par_a, h_a, conf_a = hydrogens_on(load(text_a), centre)
        par_b, h_b, conf_b = hydrogens_on(load(text_b), centre)
    except ZeroDivisionError as err:
        print('%s: reading the structure fails: ZeroDivisionError(%s)'
              % (label, err))
        return True
    print('%s: centre %s has %d heavy neighbours, type %s, steric number %d'
          % (label, centre, len(par_a.get_bonded_heavy_atoms()),
             par_a.sybyl_type, par_a.steric_number))
    print('   frame A  hydrogens on %s: %s' % (centre, h_a))
    print('   frame B  hydrogens on %s: %s' % (centre, h_b))
    moved = [motion(p) for p in h_a]
    if len(moved) != len(h_b):
        print('   VIOLATION: %d hydrogens in frame A, %d in frame B'
              % (len(moved), len(h_b)))
        return True
    rest = list(h_b)
    worst = 0.0
    for p in moved:
        j = min(range(len(rest)), key=lambda k: dist(p, rest[k]))
        worst = max(worst, dist(p, rest[j]))
        rest.pop(j)
    print('   largest deviation between moved(A) and B: %.3f A' % worst)
    if worst > 0.05:
        print('   VIOLATION (orientation): the hydrogen set is not the same '
              'in the two orientations')
        bad = True
    # every added hydrogen must be bonded to exactly one heavy atom
    for conf, par, hs, frame in ((conf_a, par_a, h_a, 'A'),
                                 (conf_b, par_b, h_b, 'B')):
        for h in hs:
            for other in conf.atoms:
                if other.element == 'H' or other is par:
                    continue
                d = dist(h, xyz(other))
                if d < 0.9:
                    print('   VIOLATION (one heavy atom): frame %s hydrogen '
                          '%s on %s is %.3f A from %s' % (
                              frame, h, centre, d, other.name))
                    bad = True
    return bad


violations = []

# 1. azide ion (PDB ligand AZI), linear, N-N 1.17 A, along x
azi = [('N1', (8.830, 10.0, 10.0)), ('N2', (10.0, 10.0, 10.0)),
       ('N3', (11.170, 10.0, 10.0))]
violations.append(compare('azide AZI', 'AZI', azi, 'N2'))

# 2. internal alkyne carbon, C-C#C-C with a triple bond of 1.21 A
yne = [('C1', (7.935, 10.0, 10.0)), ('C2', (9.395, 10.0, 10.0)),
       ('C3', (10.605, 10.0, 10.0)), ('C4', (12.065, 10.0, 10.0))]
violations.append(compare('2-butyne', 'YNE', yne, 'C2'))

# 3. cyanate ion (PDB ligand OCN), linear: the carbon becomes a trigonal
#    centre with two collinear neighbours
ocn = [('C', (10.0, 10.0, 10.0)), ('N', (11.170, 10.0, 10.0)),
       ('O', (8.770, 10.0, 10.0))]
violations.append(compare('cyanate OCN', 'OCN', ocn, 'C'))

# 4. boric acid (PDB ligand BO3), planar, three B-O bonds of 1.37 A at 120 deg
s = math.sin(math.radians(60.0)) * 1.37
bo3 = [('B', (10.0, 10.0, 10.0)), ('O1', (11.370, 10.0, 10.0)),
       ('O2', (9.315, 10.0 + round(s, 3), 10.0)),
       ('O3', (9.315, 10.0 - round(s, 3), 10.0))]
violations.append(compare('boric acid BO3', 'BO3', bo3, 'B'))

if any(violations):
    print('RESULT: violated in %d of %d cases' % (sum(violations),
                                                  len(violations)))
    sys.exit(1)
print('RESULT: hydrogen sets agree in both orientations')
sys.exit(0)
