"""Witness for F14 (C01.R9): the side-chain site of an N-terminal ASP, CYS or HIS
is covalently coupled to the N+ group of the same residue (defining atoms 3 bonds
apart, equal - empty - sybyl type) and one of the two is dropped from the
summary.  Run with /venv/bin/python; not part of any check."""
import sys, io, os, tempfile
sys.path.insert(0, '/repo')
import logging; logging.disable(logging.CRITICAL)
from propka.run import single
def run(text, name):
    mol = single(name + '.pdb', optargs=['-q'], stream=io.StringIO(text), write_pka=False)
    conf = mol.conformations['AVR']
    from propka.output import get_summary_section
    summ = get_summary_section(mol, 'AVR', mol.version.parameters)
    return mol, summ
src = open('/repo/tests/pdb/1HPX.pdb').read().splitlines(True)
def chainA_from(resnum):
    out = []
    for l in src:
        if l.startswith(('ATOM', 'HETATM')) and l[21] == 'A' and l.startswith('ATOM') and int(l[22:26]) >= resnum:
            out.append(l)
    return ''.join(out)
for first, label in ((67, 'CYS  67 A'), (69, 'HIS  69 A'), (25, 'ASP  25 A'), (68, 'GLY')):
    mol, summ = run(chainA_from(first), 'x%d' % first)
    groups = [g.label for g in mol.conformations['1A'].groups if g.titratable]
    rows = [l for l in summ.splitlines() if l.strip().startswith(label[:3]) and (' %3d A' % first) in l]
    nrows = [l for l in summ.splitlines() if l.strip().startswith('N+') and (' %3d A' % first) in l]
    print(first, label, 'titratable group present:', any(g.strip() == label.strip() or label in g for g in groups),
          '| summary rows for it:', len(rows), '| N+ rows:', len(nrows))
