#!/usr/bin/env python
"""C10 hunt 1: the end points of the requested pH window (-w) are dropped from the
printed folding profile whenever the binary float of the bound lies on the wrong
side of its decimal value (e.g. lower bound 1.1, upper bound 4.1).

Exit 1 = violation reproduced, exit 0 = behaviour correct.
"""
import os
import sys
import tempfile
from fractions import Fraction

from propka.run import single

PDB = "/repo/tests/pdb/3SGB-subset.pdb"


def printed_folding_ph(grid, window):
    """Run propka, return the pH column of the folding-profile section."""
    cwd = os.getcwd()
    with tempfile.TemporaryDirectory() as tmp:
        os.chdir(tmp)
        try:
            single(PDB, optargs=["--quiet", "-g", *grid, "-w", *window],
                   write_pka=True)
            lines = open("3SGB-subset.pka").read().splitlines()
        finally:
            os.chdir(cwd)
    start = next(i for i, l in enumerate(lines)
                 if l.startswith("Free energy of"))
    out = []
    for line in lines[start + 1:]:
        if not line.strip():
            break
        out.append(line.split()[0])
    return out


def expected_ph(grid, window):
    """Window points (w0 + k*dw <= w1) that are also grid points, exact."""
    g0, g1, dg = (Fraction(x) for x in grid)
    w0, w1, dw = (Fraction(x) for x in window)
    gridpts = set()
    k = 0
    while g0 + k * dg <= g1:
        gridpts.add(g0 + k * dg)
        k += 1
    out = []
    k = 0
    while w0 + k * dw <= w1:
        if w0 + k * dw in gridpts:
            out.append("{0:.2f}".format(float(w0 + k * dw)))
        k += 1
    return out


CASES = [
    # (grid, window) -- both as the strings a user types
    (("0", "14", "0.1"), ("1.1", "4.1", "1")),     # both ends lost
    (("0", "14", "0.1"), ("0.1", "14", "1")),      # lower end lost
    (("0", "14", "0.1"), ("0", "0.3", "0.1")),     # upper end lost
    (("0", "14", "0.1"), ("2.5", "7.5", "1")),     # control: exact floats, fine
]

bad = 0
for grid, window in CASES:
    got = printed_folding_ph(grid, window)
    exp = expected_ph(grid, window)
    ok = got == exp
    print("-g {0} -w {1}: {2}".format(" ".join(grid), " ".join(window),
                                      "ok" if ok else "VIOLATION"))
    if not ok:
        bad += 1
        print("   expected pH rows:", exp)
        print("   printed  pH rows:", got)
        print("   missing         :", [p for p in exp if p not in got])
if bad:
    print("{0} window(s) printed without one of their end points".format(bad))
    sys.exit(1)
print("all windows printed with both end points")
sys.exit(0)
