"""C08 hunt 1: a completed conformation lists its atoms in another order than
the input (own alt-loc atoms first, donor atoms behind), and order-dependent
steps (ligand atom typing, ...) then give the completed conformation other
groups / pKa values than the very same structure gets when it is read on its
own.  The conformation average is therefore NOT the mean over the (completed)
conformations.

Input: chain B of tests/pdb/4DFR.pdb (protein + methotrexate MTX B 162),
alt-loc B of the original file dropped.  One single ligand atom (MTX C2) is
given as alternate A / alternate B, 0.010 A apart.

Expected (statement C08): average == mean of the two conformations, each
completed with the atoms it lacks.  The two completed conformations are also
computed one by one (each written as an ordinary single-conformation file).

exit 1 = violation shown, exit 0 = behaviour correct.
"""
import io
import logging
import sys

logging.disable(logging.CRITICAL)
import propka.run as pr  # noqa: E402

PDB = '/repo/tests/pdb/4DFR.pdb'


def run(text):
    return pr.single('hunt1.pdb', stream=io.StringIO(text), write_pka=False)


def table(mol, conf):
    res = {}
    for group in mol.conformations[conf].groups:
        if conf != 'AVR' and not group.use_in_calculations():
            continue
        res[(group.label, group.atom.res_num, group.type)] = group.pka_value
    return res


base = []
for line in open(PDB):
    if line[:6] not in ('ATOM  ', 'HETATM'):
        continue
    if line[21] != 'B' or line[16] not in ' A' or line[17:20] == 'HOH':
        continue
    base.append(line[:16] + ' ' + line[17:])


def is_c2(line):
    return line[:6] == 'HETATM' and line[17:20] == 'MTX' \
        and line[12:16].strip() == 'C2'


def moved(line):
    return line[:30] + '%8.3f' % (float(line[30:38]) + 0.010) + line[38:]


conf_a = list(base)
conf_b = [moved(line) if is_c2(line) else line for line in base]
both = []
for line in base:
    if is_c2(line):
        both.append(line[:16] + 'A' + line[17:])
        both.append(moved(line)[:16] + 'B' + line[17:])
    else:
        both.append(line)

tab_a = table(run(''.join(conf_a) + 'END\n'), '1A')
tab_b = table(run(''.join(conf_b) + 'END\n'), '1A')
mol = run(''.join(both) + 'END\n')
print('conformations:', mol.conformation_names)
avr = table(mol, 'AVR')

# what the program computed inside for each conformation
for name in mol.conformation_names:
    conf = mol.conformations[name]
    print('inside, conformation', name, ': titratable MTX groups',
          [(g.label, round(g.pka_value, 2)) for g in conf.groups
           if g.atom.res_name == 'MTX' and g.titratable])

bad = []
for key in sorted(set(tab_a) | set(tab_b) | set(avr), key=str):
    vals = [t[key] for t in (tab_a, tab_b) if key in t]
    expected = sum(vals) / len(vals) if vals else None
    got = avr.get(key)
    if expected is None or got is None or abs(expected - got) > 0.02:
        bad.append((key, expected, got))

for key, expected, got in bad:
    print('VIOLATION %-12s expected mean %s   reported average %s' % (
        key[0], None if expected is None else round(expected, 2),
        None if got is None else round(got, 2)))
if bad:
    print('%d groups: reported average is not the mean over the two '
          'completed conformations' % len(bad))
    sys.exit(1)
print('average equals the mean over the completed conformations')
sys.exit(0)
