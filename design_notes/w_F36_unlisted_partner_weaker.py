"""C14 hunt 1: a residue left out of --titrate_only is no longer the same
hydrogen-bond partner, because its burial count (num_volume) is never computed.

The strength of a side-chain hydrogen bond depends only on the geometry and on
the burial of the two groups (COO-COO: value*(1+pair_weight); COO-HIS, CYS-HIS,
CYS-CYS: fixed 'buried pair' value when check_buried()).  Neither changes when
one of the two residues is taken off the titrate-only list, so the listed
group must see an H-bond of the same size as without the option.
Exit 1 = violation reproduced, 0 = behaves correctly.
"""
import logging
import sys
import propka.run as run

PDB = "/repo/tests/pdb/"
logging.disable(logging.CRITICAL)


def calc(name, opts=()):
    return run.single(PDB + name, optargs=list(opts) + ["-q"], write_pka=False)


def group(mol, conf, label):
    # (backbone groups carry the same label as the side-chain group)
    return [g for g in mol.conformations[conf].groups
            if g.label == label and 'BB' not in g.type][0]


def hb_from(mol, label, partner):
    g = group(mol, "AVR", label)
    vals = [d.value for d in g.determinants["sidechain"] if d.label == partner]
    return (sum(vals) if vals else None), g.pka_value


bad = 0

# --- witness 1: HIV protease 1HPX, catalytic dyad ASP 25 A / ASP 25 B ------
ref = calc("1HPX.pdb")
only = calc("1HPX.pdb", ["-i", "A:25"])
v_ref, pka_ref = hb_from(ref, "ASP  25 A", "ASP  25 B")
v_only, pka_only = hb_from(only, "ASP  25 A", "ASP  25 B")
conf = only.conformation_names[0]
print("1HPX  ASP 25 A <- ASP 25 B side-chain H-bond: no option %r, "
      "-i A:25 %r" % (v_ref, v_only))
print("      num_volume of the unlisted partner ASP 25 B: no option %d, "
      "-i A:25 %d" % (group(ref, conf, "ASP  25 B").num_volume,
                      group(only, conf, "ASP  25 B").num_volume))
print("      pKa ASP 25 A: no option %.2f, -i A:25 %.2f" % (pka_ref, pka_only))
if v_ref is None or v_only is None or abs(abs(v_ref) - abs(v_only)) > 1e-6:
    print("  -> VIOLATION: H-bond strength changed although geometry and "
          "burial are the same")
    bad += 1

# --- witness 2: 3SGB, catalytic HIS 57 E / ASP 102 E (buried COO-HIS pair) --
# the energy function itself, independent of the iterative bookkeeping
ref = calc("3SGB.pdb")
only = calc("3SGB.pdb", ["-i", "E:57"])
conf = ref.conformation_names[0]
e_ref = ref.version.hydrogen_bond_interaction(
    group(ref, conf, "HIS  57 E"), group(ref, conf, "ASP 102 E"))
e_only = only.version.hydrogen_bond_interaction(
    group(only, conf, "HIS  57 E"), group(only, conf, "ASP 102 E"))
v_ref, pka_ref = hb_from(ref, "HIS  57 E", "ASP 102 E")
v_only, pka_only = hb_from(only, "HIS  57 E", "ASP 102 E")
print("3SGB  hydrogen_bond_interaction(HIS 57 E, ASP 102 E): no option %r, "
      "-i E:57 %r" % (e_ref, e_only))
print("      reported determinant HIS 57 E <- ASP 102 E: no option %r, "
      "-i E:57 %r ; pKa %.2f vs %.2f" % (v_ref, v_only, pka_ref, pka_only))
if e_ref is None or e_only is None or abs(e_ref - e_only) > 1e-6:
    print("  -> VIOLATION: H-bond energy of the same pair differs")
    bad += 1

sys.exit(1 if bad else 0)
