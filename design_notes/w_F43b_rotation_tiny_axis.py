"""C20 hunt 2: very short (but non-zero) axes, |axis| < ~1e-154.

rotate_vector_around_an_axis() computes the two alignment angles from
asin(y/sqrt(x*x+y*y)) and acos(z/sqrt(x*x+z*z)).  For components below
~1.5e-154 the squares are subnormal or underflow to 0, so that
  * the rotation silently uses wrong alignment angles (errors of 1e-8 .. 1e-2
    of |v| for |axis| ~ 1e-158 .. 1e-162),
  * sqrt(...) < |y| makes asin raise ValueError('math domain error'),
  * sqrt(...) == 0 raises ZeroDivisionError (axis along x or y!).
The direction of such an axis is perfectly well defined (the components are
exact doubles); scaling the axis by the exact factor 2**600 gives the
reference rotation.  An axis along +-z of the same length works.

Exit 1 if any of these non-zero axes raises or deviates from the Rodrigues
rotation by more than 1e-12*|v|, else 0.
"""
import math
import sys
from propka.vector_algebra import Vector, rotate_vector_around_an_axis

TOL = 1e-12
SCALE = 2.0**600     # exact scaling, also for subnormal numbers


def rodrigues(theta, k, v):
    n = math.sqrt(sum(c*c for c in k))
    u = [c/n for c in k]
    c, s = math.cos(theta), math.sin(theta)
    uxv = (u[1]*v[2]-u[2]*v[1], u[2]*v[0]-u[0]*v[2], u[0]*v[1]-u[1]*v[0])
    ud = sum(a*b for a, b in zip(u, v))
    return [v[i]*c + uxv[i]*s + u[i]*ud*(1-c) for i in range(3)]


V = (1.0, 2.0, 3.0)
LV = math.sqrt(14.0)
THETA = 0.7
CASES = [
    (3e-162, 4e-162, 0.0),          # in the xy-plane
    (0.0, 3e-162, 4e-162),          # in the yz-plane
    (2e-162, 0.0, 1e-162),          # in the xz-plane
    (1e-161, 1e-161, 1e-161),       # generic direction
    (1e-158, 2e-158, -1e-158),
    (1.5e-162, 2.7e-162, 0.0),      # ~30 deg off the y axis -> math domain error
    (-1.5e-162, 0.0, 2.7e-162),     # ~30 deg off the z axis -> math domain error
    (1e-163, 0.0, 0.0),             # along +x -> ZeroDivisionError
    (0.0, -1e-200, 0.0),            # along -y -> ZeroDivisionError
    (5e-324, 0.0, 0.0),             # smallest positive double along x
    # controls
    (0.0, 0.0, -1e-200),            # along -z: fine
    (1e-150, 2e-150, -1e-150),      # short, but squares still normal: fine
]

bad = 0
for k in CASES:
    want = rodrigues(THETA, [c*SCALE for c in k], V)
    try:
        res = rotate_vector_around_an_axis(THETA, Vector(*k), Vector(*V))
    except (ArithmeticError, ValueError) as exc:
        bad += 1
        print('%-32s raises %r   <-- VIOLATION' % (k, exc))
        continue
    err = max(abs(a-b) for a, b in zip((res.x, res.y, res.z), want))/LV
    flag = ''
    if err > TOL:
        bad += 1
        flag = '   <-- VIOLATION'
    print('%-32s got (%.6f %.6f %.6f) want (%.6f %.6f %.6f) err %.2e%s'
          % ((k,) + (res.x, res.y, res.z) + tuple(want) + (err, flag)))
if bad:
    print('%d short non-zero axes are not rotated about correctly' % bad)
    sys.exit(1)
print('all rotations are Rodrigues rotations within %g' % TOL)
sys.exit(0)
