"""C20 hunt 1: axes that lie *almost* in the yz-plane (|axis.x| << |axis.y|),
e.g. almost parallel to the y axis, are rotated about a wrong axis.

rotate_vector_around_an_axis() first turns the axis into the xz-plane by the
angle gamma = -sign(x)*asin(y/sqrt(x*x+y*y)).  For |x| << |y| the argument of
asin is 1-O(x^2/y^2); asin is ill-conditioned there, and for |x/y| < ~1e-8 the
argument rounds to exactly +-1, so that gamma = +-pi/2 regardless of x.  The
remaining y-component of the turned axis (up to ~1.5e-8 of its length) is then
ignored, so the vector is rotated about an axis that is off by up to ~2e-8 rad:
the component along the axis is not preserved and the perpendicular component
does not turn by the given angle.  None of the axes below is near the z axis.

Exit 1 if any clause is violated by more than 1e-12 (a Rodrigues rotation in
double precision is good to ~1e-15), else 0.
"""
import math
import sys
from propka.vector_algebra import Vector, rotate_vector_around_an_axis

TOL = 1e-12


def clauses(theta, k, v):
    """Return (length error, along-axis error, angle error) of the rotation."""
    res = rotate_vector_around_an_axis(theta, Vector(*k), Vector(*v))
    r = (res.x, res.y, res.z)
    n = math.sqrt(sum(c*c for c in k))
    u = [c/n for c in k]
    dot = lambda a, b: sum(p*q for p, q in zip(a, b))
    cross = lambda a, b: (a[1]*b[2]-a[2]*b[1], a[2]*b[0]-a[0]*b[2],
                          a[0]*b[1]-a[1]*b[0])
    lv = math.sqrt(dot(v, v))
    lr = math.sqrt(dot(r, r))
    v_par, r_par = dot(v, u), dot(r, u)
    vp = [a - v_par*b for a, b in zip(v, u)]
    rp = [a - r_par*b for a, b in zip(r, u)]
    turned = math.atan2(dot(cross(vp, rp), u), dot(vp, rp))
    d_ang = (turned - theta + math.pi) % (2*math.pi) - math.pi
    return abs(lr-lv)/lv, abs(r_par-v_par)/lv, abs(d_ang)


CASES = [
    # theta, axis, vector
    (math.pi,   (1e-8, 1.0, 0.0),        (1.0, 2.0, 3.0)),   # almost +y
    (math.pi,   (-1e-8, -1.0, 0.0),      (1.0, 2.0, 3.0)),   # almost -y
    (2.0,       (1e-8, 1.0, 0.5),        (1.0, 2.0, 3.0)),   # almost in yz-plane
    (-2.0,      (-3e-9, -2.0, 1.0),      (-0.7, 0.2, 1.9)),
    (math.pi/2, (2e-8, -1.0, -0.3),      (3.0, -1.0, 0.5)),
    (math.pi,   (-1e8, 1e16, -1e5),      (0.02, -1.5, 0.13)),
    (math.pi,   (1e-7, 1.0, 1.0),        (1.0, 2.0, 3.0)),
    # controls: exactly in the yz-plane / generic axis -> fine
    (math.pi,   (0.0, 1.0, 0.5),         (1.0, 2.0, 3.0)),
    (2.0,       (0.3, 1.0, 0.5),         (1.0, 2.0, 3.0)),
]

bad = 0
print('%-34s %9s | %10s %10s %10s' % ('axis', 'theta', 'd|v|/|v|',
                                     'd(v.k)/|v|', 'd(angle)'))
for theta, k, v in CASES:
    e_len, e_par, e_ang = clauses(theta, k, v)
    flag = ''
    if max(e_len, e_par, e_ang) > TOL:
        bad += 1
        flag = '  <-- VIOLATION'
    print('%-34s %9.5f | %10.2e %10.2e %10.2e%s' % (k, theta, e_len, e_par,
                                                    e_ang, flag))
if bad:
    print('%d axes almost in the yz-plane are not rotated about the given '
          'axis (tolerance %g)' % (bad, TOL))
    sys.exit(1)
print('all rotations are Rodrigues rotations within %g' % TOL)
sys.exit(0)
