"""C03 hunt 2: path input and text-stream input are split into lines differently.

The same file content is read (a) by path and (b) as a text stream
(io.StringIO of the decoded text / a file object opened with newline='').
open_file_for_reading() opens a path in universal-newline mode, but uses a
caller-supplied stream as it is, so a structure whose lines end in a bare
carriage return (classic Mac line ends) is a full protein when given as a
path and "no conformations" when given as a stream.
Exits 1 when path and stream do not give the same result.
"""
import io
import logging
import os
import sys
import tempfile
from pathlib import Path

import propka.run as pr

logging.disable(logging.CRITICAL)
SRC = Path('/repo/tests/pdb/1FTJ-Chain-A.pdb')


def outcome(func):
    try:
        mol = func()
    except Exception as err:  # the outcome is part of the comparison
        return 'raised %s: %s' % (type(err).__name__, err)
    mol.write_pka()
    text = Path(mol.name + '.pka').read_text().splitlines()[1:]
    os.remove(mol.name + '.pka')
    groups = mol.conformations['AVR'].groups
    return ('%d groups, pI %.2f/%.2f' % ((len(groups),) + mol.get_pi()), text)


def short(res):
    return res if isinstance(res, str) else res[0]


def main():
    os.chdir(tempfile.mkdtemp(prefix='hunt_C03_2_'))
    bad = 0
    lf_text = SRC.read_text()
    for label, eol in [('LF', '\n'), ('CRLF', '\r\n'), ('CR', '\r')]:
        content = lf_text.replace('\n', eol)
        with open('struct.pdb', 'w', newline='') as handle:
            handle.write(content)              # bytes on disk == content
        by_path = outcome(lambda: pr.single('struct.pdb', write_pka=False))
        by_sio = outcome(lambda: pr.single(
            'struct.pdb', stream=io.StringIO(content), write_pka=False))
        with open('struct.pdb', 'r', newline='') as handle:
            by_file = outcome(lambda: pr.single(
                'struct.pdb', stream=handle, write_pka=False))
        same = by_path == by_sio == by_file
        print('%-4s line ends: %s' % (label, 'same' if same else 'DIFFERENT'))
        if not same:
            bad += 1
            print('   as path                  : %s' % short(by_path))
            print('   as io.StringIO stream    : %s' % short(by_sio))
            print("   as open(newline='') file : %s" % short(by_file))
    return 1 if bad else 0


if __name__ == '__main__':
    sys.exit(main())
