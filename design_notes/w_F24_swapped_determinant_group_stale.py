#!/usr/bin/env python
"""C02 hunt 2: with --display-coupled-residues (-d) the determinant rows written
to the .pka file are not the group's determinants: the rows of a swapped pair
carry the group's OWN label instead of the partner's.

Input: tests/pdb/1HPX.pdb (unchanged, one conformation), option -d.
ASP 25 A and ASP 25 B are non-covalently coupled; -d leaves their mutual
interactions swapped.  Conformation 1A then lists for ASP 25 A the determinants
'ASP  25 B' (side chain 0.84, Coulomb 1.89); the conformation average - which
for one conformation must be the same thing, and which is what gets written -
lists them as 'ASP  25 A'.

exit 1 = violation demonstrated, exit 0 = behaviour correct.
"""
import logging
import os
import sys
import tempfile

import propka.run as run

SRC = '/repo/tests/pdb/1HPX.pdb'
TYPES = ('sidechain', 'backbone', 'coulomb')


def rows(group):
    return {t: sorted((d.label, round(d.value, 6))
                      for d in group.determinants[t]) for t in TYPES}


def parse_rows(pka_txt, label):
    """determinant rows printed for the group `label` in the .pka file."""
    res = {t: [] for t in TYPES}
    section = pka_txt[pka_txt.index(' RESIDUE    pKa'):
                      pka_txt.index('SUMMARY OF THIS PREDICTION')]
    for line in section.split('\n'):
        if not line.startswith(label):
            continue
        cols = line[len(label) + 40:]
        for k, type_ in enumerate(TYPES):
            cell = cols[k * 18:(k + 1) * 18]
            if cell[9:] != 'XXX   0 X':
                res[type_].append((cell[9:], float(cell[:8])))
    return res


def main():
    logging.getLogger('propka').setLevel(logging.CRITICAL)
    tmp = tempfile.mkdtemp()
    os.chdir(tmp)
    mol = run.single(SRC, optargs=['-d'], write_pka=True)
    files = [f for f in os.listdir(tmp) if f.endswith('.pka')]
    pka_txt = open(os.path.join(tmp, files[0])).read()
    assert mol.conformation_names == ['1A']
    conf = mol.conformations['1A']
    avr = mol.conformations['AVR']

    violations = []
    for avr_group in avr.groups:
        group = conf.find_group(avr_group)
        # the model pKa + contributions identity itself holds; show it
        in_conf = rows(group)
        in_avr = rows(avr_group)
        printed = parse_rows(pka_txt, avr_group.label)
        for type_ in TYPES:
            printed_labels = sorted(l for l, _ in printed[type_])
            conf_labels = sorted(l for l, _ in in_conf[type_])
            if printed_labels != conf_labels or in_avr[type_] != in_conf[type_]:
                violations.append((avr_group.label, type_, in_conf[type_],
                                   sorted(printed[type_])))
            if type_ != 'backbone' and avr_group.label in printed_labels:
                print('%s is printed as a %s determinant of itself'
                      % (avr_group.label, type_))
    print('\nlines of the written file %s:' % files[0])
    for line in pka_txt.split('\n'):
        if line.startswith('ASP  25 A') or line.startswith('ASP  25 B'):
            print('   ' + line)
    if violations:
        print('\nVIOLATION: printed determinant rows are not the determinants '
              'the group has in the (only) conformation:')
        for label, type_, want, got in violations:
            print('   %s %-9s conformation 1A: %s' % (label, type_, want))
            print('   %s %-9s .pka file      : %s' % (label, type_, got))
        return 1
    print('\nno violation')
    return 0


if __name__ == '__main__':
    sys.exit(main())
