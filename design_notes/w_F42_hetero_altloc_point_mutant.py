"""F42 witness: an alt-loc point mutant between two hetero residues whose atoms
share names (adenine / guanine at one position).  Conformation 1A holds DA 5,
1B holds DG 5.  Expected (C08): groups of different residue types are never
merged - DA N1 (model 3.82) and DG N1 (model 9.59) are reported separately, each
averaged over the one conformation that has it."""
import io, logging, sys
import propka.run as run
logging.disable(logging.CRITICAL)
A = [("C1'", -2.479, 5.346), ('N9', -1.291, 4.498), ('C8', 0.024, 4.897), ('N7', 0.877, 3.902),
     ('C5', 0.071, 2.771), ('C6', 0.369, 1.398), ('N6', 1.611, 0.909), ('N1', -0.668, 0.532),
     ('C2', -1.912, 1.023), ('N3', -2.320, 2.290), ('C4', -1.267, 3.124)]
G = [("C1'", -2.477, 5.399), ('N9', -1.289, 4.551), ('C8', 0.023, 4.962), ('N7', 0.870, 3.969),
     ('C5', 0.071, 2.833), ('C6', 0.424, 1.460), ('O6', 1.554, 0.955), ('N1', -0.700, 0.641),
     ('C2', -1.999, 1.087), ('N2', -2.949, 0.139), ('N3', -2.342, 2.364), ('C4', -1.265, 3.177)]
lines = []
n = 0
for alt, res, atoms in (('A', 'DA', A), ('B', 'DG', G)):
    for name, x, y in atoms:
        n += 1
        el = name[0]
        lines.append('HETATM%5d %-4s%s%3s A%4d    %8.3f%8.3f%8.3f  0.50 20.00          %2s\n'
                     % (n, (' ' + name) if len(name) < 4 else name, alt, ' ' + res, 5, x, y, 0.0, el))
text = ''.join(lines) + 'END\n'
mol = run.single('w.pdb', ['--quiet'], stream=io.StringIO(text), write_pka=False)
bad = []
for name in mol.conformation_names:
    print(name, [(g.label, g.atom.res_name, g.model_pka, round(g.pka_value, 2)) for g in mol.conformations[name].groups if g.titratable])
avr = [(g.label, g.atom.res_name, g.model_pka, round(g.pka_value, 2)) for g in mol.conformations['AVR'].groups if g.titratable]
print('AVR', avr)
per = {}
for name in mol.conformation_names:
    for g in mol.conformations[name].groups:
        if g.titratable:
            per.setdefault((g.atom.res_name, g.atom.name), []).append(g.pka_value)
got = {(r, l.split()[1] if False else None): None for l, r, m, p in avr}
avr_keys = {}
for g in mol.conformations['AVR'].groups:
    if g.titratable:
        avr_keys.setdefault((g.atom.res_name, g.atom.name), []).append(g.pka_value)
for key, vals in per.items():
    mean = sum(vals) / len(vals)
    if key not in avr_keys:
        bad.append('%s %s exists in a conformation but is not reported' % key)
    elif abs(avr_keys[key][0] - mean) > 1e-6:
        bad.append('%s %s: reported %.2f, mean over its conformations %.2f' % (key + (avr_keys[key][0], mean)))
for b in bad:
    print('VIOLATION', b)
sys.exit(1 if bad else 0)
