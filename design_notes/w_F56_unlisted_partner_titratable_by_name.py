"""C14 hunt 1: an unlisted ionizable residue is still treated as titratable
by Group.calculate_intrinsic_pka (it decides by the first three label
characters, not by group.titratable), so its hydrogen bond is left out of the
intrinsic pKa of a listed group and the non-covalent coupling search
(coupled_groups.py, max_intrinsic_pka_diff) couples a pair it must not couple.

Input: tests/pdb/1FTJ-Chain-A.pdb, titrate-only list = every residue of the
structure except ARG 96 of chain A.

Exit 1 = violation shown (unchanged code), exit 0 = behaviour correct.
"""
import logging
import os
import sys
import tempfile

import propka.run as run

logging.disable(logging.CRITICAL)
PDB = '/repo/tests/pdb/1FTJ-Chain-A.pdb'
UNLISTED = ('A', 96, ' ')
os.chdir(tempfile.mkdtemp())

# every residue of the file except ARG 96 A
residues = []
for line in open(PDB):
    if line[:6] in ('ATOM  ', 'HETATM'):
        key = (line[21].strip() or '_', int(line[22:26]), line[26])
        if key not in residues:
            residues.append(key)
listed = [r for r in residues if r != UNLISTED]
arg = ','.join('%s:%d%s' % (c, n, i.strip()) for c, n, i in listed)
mol = run.single(PDB, ['-q', '-i', arg], write_pka=False)
conf = mol.conformations['1A']
max_diff = mol.version.parameters.max_intrinsic_pka_diff


def real(group):
    """Determinants of the iterative scheme point to Iterative objects."""
    return getattr(group, 'group', group)


def intrinsic_expected(group):
    """model pKa + desolvation + backbone H-bonds + side-chain H-bonds to the
    groups that are NOT titratable in this run (docstring of
    Group.calculate_intrinsic_pka: 'side-chain hydrogen bonds to
    non-titratable residues')."""
    value = group.model_pka + group.energy_volume + group.energy_local
    value += sum(d.value for d in group.determinants['backbone'])
    value += sum(d.value for d in group.determinants['sidechain']
                 if not real(d.group).titratable)
    return value


bad = False
arg96 = [g for g in conf.groups if g.label == 'ARG  96 A'][0]
print('ARG 96 A: in titrate-only list: %s, group.titratable = %s'
      % (UNLISTED in listed, arg96.titratable))
print('listed residues: %d of %d' % (len(listed), len(residues)))

# 1. intrinsic pKa values the code computed for listed groups
for group in conf.get_titratable_groups():
    if group.intrinsic_pka is None:
        continue
    expected = intrinsic_expected(group)
    if abs(expected - group.intrinsic_pka) > 1e-6:
        bad = True
        left_out = [(d.label, round(d.value, 2))
                    for d in group.determinants['sidechain']
                    if not real(d.group).titratable
                    and d.label[0:3] in ('ASP', 'GLU', 'LYS', 'ARG', 'HIS',
                                         'CYS', 'TYR', 'C- ', 'N+ ')]
        print('VIOLATION: %s (residue %d, listed): intrinsic pKa %.2f, '
              'expected %.2f; H-bond to the unlisted (non-titratable) '
              'partner left out: %s'
              % (group.label, group.atom.res_num, group.intrinsic_pka,
                 expected, left_out))

# 2. consequence: pairs marked as non-covalently coupled although their
#    intrinsic pKa values differ by more than max_intrinsic_pka_diff
for group in conf.get_titratable_groups():
    for other in group.non_covalently_coupled_groups:
        if id(group) < id(other):
            diff_code = abs(group.intrinsic_pka - other.intrinsic_pka)
            diff = abs(intrinsic_expected(group) - intrinsic_expected(other))
            flag = ''
            if diff > max_diff:
                bad = True
                flag = '  <-- VIOLATION: coupled, but > %.1f' % max_diff
            print('coupled pair %s / %s: |d intrinsic pKa| used %.2f, '
                  'with ARG 96 as H-bond partner %.2f%s'
                  % (group.label, other.label, diff_code, diff, flag))
sys.exit(1 if bad else 0)
