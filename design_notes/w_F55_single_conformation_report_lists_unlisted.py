"""C14 hunt 2: the per-conformation report (propka.output.write_pka with its
default conformation '1A', get_determinant_section, get_summary_section,
print_result) lists the unlisted residues too when --titrate_only is given.

Exit 1 = violation shown (unchanged code), exit 0 = behaviour correct.
"""
import logging
import os
import re
import sys
import tempfile

import propka.run as run
from propka.output import write_pka

logging.disable(logging.CRITICAL)
PDB = '/repo/tests/pdb/1HPX.pdb'
LISTED = [('A', 25), ('B', 25)]
os.chdir(tempfile.mkdtemp())


def summary_labels(text):
    """Labels of the rows of the SUMMARY section of a .pka text."""
    rows = text.split('SUMMARY OF THIS PREDICTION')[1].split('-' * 104)[0]
    labels = []
    for line in rows.splitlines()[2:]:
        if line.strip():
            labels.append(line[3:12])
    return labels


def determinant_labels(text):
    """Labels of the groups in the determinant section of a .pka text."""
    sect = text.split('INTERACTION\n')[1].split('SUMMARY OF THIS')[0]
    labels = []
    for line in sect.splitlines()[1:]:
        # first row of a group: label, then the pKa in columns 10-16
        if re.match(r'^.{9} +-?\d+\.\d\d[ *] +\d+ %', line):
            labels.append(line[0:9])
    return sorted(labels)


def report(mol, conformation):
    name = 'out_{0:s}.pka'.format(conformation)
    write_pka(mol, mol.version.parameters, filename=name,
              conformation=conformation, verbose=False)
    return open(name).read()


# 1. reference: without the option the report of conformation 1A (the only
#    conformation of 1HPX) lists the same groups as the averaged report
mol0 = run.single(PDB, ['-q'], write_pka=False)
ref_1a = summary_labels(report(mol0, '1A'))
ref_avr = summary_labels(report(mol0, 'AVR'))
print('no option : %d summary rows for 1A, %d for AVR, same rows: %s'
      % (len(ref_1a), len(ref_avr), ref_1a == ref_avr))

# 2. titrate only ASP 25 of both chains
arg = ','.join('%s:%d' % r for r in LISTED)
mol = run.single(PDB, ['-q', '-i', arg], write_pka=False)
text_1a = report(mol, '1A')        # '1A' is the default of output.write_pka
sum_1a = summary_labels(text_1a)
det_1a = determinant_labels(text_1a)
sum_avr = summary_labels(report(mol, 'AVR'))
expected = sorted(
    g.label for g in mol.conformations['1A'].groups
    if (g.atom.chain_id, g.atom.res_num) in LISTED and g.titratable)
print('-i %s' % arg)
print('  groups of the listed residues      :', expected)
print('  summary rows, conformation AVR     :', sorted(sum_avr))
print('  summary rows, conformation 1A      : %d rows' % len(sum_1a))
print('  determinant rows, conformation 1A  : %d groups' % len(det_1a))
extra = [lab for lab in sum_1a if lab not in expected]
bad = False
if sorted(sum_1a) != expected or sorted(det_1a) != expected:
    bad = True
    print('VIOLATION: the report of conformation 1A lists %d groups of '
          'residues that are not in the titrate-only list, e.g.' % len(extra))
    for line in text_1a.split('SUMMARY OF THIS PREDICTION')[1].splitlines():
        if line[3:12] in extra[:3] + [x for x in extra if x.startswith('CYS')][:2]:
            print('   ', line.rstrip())
    order = mol.version.parameters.write_out_order
    shown = [g for g in mol.conformations['1A'].groups
             if g.residue_type in order and g.label in extra]
    print('  of these %d reported groups %d have titratable == False, %d are '
          'CYS with exclude_cys_from_results == True'
          % (len(shown), sum(1 for g in shown if not g.titratable),
             sum(1 for g in shown if g.exclude_cys_from_results)))
sys.exit(1 if bad else 0)
