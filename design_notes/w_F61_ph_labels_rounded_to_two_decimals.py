"""C10 / hunt3: printed pH values are rounded to a fixed number of decimals and
are then no longer the pH values of the requested grid.

Clause: "The pH values at which profiles are computed and printed are exactly
those of the requested grid and window, including both end points."
(and: "The reported optimum is the minimum of the computed profile and the
reported ranges are consistent with it.")

propka/output.py prints the pH of a profile row with '{:6.2f}' and the pH of
the optimum / of the range end points with '{:4.1f}', whatever -g/-w ask for.
  -g 0 14 0.25  : ranges "3.5 to 6.2" and "0.0 - 9.2"; 6.25 and 9.25 are meant,
                  6.2 and 9.2 are not grid points (and 0.25 steps are rounded
                  half-to-even: 6.25 -> 6.2 but 3.75 -> 3.8)
  -g 3 5 0.125  : rows 3.12, 3.25, 3.38, 3.50, 3.62, ... (3.125, 3.375, 3.625)
  -g 4 4.1 0.005: every label appears twice (4.00 4.00 4.01 4.01 ... or similar)
                  with different dG / charges.
(The earlier repair 4a7e775 made the window FILTER work for steps like 0.125 and
0.025; the labels that are printed for those rows were left at two decimals.)

Every pH that appears in the file must be one of min + i*step of the requested
grid (|difference| < 1e-9), and the labels of a table must be distinct.
Exit 1 otherwise.
"""
import logging
import os
import re
import sys
import tempfile

import propka.run as run

logging.disable(logging.CRITICAL)

PDB = '/repo/tests/pdb/1HPX.pdb'
workdir = tempfile.mkdtemp(prefix='hunt3_C10_')
os.chdir(workdir)


def on_grid(value, grid):
    g_min, g_max, step = grid
    k = round((value - g_min) / step)
    return abs(g_min + k * step - value) < 1e-9 and g_min - 1e-9 <= value <= g_max + 1e-9


bad = 0
for optargs in (['-g', '0', '14', '0.1', '-w', '0', '14', '1'],      # control
                ['-g', '0', '14', '0.25', '-w', '3', '6', '0.25'],
                ['-g', '3', '5', '0.125', '-w', '3', '5', '0.125'],
                ['-g', '4', '4.1', '0.005', '-w', '4', '4.1', '0.005']):
    mol = run.single(PDB, optargs=optargs, write_pka=True)
    grid = tuple(mol.options.grid)
    text = open('1HPX.pka').read()
    fold = text[text.index('Free energy of'):text.index('Protein charge of')]
    chrg = text[text.index('Protein charge of'):]
    print('----', ' '.join(optargs))
    problems = []

    fold_rows = re.findall(r'^\s*(-?\d+\.\d+)\s+(-?\d+\.\d+)\s*$', fold, re.M)
    chrg_rows = re.findall(r'^\s*(-?\d+\.\d+)\s+(-?\d+\.\d+)\s+(-?\d+\.\d+)\s*$',
                           chrg, re.M)
    for name, rows in (('folding profile', fold_rows),
                       ('charge profile', chrg_rows)):
        labels = [r[0] for r in rows]
        off = [lab for lab in labels if not on_grid(float(lab), grid)]
        if off:
            problems.append('%s: %d of %d printed pH labels are not grid points,'
                            ' e.g. %s' % (name, len(off), len(labels), off[:6]))
        dup = sorted({lab for lab in labels if labels.count(lab) > 1})
        if dup:
            problems.append('%s: %d pH labels are printed more than once (with '
                            'different values), e.g. %s'
                            % (name, len(dup),
                               [r for r in rows if r[0] == dup[0]]))
    # the charge profile must show the whole grid
    n_grid = int((grid[1] - grid[0]) / grid[2] + 1e-9) + 1
    if len(chrg_rows) != n_grid:
        problems.append('charge profile has %d rows, grid has %d points'
                        % (len(chrg_rows), n_grid))

    profile, opt, r80, stab = mol.get_folding_profile(
        conformation='AVR', reference='neutral', grid=grid)
    for what, pattern, computed in (
            ('pH of optimum', r'optimum stability is\s*(-?[\d.]+)', [opt[0]]),
            ('80 % range', r'80 % of maximum at pH\s*(-?[\d.]+) to\s*(-?[\d.]+)',
             r80),
            ('negative range', r'negative in the range\s*(-?[\d.]+) -\s*(-?[\d.]+)',
             stab)):
        m = re.search(pattern, fold)
        if not m:
            continue
        for printed, value in zip(m.groups(), computed):
            if not on_grid(float(printed), grid):
                problems.append('%s: printed %s, computed grid point %.4f - the '
                                'printed pH is not on the requested grid'
                                % (what, printed, value))
    if problems:
        bad += 1
        for p in problems:
            print('VIOLATION:', p)
    else:
        print('ok: every printed pH is a point of the requested grid')
    print()

if bad:
    print('%d option sets print pH values that are not those of the grid' % bad)
    sys.exit(1)
print('all printed pH values are grid points')
sys.exit(0)
