"""C14 hunt 2: a residue left out of --titrate_only can stop being a
hydrogen-bond partner altogether.

determinants.set_determinants() still sends pairs with interaction type 'I'
to the iterative scheme when one member has been made un-titratable by
--titrate_only.  There the unlisted group competes with a 'pKa' that lacks
desolvation and backbone terms (these are only computed for titratable
groups), and add_iterative_ion_pair() silently drops the hydrogen bond when
that bogus pKa(base) <= pKa(acid).

Correct behaviour ("every other residue still acts as hydrogen-bond
partner"): every partner that gives the listed group a side-chain H-bond
determinant without the option must still give one when that partner is
merely unlisted (a fixed partner never loses its H-bond).
Exit 1 = violation reproduced, 0 = behaves correctly.
"""
import logging
import sys
import propka.run as run

PDB = "/repo/tests/pdb/4DFR.pdb"
logging.disable(logging.CRITICAL)


def calc(opts=()):
    return run.single(PDB, optargs=list(opts) + ["-q"], write_pka=False)


def hbonds(mol, label):
    g = [g for g in mol.conformations["AVR"].groups
         if g.label == label and 'BB' not in g.type][0]
    return {d.label: round(d.value, 3) for d in g.determinants["sidechain"]}, \
        g.pka_value


ref = calc()
bad = 0
for chain in "AB":
    label = "ASP  27 %s" % chain
    only = calc(["-i", "%s:27" % chain])
    hb_ref, pka_ref = hbonds(ref, label)
    hb_only, pka_only = hbonds(only, label)
    lost = sorted(set(hb_ref) - set(hb_only))
    print("%s  side-chain H-bond partners: no option %s | -i %s:27 %s"
          % (label, hb_ref, chain, hb_only))
    print("           pKa: no option %.2f | -i %s:27 %.2f"
          % (pka_ref, chain, pka_only))
    if lost:
        print("  -> VIOLATION: unlisted residue(s) %s no longer act as "
              "hydrogen-bond partner of %s" % (lost, label))
        bad += 1
sys.exit(1 if bad else 0)
