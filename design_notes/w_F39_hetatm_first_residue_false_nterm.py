"""C01 counterexample 3: a chain whose first residue is written as HETATM.

Selenomethionine (MSE) is deposited as HETATM and is the first residue of a
large number of PDB entries.  Here the chain starts MSE 134 - ALA 135 - ...
PROPKA reports an "N+ 135 E" group (model pKa 8.00): the backbone amide
nitrogen of the SECOND residue, which is peptide-bonded to C of MSE 134 (the
bond is in PROPKA's own bond table), is presented as the chain's free amino
terminus.  No such ionizable group exists in the structure, and ALA 135 is not
a chain start (not first residue of the model, not after TER, not after OXT).
"""
import io
import logging
import sys

import propka.run
from propka.output import get_summary_section

logging.disable(logging.CRITICAL)

SRC = '/repo/tests/pdb/3SGB-subset.pdb'
frag = [l.rstrip('\n') for l in open(SRC)
        if l[:6] == 'ATOM  ' and l[21] == 'E' and l[26] == ' '
        and 134 <= int(l[22:26]) <= 170]
assert frag[0][17:20] == 'MET' and frag[0][22:26] == ' 134'


def to_mse(line):
    """MET 134 -> MSE 134 as deposited in the PDB: HETATM, SD -> SE."""
    if int(line[22:26]) != 134:
        return line
    line = 'HETATM' + line[6:17] + 'MSE' + line[20:]
    if line[12:16] == ' SD ':
        line = line[:12] + 'SE  ' + line[16:76] + 'SE' + line[78:]
    return line


def run(lines):
    text = '\n'.join(lines + ['TER', 'END']) + '\n'
    mol = propka.run.single('x.pdb', stream=io.StringIO(text), write_pka=False)
    conf = mol.conformations['1A']
    nplus = [g for g in conf.groups if g.residue_type == 'N+']
    summary = get_summary_section(mol, 'AVR', mol.version.parameters)
    n_lines = [l.rstrip() for l in summary.splitlines() if l[3:6] == 'N+ ']
    return mol, nplus, n_lines


bad = False
for name, lines in (('MET 134 (ATOM)  ', frag),
                    ('MSE 134 (HETATM)', [to_mse(l) for l in frag])):
    mol, nplus, n_lines = run(lines)
    print(name, 'N+ groups:', [(g.label, g.model_pka) for g in nplus])
    for line in n_lines:
        print('    summary:', line)
    for g in nplus:
        partners = [(b.name, b.res_name.strip(), b.res_num)
                    for b in g.atom.bonded_atoms
                    if b.element != 'H' and b.res_num != g.atom.res_num]
        if partners or g.atom.res_num != 134:
            bad = True
            print('    WRONG: %s sits on the N of %s %d, which is bonded to %s '
                  'of the preceding residue' % (
                      g.label, g.atom.res_name, g.atom.res_num, partners))
    first = [(g.label, g.type, g.model_pka)
             for g in mol.conformations['1A'].groups
             if g.atom.res_num == 134 and g.atom.name == 'N']
    print('    group on the N of residue 134:', first)

if bad:
    print('VIOLATION: an N+ group is reported for a residue that is not a '
          'chain start')
    sys.exit(1)
print('OK')
sys.exit(0)
