import io, logging, collections
import propka.run as run
logging.disable(logging.CRITICAL)
src=open('/repo/tests/pdb/1FTJ-Chain-A.pdb').read().splitlines()
atoms=[l for l in src if l.startswith(('ATOM  ','HETATM'))]
def xform(lines,f):
    out=[]
    for l in lines:
        x,y,z=float(l[30:38]),float(l[38:46]),float(l[46:54])
        x,y,z=f(x,y,z)
        out.append(l[:30]+"%8.3f%8.3f%8.3f"%(x,y,z)+l[54:])
    return out
def runit(lines,opts=()):
    m=run.single('x.pdb',optargs=list(opts),stream=io.StringIO("\n".join(lines+['END'])+"\n"),write_pka=False)
    return [(g.label,round(g.pka_value,3)) for g in m.conformations['AVR'].groups]
rots={'rz90':lambda x,y,z:(-y,x,z),'rx90':lambda x,y,z:(x,-z,y),'ry180':lambda x,y,z:(-x,y,-z),'trans':lambda x,y,z:(x+37.123,y-80.5,z+3.001)}
for name,lines in (('full',atoms),('gap',[l for l in atoms if int(l[22:26]) not in (60,61)])):
    b=runit(lines)
    for rn,f in rots.items():
        r=runit(xform(lines,f))
        d=[(x[0],x[1],y[1]) for x,y in zip(b,r) if abs(x[1]-y[1])>0.004]
        print(name,rn,len(d),d[:5])
