#!/usr/bin/env python
"""C16 hunt 1: with the documented parameter `shared_determinants 1` the
determinants of a covalently coupled acid/base pair are copied from one group
to the other with unchanged sign (ConformationContainer.share_determinants).

Input: protein 1FTJ chain A plus ONE ligand (amidino-acetate,
H2N-C(=NH)-CH2-COO-).  Its carboxylate carbon (group OCO, acid) and its
amidinium carbon (group C2N, base) are two bonds apart and both have the SYBYL
type C.2, so find_covalently_coupled_groups() couples them.  The carboxylate
accepts hydrogen bonds from backbone N-H groups (negative determinants, fine
for an acid).  With shared_determinants=1 these backbone determinants are
copied, sign unchanged, onto the amidinium group, which is the member of the
pair that is reported: a backbone hydrogen bond LOWERS A BASE'S pKa.

exit 1: a reported titratable group has a backbone determinant of the wrong
        sign (acid > 0 or base < 0)
exit 0: otherwise
"""
import contextlib
import io
import logging
import os
import sys
import tempfile
from pathlib import Path

import propka
import propka.run

logging.disable(logging.CRITICAL)

HERE = Path(propka.__file__).parent
PDB = HERE.parent / "tests" / "pdb" / "1FTJ-Chain-A.pdb"

LIGAND = """\
HETATM 9001  C2  AAC L 901      88.694  14.186  39.492  1.00  0.00           C
HETATM 9002  C3  AAC L 901      89.055  15.510  38.858  1.00  0.00           C
HETATM 9003  O1  AAC L 901      89.540  16.479  39.481  1.00  0.00           O
HETATM 9004  O2  AAC L 901      88.830  15.564  37.645  1.00  0.00           O
HETATM 9005  C1  AAC L 901      88.992  14.180  40.974  1.00  0.00           C
HETATM 9006  N1  AAC L 901      89.508  15.212  41.637  1.00  0.00           N
HETATM 9007  N2  AAC L 901      88.704  13.049  41.613  1.00  0.00           N
"""


def structure():
    lines = [l for l in PDB.read_text().splitlines(True)
             if l.startswith(("ATOM  ", "TER"))]
    return "".join(lines) + LIGAND + "END\n"


def run(text, cfg):
    with contextlib.redirect_stdout(io.StringIO()):
        return propka.run.single(
            "hunt1.pdb", optargs=["-p", str(cfg)],
            stream=io.StringIO(text), write_pka=False)


def wrong_backbone_signs(mol):
    bad = []
    for name, conf in mol.conformations.items():
        for g in conf.get_groups_for_calculations():
            if not g.titratable or g.coupled_titrating_group:
                continue    # not reported
            for det in g.determinants["backbone"]:
                # acid (q<0): value must be <= 0 ; base (q>0): value >= 0
                if det.value * g.charge < -1e-12:
                    bad.append((name, g.label, g.type, g.charge,
                                det.label, round(det.value, 3)))
    return bad


def main():
    text = structure()
    default_cfg = HERE / "propka.cfg"
    tmpdir = tempfile.mkdtemp()
    shared_cfg = Path(tmpdir) / "shared.cfg"
    out = []
    seen = False
    for line in default_cfg.read_text().splitlines(True):
        if line.split()[:1] == ["shared_determinants"]:
            line = "shared_determinants              1\n"
            seen = True
        out.append(line)
    assert seen
    shared_cfg.write_text("".join(out))

    mol0 = run(text, default_cfg)
    bad0 = wrong_backbone_signs(mol0)
    print("default parameter file        : wrong-sign backbone determinants:",
          bad0)
    mol1 = run(text, shared_cfg)
    conf = mol1.conformations["1A"]
    for g in conf.groups:
        if g.atom.type == "hetatm" and g.titratable:
            print("  ligand group %-10s type %-3s q=%+d pKa %6.2f reported=%s"
                  % (g.label, g.type, g.charge, g.pka_value,
                     not g.coupled_titrating_group),
                  " backbone:", [(d.label, round(d.value, 2))
                                 for d in g.determinants["backbone"]])
    bad1 = wrong_backbone_signs(mol1)
    print("shared_determinants 1         : wrong-sign backbone determinants:")
    for b in bad1:
        print("   conformation %s group %s (%s, q=%+d): backbone determinant "
              "from %s = %+.3f" % b)
    os.remove(shared_cfg)
    os.rmdir(tmpdir)
    if bad0 or bad1:
        print("VIOLATION: a backbone hydrogen bond lowers a base's pKa "
              "(or raises an acid's)")
        return 1
    print("ok")
    return 0


if __name__ == "__main__":
    sys.exit(main())
