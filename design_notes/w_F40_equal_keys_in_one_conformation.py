"""C01 counterexample 1: two chains that share chain ID and residue numbering.

A homodimer whose two chains carry the same (here: blank) chain identifier and
the same residue numbers -- separated by a TER record, as written by many
modelling / MD tools -- loses every ionizable group of the second chain from the
averaged results ('AVR' conformation), from the determinant table and from the
summary, although both copies are present in the structure and are computed in
conformation 1A.
"""
import collections
import io
import logging
import sys

import propka.run
from propka.output import get_summary_section, get_determinant_section

logging.disable(logging.CRITICAL)

SRC = '/repo/tests/pdb/1HPX.pdb'   # HIV protease, chains A and B, both 1-99

lines = []
for line in open(SRC):
    if line[:6] in ('ATOM  ', 'TER   '):
        lines.append(line[:21] + ' ' + line[22:])      # blank the chain ID
text = ''.join(lines) + 'END\n'

# independent expectation: one site per defining atom / chain start / OXT
DEF = {'ASP': 'CG', 'GLU': 'CD', 'HIS': 'CG', 'CYS': 'SG', 'TYR': 'OH',
       'LYS': 'NZ', 'ARG': 'CZ'}
expected = collections.Counter()
start = True
prev = None
for line in lines:
    if line[:6] == 'TER   ':
        start = True
        continue
    name, resn, num = line[12:16].strip(), line[17:20], int(line[22:26])
    if (resn, num) != prev:
        first, start, prev = start, False, (resn, num)
    if name == 'N' and first:
        expected['N+ %4d _' % num] += 1
    if name == 'OXT':
        expected['C- %4d _' % num] += 1
    if DEF.get(resn) == name:
        expected['%s%4d _' % (resn, num)] += 1

mol = propka.run.single('dimer.pdb', stream=io.StringIO(text), write_pka=False)
params = mol.version.parameters

in_1a = collections.Counter(
    g.label for g in mol.conformations['1A'].get_groups_for_calculations())
in_avr = collections.Counter(g.label for g in mol.conformations['AVR'].groups)
summary = get_summary_section(mol, 'AVR', params)
in_summary = collections.Counter(
    l[3:12] for l in summary.splitlines()[3:] if l.strip())
table = get_determinant_section(mol, 'AVR', params)
in_table = collections.Counter(
    l[:9] for l in table.splitlines() if l[9:10] == ' ' and l[10:16].strip()
    and l[:9] in expected)

print('sites in the structure        :', sum(expected.values()))
print('groups in conformation 1A     :', sum(in_1a.values()))
print('groups in averaged result AVR :', sum(in_avr.values()))
print('lines in determinant table    :', sum(in_table.values()))
print('lines in summary              :', sum(in_summary.values()))

bad = False
for where, got in (('1A', in_1a), ('AVR', in_avr), ('table', in_table),
                   ('summary', in_summary)):
    wrong = {k: (expected[k], got[k]) for k in set(expected) | set(got)
             if expected[k] != got[k]}
    if wrong:
        bad = True
        some = sorted(wrong.items())[:6]
        print('%-8s %d labels with wrong multiplicity (expected, got), e.g. %s'
              % (where, len(wrong), some))
if bad:
    print('VIOLATION: groups of the second chain are missing from the results')
    sys.exit(1)
print('OK: every site reported exactly once')
sys.exit(0)
