"""C08 hunt 1: a conformation is NOT completed with the atoms it lacks when an
earlier conformation carries a different residue type at that position.

Three MODELs of the tripeptide GLY1-X2-GLY3 (chain A):
    ASN : X = ASN, complete                         (point mutant)
    ASPp: X = ASP, atoms CB and OD1 missing         (model with missing atoms)
    ASPf: X = ASP, complete
ASPp must be completed with CB and OD1 from ASPf (same residue type), whatever
the position of the ASN model in the file.  On the unchanged code this only
works when the ASN model is not the first one that carries those atom names.

exit 1 = violation reproduced, exit 0 = behaviour correct.
"""
import io
import logging
import sys

from propka.input import read_parameter_file, read_molecule_file
from propka.lib import loadOptions
from propka.molecular_container import MolecularContainer
from propka.parameters import Parameters
from propka.output import get_summary_section

logging.disable(logging.CRITICAL)

GLY1 = (
    "ATOM      1  N   GLY A   1       2.037  -0.982   0.836  1.00  0.00           N  \n"
    "ATOM      2  CA  GLY A   1       3.462  -0.865   0.540  1.00  0.00           C  \n"
    "ATOM      3  C   GLY A   1       4.291  -1.573   1.584  1.00  0.00           C  \n"
    "ATOM      4  O   GLY A   1       3.777  -2.158   2.541  1.00  0.00           O  \n")
GLY3 = (
    "ATOM     18  N   GLY A   3       8.703  -2.681   2.974  1.00  0.00           N  \n"
    "ATOM     19  CA  GLY A   3      10.128  -2.564   2.677  1.00  0.00           C  \n"
    "ATOM     20  C   GLY A   3      10.957  -3.272   3.721  1.00  0.00           C  \n"
    "ATOM     21  O   GLY A   3      10.444  -3.857   4.678  1.00  0.00           O  \n"
    "TER   \n")
XYZ = {'N': (5.577, -1.568, 1.470), 'CA': (6.380, -2.234, 2.491),
       'C': (7.853, -2.130, 2.173), 'O': (8.265, -1.521, 1.190),
       'CB': (5.939, -3.746, 2.618), 'CG': (5.960, -4.584, 1.310),
       'OD1': (7.051, -4.921, 0.784), 'OD2': (4.885, -4.921, 0.784),
       'ND2': (4.885, -4.921, 0.784)}


def res2(res_name, names):
    out = ''
    for i, name in enumerate(names):
        x, y, z = XYZ[name]
        out += ('ATOM  {0:5d}  {1:<3s} {2:3s} A   2    {3:8.3f}{4:8.3f}{5:8.3f}'
                '  1.00  0.00           {6:s}  \n').format(
                    5 + i, name, res_name, x, y, z, name[0])
    return out


FULL = ['N', 'CA', 'C', 'O', 'CB', 'CG']
ASN = res2('ASN', FULL + ['OD1', 'ND2'])
ASP_FULL = res2('ASP', FULL + ['OD1', 'OD2'])
ASP_PART = res2('ASP', ['N', 'CA', 'C', 'O', 'CG', 'OD2'])   # no CB, no OD1
ASP_NAMES = sorted(FULL + ['OD1', 'OD2'])


def build(residues):
    txt = ''
    for i, res in enumerate(residues, 1):
        txt += 'MODEL     {0:4d}\n'.format(i) + GLY1 + res + GLY3 + 'ENDMDL\n'
    return txt + 'END\n'


def run(text):
    args = loadOptions(['x.pdb'])
    parameters = read_parameter_file(args.parameters, Parameters())
    mol = MolecularContainer(parameters, args)
    mol = read_molecule_file('x.pdb', mol, stream=io.StringIO(text))
    mol.calculate_pka()
    return mol


def heavy_names(conf, res_num):
    return sorted(a.name for a in conf.atoms
                  if a.res_num == res_num and a.element != 'H')


def res_name(conf, res_num):
    return {a.res_name for a in conf.atoms if a.res_num == res_num}


bad = False
summaries = {}
for label, order in [('ASN, ASPpartial, ASPfull', [ASN, ASP_PART, ASP_FULL]),
                     ('ASPpartial, ASPfull, ASN', [ASP_PART, ASP_FULL, ASN])]:
    mol = run(build(order))
    print('model order:', label)
    for name in mol.conformation_names:
        conf = mol.conformations[name]
        names = heavy_names(conf, 2)
        rn = res_name(conf, 2)
        flag = ''
        if rn == {'ASP'} and names != ASP_NAMES:
            flag = '   <-- ASP 2 not completed, lacks {0}'.format(
                sorted(set(ASP_NAMES) - set(names)))
            bad = True
        if len(rn) != 1:
            flag = '   <-- residue types merged'
            bad = True
        print('   {0:s}: residue 2 = {1} {2}{3}'.format(
            name, sorted(rn), names, flag))
    summary = get_summary_section(mol, 'AVR', mol.version.parameters)
    summaries[label] = summary
    print(summary)

keys = list(summaries)
if summaries[keys[0]] != summaries[keys[1]]:
    print('reported conformation averages depend on the position of the ASN '
          'model in the file')
    bad = True

if bad:
    print('VIOLATION: a conformation was not completed with atoms that '
          'another conformation of the same residue type provides')
    sys.exit(1)
print('ok')
sys.exit(0)
