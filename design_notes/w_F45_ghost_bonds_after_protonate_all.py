"""C11 hunt 1: -k/--keep-protons together with --protonate-all leaves bonds to
atoms that are no longer part of the atom set (ghost hydrogens).

Protonate.protonate() starts with remove_all_hydrogen_atoms(), which drops the
hydrogens from ConformationContainer.atoms only.  The heavy atoms keep them in
bonded_atoms, so the bond graph is no longer the pairwise distance rule applied
to the atoms of the conformation: it contains bonds to objects outside the set,
the removed hydrogens keep acting as the protons of their groups and no
hydrogen is rebuilt on the atoms concerned.

exit 1 = violation shown, exit 0 = behaviour correct.
"""
import itertools
import logging
import sys
import tempfile
from pathlib import Path

from propka.bonds import BondMaker
from propka.input import read_molecule_file, read_parameter_file
from propka.lib import loadOptions
from propka.molecular_container import MolecularContainer
from propka.parameters import Parameters

logging.disable(logging.CRITICAL)
SRC = Path('/repo/tests/pdb/1HPX.pdb')


def load(path, opts):
    options = loadOptions(opts + [str(path)])
    parameters = read_parameter_file(options.parameters, Parameters())
    mol = MolecularContainer(parameters, options)
    read_molecule_file(str(path), mol)
    return mol


def pkas(mol):
    mol.calculate_pka()
    return {g.label: round(g.pka_value, 2)
            for g in mol.conformations['AVR'].groups}


# 1. where does propka itself put the amide hydrogen of GLY A 27?
mol = load(SRC, [])
conf = mol.conformations['1A']
n27 = [a for a in conf.atoms if a.chain_id == 'A' and a.res_num == 27
       and a.name == 'N'][0]
h27 = [b for b in n27.bonded_atoms if b.element == 'H'][0]
# 2. a copy of the file with an explicit amide hydrogen on that nitrogen that
#    sticks out of the peptide plane (1.01 A from N, perpendicular to N-H
#    and N-CA), i.e. somewhere else than the hydrogen propka builds
ca27 = [b for b in n27.bonded_atoms if b.name == 'CA'][0]
u = (h27.x - n27.x, h27.y - n27.y, h27.z - n27.z)
v = (ca27.x - n27.x, ca27.y - n27.y, ca27.z - n27.z)
w = (u[1]*v[2] - u[2]*v[1], u[2]*v[0] - u[0]*v[2], u[0]*v[1] - u[1]*v[0])
wl = sum(c*c for c in w) ** 0.5
hx, hy, hz = (n27.x + 1.01*w[0]/wl, n27.y + 1.01*w[1]/wl,
              n27.z + 1.01*w[2]/wl)
lines = SRC.read_text().splitlines(keepends=True)
out = []
for line in lines:
    out.append(line)
    if line.startswith('ATOM') and line[12:16] == ' N  ' \
            and line[17:26] == 'GLY A  27':
        out.append('ATOM   9999  H   GLY A  27    %8.3f%8.3f%8.3f  1.00  0.00'
                   '           H  \n' % (hx, hy, hz))
tmp = Path(tempfile.mkdtemp()) / 'with_h.pdb'
tmp.write_text(''.join(out))

bad = False
# ---- clause: bonds = pairwise rule applied to the atoms of the set ----------
mol_kp = load(tmp, ['-k', '--protonate-all'])
conf = mol_kp.conformations['1A']
ids = {id(a) for a in conf.atoms}
ghost = [(str(a), str(b)) for a in conf.atoms for b in a.bonded_atoms
         if id(b) not in ids]
print('-k --protonate-all: bonds to atoms outside the conformation:',
      len(ghost))
for pair in ghost[:3]:
    print('   ', pair[0], ' -- ', pair[1])
if ghost:
    bad = True
# the hydrogens that were present when the bonds were made are gone, new ones
# were added afterwards: every bond must still be a bond of the rule between
# two members and every member pair the rule accepts must be bonded, at least
# for the heavy atoms (built hydrogens are only attached to their parent)
bm = BondMaker()
heavy = [a for a in conf.atoms if a.element != 'H']
n27 = [a for a in heavy if a.chain_id == 'A' and a.res_num == 27
       and a.name == 'N'][0]
print('GLY A 27 N is bonded to:',
      [(b.name, 'member' if id(b) in ids else 'NOT IN ATOM SET')
       for b in n27.bonded_atoms])

# ---- consequence: results --------------------------------------------------
p_only = pkas(load(tmp, ['--protonate-all']))
k_only = pkas(load(tmp, ['-k']))
kp = pkas(mol_kp)
lab = 'ASP  25 A'
print('pKa of %s:  --protonate-all %.2f   -k %.2f   -k --protonate-all %.2f'
      % (lab, p_only[lab], k_only[lab], kp[lab]))
diff = {l: (kp[l], p_only[l]) for l in kp if kp[l] != p_only.get(l)}
print('groups whose pKa differs between "-k --protonate-all" and '
      '"--protonate-all" (all input hydrogens are said to be removed and '
      'rebuilt, so there should be none):', diff)
if diff:
    bad = True
sys.exit(1 if bad else 0)
