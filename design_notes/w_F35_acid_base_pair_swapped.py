"""C16 hunt 1: with -d (--display-coupled-residues) an acid-base pair that is
flagged as 'non-covalently coupled' gets its mutual determinants swapped, so the
acid ends up with a POSITIVE Coulomb (and H-bond) determinant from an oppositely
charged base and the base with a NEGATIVE one from the acid.

Exit 1 if such a wrong-signed Coulomb determinant is found, 0 otherwise.
"""
import io
import logging
import sys

import propka.run as run

logging.disable(logging.CRITICAL)
PDB = '/repo/tests/pdb/3SGB.pdb'


def e10q_e19q(text):
    """3SGB inhibitor chain I with GLU 10 and GLU 19 mutated to GLN."""
    out = []
    for line in text.splitlines(True):
        if (line[:6] == 'ATOM  ' and line[17:20] == 'GLU' and line[21] == 'I'
                and int(line[22:26]) in (10, 19)):
            line = line[:17] + 'GLN' + line[20:]
            if line[12:16] == ' OE2':
                line = line[:12] + ' NE2' + line[16:76] + ' N' + line[78:]
        out.append(line)
    return ''.join(out)


def wrong_signed(mol):
    """Coulomb determinants whose sign contradicts the charge of the group they
    are attributed to (source positive -> must not raise; negative -> must not
    lower)."""
    bad = []
    for name in mol.conformation_names:
        conf = mol.conformations[name]
        by_label = {}
        for g in conf.groups:
            if g.titratable or g.type == 'ION':
                by_label.setdefault(g.label, []).append(g)
        for g in conf.groups:
            if not g.titratable:
                continue
            for det in g.determinants['coulomb']:
                for src in by_label.get(det.label, []):
                    if src.charge * det.value > 1e-9:
                        kind = 'acid' if g.charge < 0 else 'base'
                        bad.append(
                            f"conformation {name}: {kind} {g.label} "
                            f"(q={g.charge:+.0f}, pKa {g.pka_value:.2f}, model "
                            f"{g.model_pka:.2f}) has Coulomb determinant "
                            f"{det.value:+.2f} from {src.label} "
                            f"(q={src.charge:+.0f})")
    return bad


def run_case(title, text, opts):
    mol = run.single('3SGB.pdb', optargs=['-q'] + opts,
                     stream=io.StringIO(text), write_pka=False)
    bad = wrong_signed(mol)
    print(f"--- {title}: options {opts}: {len(bad)} wrong-signed Coulomb "
          "determinant(s)")
    for b in bad:
        print("   ", b)
    return bad


def main():
    text = open(PDB).read()
    total = []
    # control: same inputs without -d are clean
    assert not run_case("control A", text, ['-i', 'I:11,I:13,I:34'])
    assert not run_case("control B", e10q_e19q(text), [])
    # witness A: unchanged 3SGB, -d plus --titrate_only
    total += run_case("witness A (3SGB unchanged)", text,
                      ['-d', '-i', 'I:11,I:13,I:34'])
    # witness B: 3SGB E10Q/E19Q (chain I), only -d
    total += run_case("witness B (3SGB I:E10Q/E19Q)", e10q_e19q(text), ['-d'])
    if total:
        print("C16 VIOLATED: Coulomb determinant from an oppositely charged "
              "group shifts the pKa in the destabilising direction")
        return 1
    print("no wrong-signed Coulomb determinant")
    return 0


if __name__ == '__main__':
    sys.exit(main())
