#!/usr/bin/env python
"""C04 counterexample 3: pKa values / determinants of a plain ARG...GLU pair
(standard residues, complete side chains, no hetero atoms) change under a pure
translation - by 0.08 when propka builds the hydrogens (>> the 0.001 A rounding
effect, which is ~0.001 pKa units) and by 0.10 in --keep-protons mode, where
the statement demands *no* change.

Geometry: the carboxylate of GLU B 13 accepts a bifurcated hydrogen bond from
NE-HE of ARG A 182 (N...O 2.69 and 2.71 A, O...HE 1.82/1.83 A).  In
energy.check_coo_arg_exception() the "runner-up" contact is then OE2...NE (the
hydrogen HE was removed together with the closest pair), i.e. a HEAVY atom,
and the angle factor is computed against `closest_arg_atom.bonded_atoms[0]`.
For NE that is CD, CZ or (with --keep-protons) HE, depending on the order in
which BondMaker.find_bonds_for_atoms_using_boxes() happened to visit its
2.51 A boxes, i.e. on floor(x/2.51) of the atoms = on the position in space.

Exit status 1 = violation shown, 0 = behaviour correct.
"""
import contextlib
import io
import itertools
import logging
import sys
from decimal import Decimal

logging.disable(logging.CRITICAL)
import propka.run  # noqa: E402

# GLY181-ARG182 and LEU12(->GLY)-GLU13 taken from tests/pdb/1FTJ-Chain-A.pdb;
# the second fragment was moved as a rigid body next to NE of the arginine.
HEAVY = """\
ATOM      1  N   GLY A 181      86.317  26.936  28.461  1.00  0.00           N
ATOM      2  CA  GLY A 181      85.409  26.626  27.347  1.00  0.00           C
ATOM      3  C   GLY A 181      85.811  27.500  26.139  1.00  0.00           C
ATOM      4  O   GLY A 181      86.102  26.999  25.057  1.00  0.00           O
ATOM      5  N   ARG A 182      85.913  28.802  26.367  1.00  0.00           N
ATOM      6  CA  ARG A 182      86.254  29.754  25.310  1.00  0.00           C
ATOM      7  C   ARG A 182      87.603  29.548  24.655  1.00  0.00           C
ATOM      8  O   ARG A 182      87.751  29.791  23.460  1.00  0.00           O
ATOM      9  CB  ARG A 182      86.142  31.192  25.826  1.00  0.00           C
ATOM     10  CG  ARG A 182      84.729  31.590  26.145  1.00  0.00           C
ATOM     11  CD  ARG A 182      84.640  32.959  26.821  1.00  0.00           C
ATOM     12  NE  ARG A 182      83.293  33.531  26.685  1.00  0.00           N
ATOM     13  CZ  ARG A 182      82.781  34.472  27.473  1.00  0.00           C
ATOM     14  NH1 ARG A 182      83.487  34.954  28.471  1.00  0.00           N
ATOM     15  NH2 ARG A 182      81.582  34.978  27.220  1.00  0.00           N
TER
ATOM     16  N   GLY B  12      80.787  25.892  24.583  1.00  0.00           N
ATOM     17  CA  GLY B  12      79.710  26.396  25.435  1.00  0.00           C
ATOM     18  C   GLY B  12      79.945  27.882  25.593  1.00  0.00           C
ATOM     19  O   GLY B  12      80.705  28.307  26.459  1.00  0.00           O
ATOM     20  N   GLU B  13      79.312  28.655  24.720  1.00  0.00           N
ATOM     21  CA  GLU B  13      79.444  30.109  24.677  1.00  0.00           C
ATOM     22  C   GLU B  13      78.049  30.594  24.393  1.00  0.00           C
ATOM     23  O   GLU B  13      77.543  30.318  23.323  1.00  0.00           O
ATOM     24  CB  GLU B  13      80.366  30.476  23.501  1.00  0.00           C
ATOM     25  CG  GLU B  13      80.659  31.931  23.309  1.00  0.00           C
ATOM     26  CD  GLU B  13      81.531  32.475  24.414  1.00  0.00           C
ATOM     27  OE1 GLU B  13      80.982  32.882  25.461  1.00  0.00           O
ATOM     28  OE2 GLU B  13      82.764  32.479  24.249  1.00  0.00           O
TER
END
"""

# the same structure with the hydrogens propka itself builds (untranslated
# frame) written out, for --keep-protons
WITH_H = """\
ATOM      1  N   GLY A 181      86.317  26.936  28.461  1.00  0.00           N
ATOM      2  C   GLY A 181      85.811  27.500  26.139  1.00  0.00           C
ATOM      3  O   GLY A 181      86.102  26.999  25.057  1.00  0.00           O
ATOM      4  CA  GLY A 181      85.409  26.626  27.347  1.00  0.00           C
ATOM      5  N   ARG A 182      85.913  28.802  26.367  1.00  0.00           N
ATOM      6  C   ARG A 182      87.603  29.548  24.655  1.00  0.00           C
ATOM      7  O   ARG A 182      87.751  29.791  23.460  1.00  0.00           O
ATOM      8  H   ARG A 182      85.750  29.148  27.302  1.00  0.00           H
ATOM      9  CA  ARG A 182      86.254  29.754  25.310  1.00  0.00           C
ATOM     10  CB  ARG A 182      86.142  31.192  25.826  1.00  0.00           C
ATOM     11  CD  ARG A 182      84.640  32.959  26.821  1.00  0.00           C
ATOM     12  NE  ARG A 182      83.293  33.531  26.685  1.00  0.00           N
ATOM     13  HE  ARG A 182      82.712  33.183  25.936  1.00  0.00           H
ATOM     14  CG  ARG A 182      84.729  31.590  26.145  1.00  0.00           C
ATOM     15  NH1 ARG A 182      83.487  34.954  28.471  1.00  0.00           N
ATOM     16  NH2 ARG A 182      81.582  34.978  27.220  1.00  0.00           N
ATOM     17 HH21 ARG A 182      81.042  34.632  26.440  1.00  0.00           H
ATOM     18 HH22 ARG A 182      81.209  35.710  27.808  1.00  0.00           H
ATOM     19 HH11 ARG A 182      84.412  34.592  28.657  1.00  0.00           H
ATOM     20 HH12 ARG A 182      83.105  35.686  29.052  1.00  0.00           H
ATOM     21  CZ  ARG A 182      82.781  34.472  27.473  1.00  0.00           C
TER
ATOM     22  N   GLY B  12      80.787  25.892  24.583  1.00  0.00           N
ATOM     23  C   GLY B  12      79.945  27.882  25.593  1.00  0.00           C
ATOM     24  O   GLY B  12      80.705  28.307  26.459  1.00  0.00           O
ATOM     25  CA  GLY B  12      79.710  26.396  25.435  1.00  0.00           C
ATOM     26  N   GLU B  13      79.312  28.655  24.720  1.00  0.00           N
ATOM     27  C   GLU B  13      78.049  30.594  24.393  1.00  0.00           C
ATOM     28  O   GLU B  13      77.543  30.318  23.323  1.00  0.00           O
ATOM     29  H   GLU B  13      78.704  28.212  24.046  1.00  0.00           H
ATOM     30  CA  GLU B  13      79.444  30.109  24.677  1.00  0.00           C
ATOM     31  CB  GLU B  13      80.366  30.476  23.501  1.00  0.00           C
ATOM     32  CD  GLU B  13      81.531  32.475  24.414  1.00  0.00           C
ATOM     33  OE1 GLU B  13      80.982  32.882  25.461  1.00  0.00           O
ATOM     34  OE2 GLU B  13      82.764  32.479  24.249  1.00  0.00           O
ATOM     35  CG  GLU B  13      80.659  31.931  23.309  1.00  0.00           C
TER
END
"""


def fix_ter(text):
    # propka only recognises 'TER' padded to six characters
    return text.replace('TER\n', 'TER   \n')


def rotations():
    res = []
    for perm in itertools.permutations(range(3)):
        for signs in itertools.product([1, -1], repeat=3):
            m = [[0] * 3 for _ in range(3)]
            for i in range(3):
                m[i][perm[i]] = signs[i]
            det = (m[0][0] * (m[1][1] * m[2][2] - m[1][2] * m[2][1])
                   - m[0][1] * (m[1][0] * m[2][2] - m[1][2] * m[2][0])
                   + m[0][2] * (m[1][0] * m[2][1] - m[1][1] * m[2][0]))
            if det == 1:
                res.append((perm, signs))
    return res


def transform(text, rot=((0, 1, 2), (1, 1, 1)), trans=('0', '0', '0')):
    """exact (decimal) rigid motion of all ATOM records"""
    perm, signs = rot
    out = []
    for line in text.splitlines():
        if line[:6] in ('ATOM  ', 'HETATM'):
            c = [Decimal(line[30:38].strip()), Decimal(line[38:46].strip()),
                 Decimal(line[46:54].strip())]
            n = [signs[i] * c[perm[i]] + Decimal(trans[i]) for i in range(3)]
            s = ''.join('{:8.3f}'.format(v) for v in n)
            assert len(s) == 24
            line = line[:30] + s + line[54:]
        out.append(line)
    return '\n'.join(out) + '\n'


def results(text, optargs):
    with contextlib.redirect_stdout(io.StringIO()):
        mol = propka.run.single('x.pdb', optargs=optargs,
                                stream=io.StringIO(text), write_pka=False)
    conf = mol.conformations['1A']
    res = {}
    for g in conf.groups:
        if g.type in ('ARG', 'COO'):
            res[g.label] = (round(g.pka_value, 4), sorted(
                (d.label, round(d.value, 4))
                for d in g.determinants['sidechain']))
    ne = [a for a in conf.atoms if a.name == 'NE'][0]
    return res, [a.name for a in ne.bonded_atoms]


def check(title, text, optargs, tol):
    print(title)
    ref, order = results(text, optargs)
    print('  reference frame: NE.bonded_atoms=%s' % order)
    for k in ref:
        print('     %s pKa %.4f sidechain %s' % (k, ref[k][0], ref[k][1]))
    motions = [(((0, 1, 2), (1, 1, 1)), t) for t in
               [('0', '1.7', '0'), ('0.9', '0', '0'), ('0', '0', '0.9'),
                ('5', '5', '5'), ('-80', '-30', '-20'), ('0', '4.21', '0')]]
    motions += [(r, ('0', '0', '0')) for r in rotations()[1:]]
    motions += [(r, ('0.7', '1.9', '-1.3')) for r in rotations()[1:]]
    bad = 0
    for rot, trans in motions:
        new, order = results(transform(text, rot, trans), optargs)
        worst = max(abs(new[k][0] - ref[k][0]) for k in ref)
        if worst > tol:
            bad += 1
            print('  VIOLATION rot=%s trans=%s NE.bonded_atoms=%s' %
                  (rot, trans, order))
            for k in ref:
                print('     %s pKa %.4f (reference %.4f) sidechain %s' %
                      (k, new[k][0], ref[k][0], new[k][1]))
    print('  -> %d of %d frames differ by more than %g' %
          (bad, len(motions), tol))
    return bad


def main():
    bad = check('A) hydrogens built by propka (tolerance 0.01 pKa units, ten '
                'times the effect of 0.001 A rounding)',
                fix_ter(HEAVY), (), 0.01)
    bad += check('B) --keep-protons, hydrogens supplied (must be unchanged; '
                 'tolerance 1e-6)', fix_ter(WITH_H), ('-k',), 1e-6)
    if bad:
        sys.exit(1)
    print('all frames agree')
    sys.exit(0)


if __name__ == '__main__':
    main()
