"""C08 hunt 2: a conformation is NOT completed with a hetero residue (ion,
ligand) it lacks when that residue has the same chain identifier and residue
number as a protein residue (usual in files without chain identifiers where
every molecule is numbered on its own).

Input: tests/pdb/1FTJ-Chain-A.pdb (protein chain A, residues 4-261, ZN A 269,
ligand GLU A 274), waters dropped.  The zinc ion is given the residue number 45
(LYS 45 is one of its neighbours).  Two models with identical coordinates;
MODEL 2 does not list the zinc ion ("model with missing atoms").

Expected (statement C08): model 2 is completed with the zinc ion of model 1,
the two models are then identical and the average equals the result of the
one-model file.

exit 1 = violation shown, exit 0 = behaviour correct.
"""
import io
import logging
import sys

logging.disable(logging.CRITICAL)
import propka.run as pr  # noqa: E402

PDB = '/repo/tests/pdb/1FTJ-Chain-A.pdb'


def run(text):
    return pr.single('hunt2.pdb', stream=io.StringIO(text), write_pka=False)


def table(mol, conf):
    return {(g.label, g.atom.res_num, g.type): g for g in
            mol.conformations[conf].groups
            if conf == 'AVR' or g.use_in_calculations()}


full = []
for line in open(PDB):
    if line[:6] not in ('ATOM  ', 'HETATM') or line[17:20] == 'HOH':
        continue
    if line[17:20].strip() == 'ZN':
        line = line[:22] + '%4d' % 45 + line[26:]
    full.append(line)
without_zn = [line for line in full if line[17:20].strip() != 'ZN']

one = run(''.join(full) + 'END\n')
two = run('MODEL        1\n' + ''.join(full) + 'ENDMDL\n'
          'MODEL        2\n' + ''.join(without_zn) + 'ENDMDL\nEND\n')

for name in two.conformation_names:
    conf = two.conformations[name]
    print('conformation', name, ':', len(conf.atoms), 'atoms, zinc present:',
          any(a.res_name.strip() == 'ZN' for a in conf.atoms))

ref = table(one, '1A')
avr = table(two, 'AVR')
bad = []
for key in sorted(set(ref) | set(avr), key=str):
    if key not in ref or key not in avr:
        bad.append((key, None, None))
    elif abs(ref[key].pka_value - avr[key].pka_value) > 0.02:
        bad.append((key, ref[key].pka_value, avr[key].pka_value))
for key, expected, got in bad:
    print('VIOLATION %-10s one-model file %6.2f   two identical models '
          '(zinc listed only in model 1) %6.2f' % (key[0], expected, got))
zn_missing = not all(
    any(a.res_name.strip() == 'ZN' for a in two.conformations[n].atoms)
    for n in two.conformation_names)
if bad or zn_missing:
    print('model 2 was not completed with the zinc ion: %d pKa values differ'
          % len(bad))
    sys.exit(1)
print('model 2 completed with the zinc ion; average equals one-model result')
sys.exit(0)
