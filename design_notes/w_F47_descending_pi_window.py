"""C09 hunt 2: get_pi() with a search window given from high to low pH
returns the mid-point of the window, which is not a root of the charge curve.

Clause: "Each reported pI is a root of the corresponding total-charge curve to
within the stated precision whenever that curve changes sign inside the search
window" -- quantified over "all pH grids and search windows/precisions".

A descending pH triple is a legal grid everywhere else: make_grid(14, 0, -0.1)
and get_charge_profile(grid=(14., 0., -.1)) walk down from 14 to 0 and the
profile shows the sign change.  get_pi(grid=(14., 0.)) however tests
`max_ - min_ > precision` with min_=14, max_=0, finds -14 > 1e-4 false and
returns the start value (14+0)/2 = 7.0 without a single bisection step.

Exit 1 = violation shown, exit 0 = both pI are roots within the precision.
"""
import logging
import sys

import propka.run as run

logging.getLogger().setLevel(logging.ERROR)
PDB = '/repo/tests/pdb/3SGB-subset.pdb'
PRECISION = 1e-4

mol = run.single(PDB, optargs=['-q'], write_pka=False)
conf = mol.conformations['AVR']


def total(ph, which):
    """which: 0 = unfolded, 1 = folded (order of calculate_charge)."""
    return conf.calculate_charge(mol.version.parameters, ph=ph)[which]


# the descending grid is accepted by the profile and shows the sign change
profile = mol.get_charge_profile(grid=(14., 0., -.1))
print('descending profile: {0:d} rows, first pH {1:.1f}, last pH {2:.1f}'.format(
    len(profile), profile[0][0], profile[-1][0]))
for which, name in ((1, 'folded'), (0, 'unfolded')):
    print('  {0:8s} charge at pH 14: {1:+.3f}   at pH 0: {2:+.3f}'.format(
        name, total(14., which), total(0., which)))

asc = mol.get_pi(grid=(0., 14.), precision=PRECISION)
desc = mol.get_pi(grid=(14., 0.), precision=PRECISION)
print('get_pi(grid=(0., 14.))  ->', asc)
print('get_pi(grid=(14., 0.))  ->', desc)

bad = False
for which, name, pi in ((1, 'folded', desc[0]), (0, 'unfolded', desc[1])):
    sign_change = total(0., which) > 0.0 > total(14., which)
    q_below = total(pi - PRECISION, which)
    q_above = total(pi + PRECISION, which)
    is_root = q_below >= 0.0 >= q_above
    print('  {0:8s} pI={1!r}: charge at pI-1e-4 = {2:+.4f}, at pI+1e-4 = '
          '{3:+.4f}, sign change in window: {4}, root: {5}'.format(
              name, pi, q_below, q_above, sign_change, is_root))
    if sign_change and not is_root:
        bad = True
if bad:
    print('VIOLATION: reported pI is not a root of the charge curve although '
          'the curve changes sign inside the window')
    sys.exit(1)
print('ok')
sys.exit(0)
