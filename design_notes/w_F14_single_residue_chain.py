"""C12 hunt 3: when residues are removed until a chain consists of a single
residue, its C-terminus (C-) is no longer reported although OXT remains.

Property clause: "Removing any subset of atoms or whole residues ...: every
ionizable group whose defining atom remains is still reported."

NOTE: same root cause as the already recorded finding about N-terminal
ASP/CYS/HIS side chains (covalent coupling of protein groups because the
sybyl_type of protein atoms is the empty string on both sides), but a
different pair of groups and a different trigger: here the N+ group (atom N)
and the C- group (atom OXT) of the SAME residue are 3 bonds apart
(N-CA-C-OXT), so ConformationContainer.find_covalently_coupled_groups couples
them, coupling_effects() penalises the C- group and, with
remove_penalised_group = 1, Group.get_summary_string / get_determinant_string
return '' for it.  No side chain is involved (PHE).

Input: 1HPX with residues 1..98 of chain A removed (whole residues only);
PHE A 99 keeps all its atoms, including N and OXT.  Chain B is untouched and
still reports both of its termini.

Exit 1 if 'C-   99 A' (or 'N+   99 A') is missing from the summary.
"""
import io
import logging
import sys

logging.disable(logging.CRITICAL)

import propka.run as pr          # noqa: E402
import propka.output as po       # noqa: E402

PDB = '/repo/tests/pdb/1HPX.pdb'


def main():
    lines = open(PDB).read().splitlines(keepends=True)
    kept = [ln for ln in lines
            if not (ln.startswith('ATOM') and ln[21] == 'A'
                    and int(ln[22:26]) < 99)]
    names = [ln[12:16].strip() for ln in kept
             if ln.startswith('ATOM') and ln[21] == 'A']
    assert 'N' in names and 'OXT' in names, names
    mol = pr.single('x.pdb', optargs=['--quiet'],
                    stream=io.StringIO(''.join(kept)), write_pka=False)
    par = mol.version.parameters
    summ = po.get_summary_section(mol, 'AVR', par)
    dets = po.get_determinant_section(mol, 'AVR', par)
    labels = [line[3:12] for line in summ.splitlines()[3:]]
    termini = [lab for lab in labels if lab[:2] in ('N+', 'C-')]
    print('atoms left in chain A:', names)
    print('termini in the summary:', termini)
    internal = [(g.label, round(g.pka_value, 2),
                 [c.label for c in g.covalently_coupled_groups])
                for g in mol.conformations['AVR'].groups
                if g.atom.chain_id == 'A' and g.titratable]
    print('chain A titratable groups (label, pKa, covalently coupled to):',
          internal)
    missing = [lab for lab in ('N+   99 A', 'C-   99 A')
               if lab not in labels or ('\n' + lab) not in dets]
    if missing:
        print('VIOLATION: defining atoms N and OXT of PHE A 99 are present '
              'but these groups are not reported:', missing)
        return 1
    print('OK: both termini of the remaining residue are reported')
    return 0


if __name__ == '__main__':
    sys.exit(main())
