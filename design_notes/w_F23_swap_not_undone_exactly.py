"""C15 hunt 1: the coupling search does not undo its temporary swaps exactly.

The search (NonCovalentlyCoupledGroups.is_coupled_protonation_state_probability)
swaps the mutual determinants of two groups and swaps them back.  The swap is
implemented as "remove from list, append to the end of the other list", so
after swap + swap-back every moved determinant sits at the END of its list.
Group.calculate_total_pka() sums the determinants in list order, so the pKa
that is recomputed after the "undo" is summed in a different order and differs
from the pKa before the search in the last bits; the determinant rows (order of
the entries in the determinant table of the .pka file) are permuted as well.

No option is needed (display of alternative states is NOT requested).

Exit 1 = violation shown, exit 0 = search left everything exactly as it was.
"""
import logging
import sys

import propka.run
from propka.conformation_container import ConformationContainer

logging.disable(logging.CRITICAL)

PDB = '/repo/tests/pdb/1FTJ-Chain-A.pdb'
TYPES = ('sidechain', 'backbone', 'coulomb')


def snapshot(conf):
    """pKa, determinant rows (in list order) and printed row of every group."""
    snap = {}
    for group in conf.groups:
        dets = {
            t: [(d.label, d.value) for d in group.determinants[t]]
            for t in TYPES}
        snap[id(group)] = (group.label, group.pka_value, dets,
                           group.get_determinant_string().replace('*', ' '))
    return snap


problems = []
original = ConformationContainer.find_non_covalently_coupled_groups


def observed(self, verbose=False):
    # pure observer: calls the unchanged method, compares state before/after
    before = snapshot(self)
    original(self, verbose=verbose)
    after = snapshot(self)
    for key, (label, pka_b, dets_b, row_b) in before.items():
        _, pka_a, dets_a, row_a = after[key]
        if pka_b != pka_a:
            problems.append(
                'conformation {0}: pKa of {1} changed by the search: '
                '{2!r} -> {3!r} (diff {4:.3e})'.format(
                    self.name, label, pka_b, pka_a, pka_a - pka_b))
        for type_ in TYPES:
            if dets_b[type_] != dets_a[type_]:
                same_multiset = sorted(dets_b[type_]) == sorted(dets_a[type_])
                problems.append(
                    'conformation {0}: {1} determinants of {2} {3}:\n'
                    '      before {4}\n      after  {5}'.format(
                        self.name, type_, label,
                        'were re-ordered' if same_multiset else 'CHANGED',
                        [x[0] for x in dets_b[type_]],
                        [x[0] for x in dets_a[type_]]))
        if row_b != row_a and not any(label in p for p in problems):
            problems.append('printed row of {0} changed'.format(label))


ConformationContainer.find_non_covalently_coupled_groups = observed
propka.run.single(PDB, optargs=[], write_pka=False)

n_pka = sum('pKa of' in p for p in problems)
n_order = sum('determinants of' in p for p in problems)
for problem in problems:
    print(problem)
print()
print('groups whose pKa was changed by the (non-display) coupling search: '
      '{0:d}'.format(n_pka))
print('determinant lists left in a different state by the search:        '
      '{0:d}'.format(n_order))
if problems:
    print('VIOLATION: temporary swaps are not undone exactly')
    sys.exit(1)
print('OK: search left pKa values and determinants untouched')
sys.exit(0)
