import io, logging, collections
import propka.run as run
logging.disable(logging.CRITICAL)
exec(open('w_F7_icode_base.py').read().split("def rec")[0])
base=run.single('x.pdb',stream=io.StringIO("\n".join(atoms+['END'])+"\n"),write_pka=False)
for ti in (93,144):
    n0=int(res[keys[ti]][0][22:26]); n1=int(res[keys[ti+1]][0][22:26])
    print('base',[(g.label,round(g.pka_value,3),round(g.energy_volume,3),len(g.determinants['sidechain']),len(g.determinants['coulomb'])) for g in base.conformations['AVR'].groups if g.atom.res_num in (n0,n1)])
    m=run.single('x.pdb',stream=io.StringIO(build(ti)),write_pka=False)
    for n in ('1A','AVR'):
        print(n,[(g.label,g.atom.icode,round(g.pka_value,3),round(g.energy_volume,3),len(g.determinants['sidechain']),len(g.determinants['coulomb'])) for g in m.conformations[n].groups if g.atom.res_num==n0 and g.type not in('BBN','BBC')])
