"""C10 / hunt2: with a positive optimum no 80 % range is reported at all.

Clause: "The reported optimum is the minimum of the computed profile and the
reported ranges are consistent with it."

MolecularContainer.get_folding_profile() accepts a grid point for the
"within 80 % of the optimum" range if   dG < 0.8 * dG_opt .
That is "at most 20 % above the optimum" only for dG_opt < 0.  For dG_opt > 0
the level 0.8*dG_opt lies BELOW the minimum of the profile, so no point can
pass - not even the optimum itself - and the .pka file says

    The pH of optimum stability is  4.7 for which the free energy is   22.4 ...
    Could not determine pH values where the free energy is within 80 % of minimum

i.e. an optimum is reported together with the statement that no pH is within
80 % of it.  With the default 'neutral' reference dG_opt > 0 is the normal
case (1FTJ, 3SGB, 4DFR, ... of the test set), so this is the default output.

A range that is consistent with the optimum must (a) exist whenever an optimum
exists and (b) contain the pH of the optimum.  Exit 1 otherwise.
"""
import logging
import os
import re
import sys
import tempfile

import propka.run as run

logging.disable(logging.CRITICAL)

PDB_DIR = '/repo/tests/pdb/'
workdir = tempfile.mkdtemp(prefix='hunt2_C10_')
os.chdir(workdir)

bad = 0
for stem, optargs in [('1FTJ-Chain-A', []),
                      ('3SGB-subset', []),
                      ('4DFR', ['-g', '2', '12', '0.5', '-w', '2', '12', '2'])]:
    mol = run.single(PDB_DIR + stem + '.pdb', optargs=optargs, write_pka=True)
    text = open(stem + '.pka').read()
    sect = text[text.index('Free energy of'):text.index('Protein charge of')]
    tail = sect[sect.index('The pH of optimum') if 'The pH of optimum' in sect
                else 0:]
    print('----', stem, ' '.join(optargs))
    print(tail.strip())

    m_opt = re.search(r'optimum stability is\s*(-?[\d.]+) for which the free '
                      r'energy is\s*(-?[\d.]+)', sect)
    m_80 = re.search(r'within 80 % of maximum at pH\s*(-?[\d.]+) to\s*(-?[\d.]+)',
                     sect)
    if not m_opt:
        print('no optimum reported - nothing to compare')
        continue
    ph_opt, dg_opt = float(m_opt.group(1)), float(m_opt.group(2))

    # the same numbers from the API
    profile, opt, range_80, _ = mol.get_folding_profile(
        conformation='AVR', reference='neutral', grid=mol.options.grid)
    print('API: opt = (%.2f, %.3f)   range_80pct = %r' % (opt[0], opt[1],
                                                          range_80))
    if m_80 is None:
        bad += 1
        print('VIOLATION: optimum dG = %.1f at pH %.1f is reported, but "%s"'
              % (dg_opt, ph_opt,
                 'Could not determine pH values where the free energy is '
                 'within 80 % of minimum'))
        print('   acceptance level 0.8*dG_opt = %.3f is below the profile '
              'minimum %.3f: the optimum itself is rejected'
              % (0.8 * opt[1], min(p[1] for p in profile)))
    else:
        lo, hi = float(m_80.group(1)), float(m_80.group(2))
        if not lo - 0.051 <= ph_opt <= hi + 0.051:
            bad += 1
            print('VIOLATION: 80 %% range %.1f..%.1f does not contain the pH of '
                  'the optimum %.1f' % (lo, hi, ph_opt))
    print()

if bad:
    print('%d file(s) report an optimum without a consistent 80 %% range' % bad)
    sys.exit(1)
print('every reported optimum lies inside its reported 80 % range')
sys.exit(0)
