#!/usr/bin/env python
"""C10 hunt 2: the step of the requested pH window (-w min max STEP) is rounded
to two decimals (half-even on the binary float) before it is used to select the
rows of the folding profile.  Steps such as 0.025 (-> 0.03), 0.125 (-> 0.12) or
0.005 (-> 0.01) select the wrong rows, and steps below 0.005 (-> 0.00) crash
with decimal.InvalidOperation.  The window bounds used here (0, 14, 6, 7) are
exact floats so that the end-point problem of hunt1 plays no role.

Exit 1 = violation reproduced, exit 0 = behaviour correct.
"""
import os
import sys
import tempfile
from fractions import Fraction

from propka.run import single

PDB = "/repo/tests/pdb/3SGB-subset.pdb"


def printed_folding_ph(grid, window):
    """Run propka, return the pH column of the folding-profile section."""
    cwd = os.getcwd()
    with tempfile.TemporaryDirectory() as tmp:
        os.chdir(tmp)
        try:
            single(PDB, optargs=["--quiet", "-g", *grid, "-w", *window],
                   write_pka=True)
            lines = open("3SGB-subset.pka").read().splitlines()
        finally:
            os.chdir(cwd)
    start = next(i for i, l in enumerate(lines)
                 if l.startswith("Free energy of"))
    out = []
    for line in lines[start + 1:]:
        if not line.strip():
            break
        out.append(line.split()[0])
    return out


def expected_ph(grid, window):
    """Window points (w0 + k*dw <= w1) that are also grid points, exact."""
    g0, g1, dg = (Fraction(x) for x in grid)
    w0, w1, dw = (Fraction(x) for x in window)
    gridpts = set()
    k = 0
    while g0 + k * dg <= g1:
        gridpts.add(g0 + k * dg)
        k += 1
    out = []
    k = 0
    while w0 + k * dw <= w1:
        if w0 + k * dw in gridpts:
            out.append(w0 + k * dw)
        k += 1
    return out


CASES = [
    # window step == grid step: every grid row must be printed
    (("0", "14", "0.025"), ("0", "14", "0.025")),
    (("0", "14", "0.125"), ("0", "14", "0.125")),
    # fine grid, coarser window that rounds to something else
    (("0", "14", "0.025"), ("0", "14", "0.125")),
    # step that rounds to 0.00
    (("6", "7", "0.001"), ("6", "7", "0.001")),
    # control
    (("0", "14", "0.05"), ("0", "14", "0.25")),
]

bad = 0
for grid, window in CASES:
    exp = expected_ph(grid, window)
    try:
        got = printed_folding_ph(grid, window)
    except Exception as exc:  # pylint: disable=broad-except
        bad += 1
        print("-g {0} -w {1}: VIOLATION (no output at all)".format(
            " ".join(grid), " ".join(window)))
        print("   raised {0!r}".format(exc))
        continue
    # the pH column is printed with two decimals: compare numerically
    ok = len(got) == len(exp) and all(
        abs(Fraction(g) - e) <= Fraction(1, 200) for g, e in zip(got, exp))
    print("-g {0} -w {1}: {2}".format(" ".join(grid), " ".join(window),
                                      "ok" if ok else "VIOLATION"))
    if not ok:
        bad += 1
        print("   expected {0} rows, first: {1}".format(
            len(exp), [str(float(e)) for e in exp[:8]]))
        print("   printed  {0} rows, first: {1}".format(len(got), got[:8]))
if bad:
    print("{0} window(s) not printed at the requested pH values".format(bad))
    sys.exit(1)
print("all windows printed at the requested pH values")
sys.exit(0)
