#!/usr/bin/env python
"""C06 hunt 3: ConformationContainer.sort_atoms_key folds chain id and residue
number into ONE number (ord(chain)*1e7 + res_num*1000 + ord(name char)).
A chain only owns a window of 10000 residue numbers; negative numbers or
numbers >= 9000 reach into the window of the neighbouring chain.  Shifting the
residue numbers of the chains by constants can therefore interleave the atoms
of two chains in the sorted atom list.  The sorted list is what the
desolvation sum (energy.radial_volume_desolvation) runs over, so the order of
the floating point additions changes and desolvation / pKa values are no
longer bit-identical.  (The effect is tiny, ~1e-16 .. 1e-15, far below the two
printed decimals, but the numbers are not "unchanged", and the order of the
atoms in every written structure file changes as well.)

Input A: tests/pdb/1HPX.pdb (chain A 1..99 + water 426, chain B 1..99 + waters + ligand 900).
Input B: chain A shifted by +9000 (9001..9426), chain B shifted by -990
         (protein -989..-891, waters and ligand up to -90); both shifts keep every number inside the 4 PDB columns,
         chains keep their names and their order.

exit 1 = violation reproduced, exit 0 = behaviour correct (bit-identical
numbers and an atom order that keeps the chains apart).
"""
import contextlib
import io
import logging
import sys

import propka.run

logging.disable(logging.CRITICAL)
PDB = "/repo/tests/pdb/1HPX.pdb"
SHIFT = {"A": 9000, "B": -990}


def run(text, optargs=()):
    with contextlib.redirect_stdout(io.StringIO()):
        return propka.run.single("x.pdb", optargs=tuple(optargs),
                                 stream=io.StringIO(text), write_pka=False)


def shift_numbers(text, shift):
    out = []
    for line in text.splitlines(True):
        if (line[:6] in ("ATOM  ", "HETATM", "TER   ", "ANISOU")
                and line[22:26].strip()):
            num = int(line[22:26]) + shift[line[21]]
            assert -999 <= num <= 9999
            line = line[:22] + "%4d" % num + line[26:]
        out.append(line)
    return "".join(out)


def rows(mol):
    res = []
    for g in mol.conformations["1A"].groups:
        res.append((g.type, g.atom.res_name, g.atom.name, g.pka_value,
                    g.energy_volume, g.num_volume, g.energy_local,
                    tuple(d.value for t in ("sidechain", "backbone", "coulomb")
                          for d in g.determinants[t])))
    return res


def chain_runs(mol):
    """number of maximal runs of equal chain id in the sorted atom list"""
    runs = 0
    last = None
    for atom in mol.conformations["1A"].atoms:
        if atom.chain_id != last:
            runs += 1
            last = atom.chain_id
    return runs


def main():
    text = open(PDB).read()
    mol_a = run(text)
    mol_b = run(shift_numbers(text, SHIFT))
    ra, rb = rows(mol_a), rows(mol_b)
    assert len(ra) == len(rb)
    ndiff = 0
    for a, b in zip(ra, rb):
        if a != b:
            ndiff += 1
            if ndiff <= 5:
                print("  %s %s %s: pKa %.17g -> %.17g, desolvation %.17g -> "
                      "%.17g" % (a[0], a[1], a[2], a[3], b[3], a[4], b[4]))
    print("%d of %d groups are not bit-identical after shifting the residue "
          "numbers" % (ndiff, len(ra)))
    print("sorted atom list: %d chain runs before, %d chain runs after the "
          "shift" % (chain_runs(mol_a), chain_runs(mol_b)))
    if ndiff or chain_runs(mol_a) != chain_runs(mol_b):
        print("VIOLATION: residue numbers influence the order of the atoms "
              "and, through it, the numbers")
        return 1
    print("OK: bit-identical")
    return 0


if __name__ == "__main__":
    sys.exit(main())
