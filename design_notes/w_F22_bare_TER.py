"""C01 counterexample 2: a short "TER" line is not seen as a TER record.

Two chain fragments separated by a TER record.  The first fragment carries no
terminal oxygen, so the only thing that marks the start of the second chain is
the TER record.  Written as the padded 'TER   ...' form the second chain gets
its N+ group; written as the bare three-letter line 'TER' (what GROMACS, VMD,
CHARMM-GUI and many scripts write) the amino terminus of the second chain is
silently not reported at all.
"""
import io
import logging
import sys

import propka.run
from propka.output import get_summary_section

logging.disable(logging.CRITICAL)

SRC = '/repo/tests/pdb/3SGB-subset.pdb'
atoms = [l.rstrip('\n') for l in open(SRC) if l[:6] == 'ATOM  ']
# chain E residues 100-143 (no insertion codes, no OXT) and chain I residues 9-56
frag_e = [l for l in atoms
          if l[21] == 'E' and 100 <= int(l[22:26]) <= 143 and l[26] == ' ']
frag_i = [l for l in atoms if l[21] == 'I' and int(l[22:26]) >= 9]
assert frag_e[0][17:20] == 'ASN' and frag_i[0][17:20] == 'SER'
assert not any(l[12:16] == ' OXT' for l in frag_e)

EXPECTED_TERMINI = ['N+  100 E', 'N+    9 I', 'C-   56 I']


def termini(ter_line):
    text = '\n'.join(frag_e + [ter_line] + frag_i + [ter_line, 'END']) + '\n'
    mol = propka.run.single('two_chains.pdb', stream=io.StringIO(text),
                            write_pka=False)
    groups = [(g.label, g.model_pka) for g in mol.conformations['AVR'].groups
              if g.residue_type in ('N+', 'C-')]
    summary = get_summary_section(mol, 'AVR', mol.version.parameters)
    in_summary = [l[3:12] for l in summary.splitlines()
                  if l[3:6] in ('N+ ', 'C- ')]
    return groups, in_summary


bad = False
for ter in ('TER    1311      THR E 143', 'TER   ', 'TER'):
    groups, in_summary = termini(ter)
    labels = [g[0] for g in groups]
    ok = (sorted(labels) == sorted(EXPECTED_TERMINI)
          and sorted(in_summary) == sorted(EXPECTED_TERMINI))
    print('%-28r results: %s  summary: %s  %s'
          % (ter, groups, in_summary, 'ok' if ok else '<-- WRONG'))
    if not ok:
        bad = True
        print('   missing:', sorted(set(EXPECTED_TERMINI) - set(labels)))

if bad:
    print('VIOLATION: the amino group of the chain that starts after the TER '
          'record is not reported')
    sys.exit(1)
print('OK')
sys.exit(0)
