"""C05 hunt 2: a ligand 500 (or 5000) Angstrom away switches off the
ligand-protein interactions of an unrelated ligand, because the labels of
hetero-atom groups carry no residue number and penalised (covalently coupled)
groups are removed from everybody's determinant lists by label.

Set 1 = tests/pdb/4DFR.pdb (dimer, chains A and B, methotrexate MTX 161 in chain A).
        Of the four coupled ring nitrogens of MTX 161 A, N8 is the one that titrates;
        N1, N3, N5 are penalised.
Set 2 = a copy of chain A of 4DFR alone (protein + its MTX + CL), moved far away,
        kept in chain A but renumbered +1000 (MTX 1161 A).  Without chain B next to
        it, N1 is the nitrogen that titrates; N3, N5, N8 are penalised.
No residue identifier is used twice; the two sets are > 400 Angstrom apart.

exit 1 = violation reproduced, exit 0 = behaviour correct.
"""
import io
import logging
import math
import sys

logging.disable(logging.CRITICAL)
import propka.run  # noqa: E402

PDBDIR = '/repo/tests/pdb/'


def load(name):
    out = []
    for line in open(PDBDIR + name):
        if line[:6] in ('ATOM  ', 'HETATM', 'TER   '):
            out.append(line.rstrip('\n').ljust(80))
    return out


def move(lines, dx, resoff):
    out = []
    for l in lines:
        if l[:6] in ('ATOM  ', 'HETATM'):
            l = (l[:22] + '%4d' % (int(l[22:26]) + resoff) + l[26:30]
                 + '%8.3f' % (float(l[30:38]) + dx) + l[38:])
        out.append(l)
    return out


def run(lines):
    return propka.run.single('x.pdb', optargs=('-q',),
                             stream=io.StringIO('\n'.join(lines) + '\n'),
                             write_pka=False)


def table(mol, select):
    res = {}
    for g in mol.conformations['AVR'].groups:
        if select(g.atom.res_num):
            dets = tuple((t, d.label, d.value) for t in ('sidechain', 'backbone', 'coulomb')
                         for d in g.determinants[t])
            res[(g.label, g.atom.res_num, g.atom.name)] = (g.pka_value, dets)
    return res


def same(r1, r2, tol=1e-6):
    if abs(r1[0] - r2[0]) > tol or len(r1[1]) != len(r2[1]):
        return False
    return all(a[:2] == b[:2] and abs(a[2] - b[2]) <= tol for a, b in zip(r1[1], r2[1]))


def coords(lines):
    return [(float(l[30:38]), float(l[38:46]), float(l[46:54]))
            for l in lines if l[:6] in ('ATOM  ', 'HETATM')]


def main():
    full = load('4DFR.pdb')
    set1 = full
    alone1 = table(run(set1), lambda n: n < 1000)
    bad = 0
    for dx in (500.0, 5000.0):
        set2 = move([l for l in full if l[:6] != 'TER   ' and l[21] == 'A'], dx, 1000)
        alone2 = table(run(set2), lambda n: n >= 1000)
        c1, c2 = coords(set1), coords(set2)
        print('separation (nearest atoms): %.1f A' % min(
            math.dist(a, b) for a in c1[::7] for b in c2[::7]))
        for order, comb in (('1 then 2', set1 + set2), ('2 then 1', set2 + set1)):
            mol = run(comb)
            for name, alone, inside in (
                    ('set 1', alone1, table(mol, lambda n: n < 1000)),
                    ('set 2', alone2, table(mol, lambda n: n >= 1000))):
                changed = [k for k in alone if k not in inside or not same(alone[k], inside[k])]
                changed += [k for k in inside if k not in alone]
                print('%s, %s: %d of %d groups changed' % (order, name, len(changed), len(alone)))
                for k in changed:
                    lost = [d[:2] for d in alone[k][1] if d[:2] not in [e[:2] for e in inside[k][1]]]
                    print('     %-10s (res %4d) pKa alone %5.2f  inside combined %5.2f   '
                          'determinants lost: %s' % (k[0], k[1], alone[k][0], inside[k][0], lost))
                bad += len(changed)
    if bad:
        print('VIOLATION: results of one set depend on a ligand that is hundreds of '
              'Angstrom away')
        return 1
    print('ok: the two sets do not influence each other')
    return 0


if __name__ == '__main__':
    sys.exit(main())
