#!/usr/bin/env python
"""C06 hunt 2: --titrate_only cannot address a chain without identifier the
way --chain does; after renaming chain 'A' to the blank chain (and renaming the
option value in the same way) every group stops being titratable.

Input A: tests/pdb/1HPX.pdb, options  -c A   -i "A:25,A:29,A:30"
Input B: the same file with chain 'A' renamed to ' ' (blank),
         options  -c " " -i " :25, :29, :30"
         (" " is what the --chain help text prescribes for a chain without ID;
          lib.parse_res_string accepts " :25" without complaint)

Expected: the same three pKa values / desolvation / determinants.
Observed: input B gives no titratable group at all (empty result), because
Atom.set_properties stores the blank chain as '_' while parse_res_string keeps
' ', so (chain, resnum, icode) is never found in options.titrate_only.
(With -i "_:25,..." the --titrate_only part works, but then -c "_" selects
nothing, because --chain is compared with the raw column 22.)

exit 1 = violation reproduced, exit 0 = behaviour correct.
"""
import contextlib
import io
import logging
import sys

import propka.run

logging.disable(logging.CRITICAL)
PDB = "/repo/tests/pdb/1HPX.pdb"


def run(text, optargs=()):
    with contextlib.redirect_stdout(io.StringIO()):
        return propka.run.single("x.pdb", optargs=tuple(optargs),
                                 stream=io.StringIO(text), write_pka=False)


def rename_chains(text, mapping):
    out = []
    for line in text.splitlines(True):
        if line[:6] in ("ATOM  ", "HETATM", "TER   ", "ANISOU") and len(line) > 22:
            line = line[:21] + mapping.get(line[21], line[21]) + line[22:]
        out.append(line)
    return "".join(out)


def rows(mol):
    res = []
    for g in mol.conformations["AVR"].groups:
        dets = tuple(
            (t, tuple(sorted(round(d.value, 4) for d in g.determinants[t])))
            for t in ("sidechain", "backbone", "coulomb"))
        res.append((g.type, g.atom.res_name, g.atom.res_num,
                    round(g.pka_value, 4), round(g.energy_volume, 4),
                    int(g.num_volume), dets))
    return res


def main():
    text = open(PDB).read()
    res_a = rows(run(text, ["-c", "A", "-i", "A:25,A:29,A:30"]))
    text_b = rename_chains(text, {"A": " "})
    res_b = rows(run(text_b, ["-c", " ", "-i", " :25, :29, :30"]))
    print("chain 'A', -c A   -i A:25,A:29,A:30  ->",
          [(r[1], r[2], round(r[3], 2)) for r in res_a])
    print("chain ' ', -c ' ' -i ' :25, :29, :30' ->",
          [(r[1], r[2], round(r[3], 2)) for r in res_b])
    if res_a != res_b:
        print("VIOLATION: renaming chain A to the blank chain (options renamed "
              "accordingly) changed the result")
        return 1
    print("OK: same numbers")
    return 0


if __name__ == "__main__":
    sys.exit(main())
