"""hunt3 (C17): deuterium atoms (element D, as deposited for neutron-diffraction
structures: amide ' D  ', ' DE2', 'DD21', ...) are not recognised as hydrogens.

get_atom_lines_from_pdb() only discards records with element == 'H', and the
builder/group code only looks for element 'H'.  A deuterium therefore stays in
the structure as a 'heavy atom' of unknown element 'D', BondMaker bonds it to
its nitrogen (generic 2.0 A rule), the nitrogen's valence is used up so
Protonate adds no hydrogen, and BBNGroup finds no bonded 'H':
every deuterated backbone amide of a perfectly complete residue is reported
as 'Missing atoms or failed protonation' and ends up with 0 hydrogens.

Input: residues 44-48 of tests/pdb/1FTJ-Chain-A.pdb (complete, regular,
contiguous) with an amide deuterium ' D  ' added on N of residues 45-48 at the
ideal position (in the C(i-1)-N-CA plane, on the bisector, 1.01 A from N).

Expected (property C17): the four backbone amides (chain neighbours present)
each have exactly 1 hydrogen and no 'Missing atoms or failed protonation'
warning is issued -- without and with --keep-protons.  Exit 1 otherwise.
"""
import io
import logging
import math
import sys

import propka.run as run

SRC = '/repo/tests/pdb/1FTJ-Chain-A.pdb'
D_FMT = ('ATOM   %4d  D   %s %s%4d    %8.3f%8.3f%8.3f  1.00 20.00'
         '           D  \n')


class Capture(logging.Handler):
    def __init__(self):
        super().__init__(level=logging.WARNING)
        self.msgs = []

    def emit(self, record):
        self.msgs.append(record.getMessage())


def xyz(line):
    return [float(line[30:38]), float(line[38:46]), float(line[46:54])]


def unit(vec):
    length = math.sqrt(sum(c * c for c in vec))
    return [c / length for c in vec]


def build():
    residues = {}
    for line in open(SRC):
        if line.startswith('ATOM') and line[21] == 'A' \
                and 44 <= int(line[22:26]) <= 48:
            residues.setdefault(int(line[22:26]), []).append(line)
    out = []
    prev_c = None
    serial = 9000
    for num in sorted(residues):
        atoms = {line[12:16].strip(): line for line in residues[num]}
        for line in residues[num]:
            out.append(line)
            if line[12:16].strip() == 'N' and prev_c is not None:
                n_pos = xyz(line)
                to_ca = unit([a - b for a, b in zip(xyz(atoms['CA']), n_pos)])
                to_c = unit([a - b for a, b in zip(prev_c, n_pos)])
                direction = unit([-(a + b) for a, b in zip(to_ca, to_c)])
                pos = [a + 1.01 * b for a, b in zip(n_pos, direction)]
                serial += 1
                out.append(D_FMT % (serial, line[17:20], line[21], num,
                                    pos[0], pos[1], pos[2]))
        prev_c = xyz(atoms['C'])
    return ''.join(out) + 'END\n'


def run_case(text, optargs):
    cap = Capture()
    logger = logging.getLogger('propka')
    logger.addHandler(cap)
    try:
        mol = run.single('hunt3.pdb', optargs=['--quiet'] + optargs,
                         stream=io.StringIO(text), write_pka=False)
    finally:
        logger.removeHandler(cap)
    conf = mol.conformations[mol.conformation_names[0]]
    bad = False
    for atom in conf.atoms:
        if atom.name == 'N' and atom.res_num >= 45:
            n_h = len([b for b in atom.bonded_atoms if b.element == 'H'])
            others = [(b.name, b.element) for b in atom.bonded_atoms
                      if b.element != 'H']
            print('  %s %3d N: hydrogens %d, other bonded atoms %s'
                  % (atom.res_name, atom.res_num, n_h, others))
            if n_h != 1:
                bad = True
    warnings = [m for m in cap.msgs
                if 'Missing atoms or failed protonation' in m]
    for msg in warnings:
        print('    WARNING:', msg)
    return bad or bool(warnings)


def main():
    text = build()
    bad = False
    for optargs in ([], ['--keep-protons']):
        print('options:', optargs or '(default)')
        bad = run_case(text, optargs) or bad
    if bad:
        print('VIOLATION: complete residues with deuterated amides (chain '
              'neighbours present) did not get / keep their amide hydrogen '
              'and were reported as failed protonation')
        return 1
    print('ok: every backbone amide has exactly one hydrogen, no warning')
    return 0


if __name__ == '__main__':
    sys.exit(main())
