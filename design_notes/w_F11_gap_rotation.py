import io, logging, collections
import propka.run as run
logging.disable(logging.CRITICAL)
exec(open('w_F11_base.py').read().split("for name,lines in")[0])
m=run.single('x.pdb',stream=io.StringIO("\n".join(atoms+['END'])+"\n"),write_pka=False)
cands=[]
for g in m.conformations['1A'].groups:
    for d in g.determinants['backbone']:
        if d.group.type=='BBN': cands.append((g.label,d.group.atom.res_num,round(d.value,2)))
print(cands[:12])
def full(lines,opts=()):
    m=run.single('x.pdb',optargs=list(opts),stream=io.StringIO("\n".join(lines+['END'])+"\n"),write_pka=False)
    return [(g.label,round(g.pka_value,3)) for g in m.conformations['AVR'].groups]
for lab,rn,v in cands[:12]:
    lines=[l for l in atoms if int(l[22:26])!=rn-1]
    b=full(lines)
    for rname,f in rots.items():
        r=full(xform(lines,f))
        d=[(x[0],x[1],y[1]) for x,y in zip(b,r) if abs(x[1]-y[1])>0.02 and not x[0].startswith('GLU   N')]
        if d: print('delete',rn-1,rname,d[:4])
