import io, logging, sys, itertools, math
import propka.run as run
logging.disable(logging.CRITICAL)
from w_lib_sumcheck import check
src=open('/repo/tests/pdb/1FTJ-Chain-A.pdb').read().splitlines()
atoms=[l for l in src if l.startswith('ATOM  ')]
xyz=[(float(l[30:38]),float(l[38:46]),float(l[46:54])) for l in atoms]
cen=[sum(c[i] for c in xyz)/len(xyz) for i in range(3)]
# pick lysine NZ farthest from centroid
best=None
for l,c in zip(atoms,xyz):
    if l[12:16].strip()=='NZ':
        d=math.dist(c,cen)
        if best is None or d>best[0]: best=(d,l,c)
_,l,nz=best
out=[(nz[i]-cen[i])/best[0] for i in range(3)]
# perpendicular
t=[1,0,0] if abs(out[0])<0.9 else [0,1,0]
u=[out[1]*t[2]-out[2]*t[1],out[2]*t[0]-out[0]*t[2],out[0]*t[1]-out[1]*t[0]]
n=math.sqrt(sum(x*x for x in u)); u=[x/n for x in u]
mol=[('C1','C',0,0),('O1','O',-1.1,0.6),('O2','O',0.1,-1.25),('C2','C',1.27,0.85),('C3','C',2.54,0),('C4','C',3.81,0.85),('O3','O',4.91,0.25),('O4','O',3.71,2.10)]
het=[]
for i,(nm,el,x,y) in enumerate(mol):
    p=[nz[k]+out[k]*(2.8+1.1+x)+u[k]*y for k in range(3)]
    het.append("HETATM%5d %-4s SIN A 900    %8.3f%8.3f%8.3f  1.00  0.00          %2s"%(5000+i,' '+nm,p[0],p[1],p[2],el))
base=open('/repo/propka/propka.cfg').read()
txt="\n".join(atoms+['TER']+het+['END'])+"\n"
for sd,rp in itertools.product((0,1),(0,1)):
    cfg=base.replace('shared_determinants              0','shared_determinants              %d'%sd).replace('remove_penalised_group\t         1','remove_penalised_group %d'%rp)
    open("/tmp/propka_w_p.cfg","w").write(cfg)
    m=run.single('x.pdb',optargs=['-p','/tmp/propka_w_p.cfg'],stream=io.StringIO(txt),write_pka=False)
    c=m.conformations['1A']
    oco=[g for g in c.groups if g.type=='OCO']
    print('shared',sd,'remove',rp,'OCO',[(g.label,round(g.pka_value,3),len(g.covalently_coupled_groups),[ (d.label,round(d.value,2)) for t in g.determinants.values() for d in t]) for g in oco])
    print('   bad',check(m))
