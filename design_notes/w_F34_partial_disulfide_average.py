#!/usr/bin/env python
"""C02 hunt 1: a cysteine that is disulfide-bridged in one alt-loc conformation
and free in another gets a conformation-average pKa that is neither 99.99 nor
model pKa + listed contributions (e.g. 54.26).

Input: tests/pdb/3SGB.pdb with ONE extra line: an alt-loc 'B' position for SG of
CYS I 56 (the original SG becomes alt-loc 'A').  The B position is the A position
rotated by 120 deg about the CA-CB bond (a normal second rotamer: CB-SG stays
1.77 A, SG-SG becomes 4.6 A, i.e. the bridge to CYS I 24 is broken in state B).

exit 1 = violation demonstrated, exit 0 = behaviour correct.
"""
import logging
import math
import os
import sys
import tempfile

import propka.run as run

SRC = '/repo/tests/pdb/3SGB.pdb'


def xyz(line):
    return [float(line[30:38]), float(line[38:46]), float(line[46:54])]


def rotate(p, a, b, ang):
    """rotate point p about the axis a->b (through b) by ang (Rodrigues)."""
    k = [b[i] - a[i] for i in range(3)]
    n = math.sqrt(sum(c * c for c in k))
    k = [c / n for c in k]
    v = [p[i] - b[i] for i in range(3)]
    kxv = [k[1] * v[2] - k[2] * v[1], k[2] * v[0] - k[0] * v[2],
           k[0] * v[1] - k[1] * v[0]]
    kv = sum(k[i] * v[i] for i in range(3))
    return [b[i] + v[i] * math.cos(ang) + kxv[i] * math.sin(ang)
            + k[i] * kv * (1 - math.cos(ang)) for i in range(3)]


def build_input():
    lines = open(SRC).read().split('\n')
    res = {l[12:16].strip(): l for l in lines
           if l.startswith('ATOM') and l[21] == 'I' and l[22:26].strip() == '56'}
    new = rotate(xyz(res['SG']), xyz(res['CA']), xyz(res['CB']),
                 math.radians(120.0))
    out = []
    for l in lines:
        if l is res['SG']:
            out.append(l[:16] + 'A' + l[17:54] + '  0.50' + l[60:])
            out.append(l[:16] + 'B' + l[17:30]
                       + '%8.3f%8.3f%8.3f' % tuple(new) + '  0.50' + l[60:])
        else:
            out.append(l)
    return '\n'.join(out) + '\n'


def main():
    logging.getLogger('propka').setLevel(logging.CRITICAL)
    tmp = tempfile.mkdtemp()
    os.chdir(tmp)
    pdb = os.path.join(tmp, 'ss_partial.pdb')
    with open(pdb, 'w') as handle:
        handle.write(build_input())
    mol = run.single(pdb, write_pka=True)
    pka_txt = open(os.path.join(tmp, 'ss_partial.pka')).read()

    print('conformations:', mol.conformation_names)
    violations = []
    for name in mol.conformation_names + ['AVR']:
        for g in mol.conformations[name].groups:
            if not (g.titratable or g.residue_type == 'CYS'):
                continue
            total = g.model_pka + g.energy_volume + g.energy_local + sum(
                d.value for t in ('sidechain', 'backbone', 'coulomb')
                for d in g.determinants[t])
            fixed = abs(g.pka_value - 99.99) < 1e-9   # disulfide exception
            ok = fixed or abs(g.pka_value - total) < 1e-6
            if g.residue_type == 'CYS' and g.atom.res_num in (24, 56) \
                    and g.atom.chain_id == 'I':
                print('%-4s %s bridged=%-5s pKa=%8.2f  model+contributions=%6.2f'
                      % (name, g.label, g.atom.cysteine_bridge, g.pka_value,
                         total))
            if not ok:
                violations.append((name, g.label, g.pka_value, total))
    print('\nlines of the written .pka file:')
    for l in pka_txt.split('\n'):
        if 'CYS  24 I' in l[:14] or 'CYS  56 I' in l[:14]:
            print('   ' + l)
    if violations:
        print('\nVIOLATION: reported pKa is neither 99.99 nor model pKa + '
              'desolvation + listed determinants:')
        for v in violations:
            print('   conformation %s  %s  reported %.2f  model+contributions '
                  '%.2f' % v)
        return 1
    print('\nno violation')
    return 0


if __name__ == '__main__':
    sys.exit(main())
