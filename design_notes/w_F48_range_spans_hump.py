"""C10 / hunt1: the reported pH ranges are the (min, max) of a NON-CONTIGUOUS set.

Clause: "The reported optimum is the minimum of the computed profile and the
reported ranges are consistent with it."

MolecularContainer.get_folding_profile() collects the grid pH values whose dG
is below 0.8*dG_opt (resp. below 0) and reports (min, max) of that set.  If the
profile has two wells the set is not an interval; the .pka file then states
"The free energy is within 80 % of maximum at pH a to b" /
"The free energy is negative in the range a - b" for an interval [a, b] that
contains grid points (even printed rows of the very same file) which are NOT
within 80 % of the optimum / NOT negative.

Input: residues 49-73 of chain B of tests/pdb/1HPX.pdb (a contiguous 25-residue
peptide, real coordinates, no alt-locs, no insertion codes, no hetero atoms),
default options (-g 0 14 0.1, -w 0 14 1).  Both reference states are checked:
'neutral' (what the command line writes) and 'low-pH' (API).

Exit 1 if a reported range contains a grid point that contradicts it.
"""
import io
import logging
import os
import re
import sys
import tempfile

import propka.run as run
from propka.lib import make_grid

logging.disable(logging.CRITICAL)

SRC = '/repo/tests/pdb/1HPX.pdb'
pdb = ''.join(
    line for line in open(SRC)
    if line.startswith('ATOM') and line[21] == 'B'
    and 49 <= int(line[22:26]) <= 73) + 'END\n'

workdir = tempfile.mkdtemp(prefix='hunt1_C10_')
os.chdir(workdir)

bad = 0
for reference in ('neutral', 'low-pH'):
    mol = run.single('frag.pdb', stream=io.StringIO(pdb), write_pka=False)
    mol.write_pka(reference=reference)          # writes frag.pka
    text = open('frag.pka').read()
    sect = text[text.index('Free energy of'):text.index('Protein charge of')]
    print('---- reference = %s ----' % reference)
    print(sect.strip())

    # what the file says
    rows = [(float(a), float(b)) for a, b in
            re.findall(r'^\s*(-?\d+\.\d+)\s+(-?\d+\.\d+)\s*$', sect, re.M)]
    m_opt = re.search(r'optimum stability is\s*(-?[\d.]+) for which the free '
                      r'energy is\s*(-?[\d.]+)', sect)
    m_80 = re.search(r'within 80 % of maximum at pH\s*(-?[\d.]+) to\s*(-?[\d.]+)',
                     sect)
    m_neg = re.search(r'negative in the range\s*(-?[\d.]+) -\s*(-?[\d.]+)', sect)

    # the computed profile on the requested grid (the same call the writer makes)
    profile, opt, _, _ = mol.get_folding_profile(
        conformation='AVR', reference=reference, grid=mol.options.grid)
    ph_opt, dg_opt = opt
    eps = 0.051   # the range end points are printed with one decimal

    if m_80:
        lo, hi = float(m_80.group(1)), float(m_80.group(2))
        offenders = [(ph, dg) for ph, dg in profile
                     if lo + eps < ph < hi - eps and not dg < 0.8 * dg_opt]
        if offenders:
            bad += 1
            worst = max(offenders, key=lambda p: p[1])
            print('VIOLATION: file says "within 80 %% of maximum at pH %.1f to '
                  '%.1f" (optimum %.2f, 80 %% = %.2f) but %d grid points inside '
                  'that range are not, e.g. pH %.1f with dG = %.2f (%.0f %% of '
                  'the optimum)' % (lo, hi, dg_opt, 0.8 * dg_opt, len(offenders),
                                    worst[0], worst[1], 100 * worst[1] / dg_opt))
            shown = [r for r in rows
                     if lo < r[0] < hi and not r[1] < round(0.8 * dg_opt, 2)]
            print('   rows printed in the same file that contradict it:', shown)
    if m_neg:
        lo, hi = float(m_neg.group(1)), float(m_neg.group(2))
        offenders = [(ph, dg) for ph, dg in profile
                     if lo + eps < ph < hi - eps and not dg < 0.0]
        if offenders:
            bad += 1
            worst = max(offenders, key=lambda p: p[1])
            print('VIOLATION: file says "negative in the range %.1f - %.1f" but '
                  '%d grid points inside that range have dG >= 0, e.g. pH %.1f '
                  'with dG = %+.2f' % (lo, hi, len(offenders), worst[0],
                                       worst[1]))
            shown = [r for r in rows if lo < r[0] < hi and r[1] > 0]
            print('   rows printed in the same file that contradict it:', shown)
    print()

if bad:
    print('%d reported range(s) are inconsistent with the computed profile' % bad)
    sys.exit(1)
print('all reported ranges are consistent with the computed profile')
sys.exit(0)
