"""C19 hunt 2: fields containing non-blank 'whitespace' characters are accepted.

The only padding character of a hybrid-36 field is the blank ' '.  TAB, LF, CR,
VT, FF, the separators \\x1c-\\x1f, NEL \\x85, NBSP \\xa0 and the other Unicode
spaces are illegal characters.  propka.hybrid36.decode calls str.strip() with
no argument, which removes all of them at either end, so such malformed fields
decode silently instead of raising ValueError.
Exit 1 if any such field is accepted, 0 otherwise.
"""
import sys

from propka.hybrid36 import decode
from propka.atom import Atom

ILLEGAL = ['\t', '\n', '\r', '\x0b', '\x0c', '\x1c', '\x1d', '\x1e', '\x1f',
           '\x85', '\xa0', ' ', '　']
BODIES = ['7', '12', '123', '1234', 'A', 'A0', 'A00', 'A000', 'z', 'zz',
          'zzz', 'zzzz', '-1', '-12', '-123']

accepted = []
for ch in ILLEGAL:
    for body in BODIES:
        # illegal character in front, behind, and as "padding" to width 5
        for field in {ch + body, body + ch, (ch * 5 + body)[-5:],
                      (body + ch * 5)[:5], ch + body.rjust(4)}:
            if len(field) > 5:
                continue
            try:
                value = decode(field)
            except ValueError:
                continue
            accepted.append((field, value))

# control: the same characters are (correctly) rejected in the middle
middle_ok = True
for ch in ILLEGAL:
    try:
        decode('1' + ch + '2')
        middle_ok = False
    except ValueError:
        pass

# end-to-end: an ATOM record whose serial field is TAB-"padded"
line = ("ATOM  \t  42  CA  ALA A   1      11.000  12.000  13.000"
        "  1.00  0.00           C\n")
try:
    atom_serial = Atom(line=line).numb
except ValueError:
    atom_serial = None

if accepted or atom_serial is not None:
    print("malformed fields with illegal (non-blank whitespace) characters "
          "ACCEPTED: %d cases" % len(accepted))
    seen = set()
    for field, value in accepted:
        key = [c for c in field if c in ILLEGAL][0]
        if key in seen:
            continue
        seen.add(key)
        print("  decode(%r) = %d" % (field, value))
    print("  (same characters in the middle of a field rejected: %s)"
          % middle_ok)
    print("  Atom(line) with serial field %r -> numb = %r"
          % (line[6:11], atom_serial))
    sys.exit(1)
print("all fields with illegal whitespace characters rejected")
sys.exit(0)
