"""C14 hunt 3: a titrate-only list given in several -i/--titrate_only options
is not honoured: only the residues of the LAST option are titrated, the
residues listed in the earlier options are silently made non-titratable
(the sibling options -c/--chain and -f/--file accumulate).

Exit 1 = violation shown (unchanged code), exit 0 = behaviour correct.
"""
import logging
import os
import sys
import tempfile

import propka.run as run
from propka.lib import loadOptions

logging.disable(logging.CRITICAL)
PDB = '/repo/tests/pdb/1HPX.pdb'
os.chdir(tempfile.mkdtemp())


def reported(mol):
    return {g.label: round(g.pka_value, 2)
            for g in mol.conformations['AVR'].groups}


one = run.single(PDB, ['-q', '-i', 'A:25,B:25'], write_pka=False)
two = run.single(PDB, ['-q', '-i', 'A:25', '-i', 'B:25'], write_pka=False)
opts = loadOptions(['-q', '-i', 'A:25', '-i', 'B:25', '-c', 'A', '-c', 'B',
                    PDB])
print("options for  -i A:25 -i B:25 -c A -c B :")
print("   titrate_only =", opts.titrate_only)
print("   chains       =", opts.chains)
print("reported with -i A:25,B:25      :", reported(one))
print("reported with -i A:25 -i B:25   :", reported(two))
asp25a = [g for g in two.conformations['1A'].groups
          if g.label == 'ASP  25 A' and g.type == 'COO'][0]
print("ASP 25 A (listed in the first -i): titratable =", asp25a.titratable)
if reported(one) != reported(two) or not asp25a.titratable:
    print("VIOLATION: residue A:25 is in the titrate-only list but is "
          "neither titrated nor reported; ASP 25 B is computed without its "
          "partner (pKa %.2f instead of %.2f)"
          % (reported(two).get('ASP  25 B', float('nan')),
             reported(one)['ASP  25 B']))
    sys.exit(1)
sys.exit(0)
