"""C03 hunt 1: MolecularContainer.calculate_pka() is not idempotent.

Recomputing the pKa values of a container that has already been computed
(same structure, same options, same process) gives different numbers, because
every call appends a second copy of all determinants to the per-conformation
groups.  Exits 1 when the second computation differs from the first.
"""
import logging
import os
import sys
import tempfile
from pathlib import Path

import propka.run as pr

logging.disable(logging.CRITICAL)
PDB = Path('/repo/tests/pdb')


def snapshot(mol, tag):
    """all reported numbers + the .pka text without the date line"""
    mol.write_pka()
    alt = mol.options.display_coupled_residues
    fname = mol.name + ('_alt_state.pka' if alt else '.pka')
    text = Path(fname).read_text().splitlines()[1:]
    os.replace(fname, '%s_%s' % (tag, fname))
    pkas = {g.label: g.pka_value for g in mol.conformations['AVR'].groups}
    return pkas, mol.get_pi(), text


def main():
    bad = 0
    os.chdir(tempfile.mkdtemp(prefix='hunt_C03_1_'))
    for name, opts in [('1FTJ-Chain-A.pdb', []),
                       ('conf-alt-AB.pdb', []),
                       ('3SGB-subset.pdb', ['-d'])]:
        mol = pr.single(str(PDB / name), opts, write_pka=False)
        pk1, pi1, txt1 = snapshot(mol, 'first')
        mol.calculate_pka()            # same structure, same options, again
        pk2, pi2, txt2 = snapshot(mol, 'second')
        diff = [(k, round(pk1[k], 2), round(pk2[k], 2)) for k in pk1
                if abs(pk1[k] - pk2[k]) > 1e-9]
        nlines = sum(a != b for a, b in zip(txt1, txt2)) + abs(len(txt1) - len(txt2))
        if diff or pi1 != pi2 or txt1 != txt2:
            bad += 1
            print('%s %s: second calculate_pka() differs from the first' % (name, opts))
            print('   %d of %d pKa values differ, e.g. (label, first, second): %s'
                  % (len(diff), len(pk1), diff[:4]))
            print('   pI (folded, unfolded): first %s second %s'
                  % (tuple(round(v, 2) for v in pi1), tuple(round(v, 2) for v in pi2)))
            print('   .pka lines that differ: %d' % nlines)
        else:
            print('%s %s: OK' % (name, opts))
    return 1 if bad else 0


if __name__ == '__main__':
    sys.exit(main())
