"""C18 hunt 2: the shipped interaction matrix has no row for group type 'ION',
although ion groups are created for every residue listed under 'ions' and are
fed - together with all other non-backbone groups - into the pairwise
interaction-type look-up of determinants.set_determinants().

Clause: "The shipped parameter file defines an interaction type for every pair
of group types the program can create".

The script builds a tiny PDB (three residues + one ZN HETATM), runs the
unchanged pipeline and records every interaction_matrix.get_value(a, b) that
the program itself performs and that comes back undefined (None, i.e. neither
'I', 'N' nor '-').

exit 1 = violation shown, exit 0 = behaviour correct.
"""
import logging
import os
import sys
import tempfile

logging.disable(logging.CRITICAL)

import propka.run as run
from propka.parameters import InteractionMatrix, Parameters
from propka.input import read_parameter_file

PDB = """\
ATOM      1  N   ASP A   1       0.000   0.000   0.000  1.00  0.00           N
ATOM      2  CA  ASP A   1       1.458   0.000   0.000  1.00  0.00           C
ATOM      3  C   ASP A   1       2.009   1.420   0.000  1.00  0.00           C
ATOM      4  O   ASP A   1       1.251   2.390   0.000  1.00  0.00           O
ATOM      5  CB  ASP A   1       1.988  -0.773  -1.209  1.00  0.00           C
ATOM      6  CG  ASP A   1       3.500  -0.800  -1.250  1.00  0.00           C
ATOM      7  OD1 ASP A   1       4.100   0.250  -1.600  1.00  0.00           O
ATOM      8  OD2 ASP A   1       4.100  -1.850  -0.950  1.00  0.00           O
ATOM      9  N   SER A   2       3.332   1.536   0.000  1.00  0.00           N
ATOM     10  CA  SER A   2       3.970   2.845   0.000  1.00  0.00           C
ATOM     11  C   SER A   2       5.480   2.705   0.000  1.00  0.00           C
ATOM     12  O   SER A   2       6.030   1.600   0.000  1.00  0.00           O
ATOM     13  CB  SER A   2       3.530   3.650   1.220  1.00  0.00           C
ATOM     14  OG  SER A   2       3.900   5.010   1.100  1.00  0.00           O
ATOM     15  N   GLY A   3       6.160   3.840   0.000  1.00  0.00           N
ATOM     16  CA  GLY A   3       7.610   3.860   0.000  1.00  0.00           C
ATOM     17  C   GLY A   3       8.150   5.280   0.000  1.00  0.00           C
ATOM     18  O   GLY A   3       7.400   6.250   0.000  1.00  0.00           O
ATOM     19  OXT GLY A   3       9.400   5.400   0.000  1.00  0.00           O
TER
HETATM   20 ZN    ZN A 101       6.300  -1.000  -2.000  1.00  0.00          ZN
END
"""

# which group types occur / which look-ups come back undefined
undefined = {}
orig_get_value = InteractionMatrix.get_value


def spy(self, item1, item2):
    res = orig_get_value(self, item1, item2)
    if res is None:
        undefined[(item1, item2)] = undefined.get((item1, item2), 0) + 1
    return res


InteractionMatrix.get_value = spy

cwd = os.getcwd()
with tempfile.TemporaryDirectory() as tmp:
    os.chdir(tmp)
    try:
        with open('ion.pdb', 'w') as handle:
            handle.write(PDB)
        mol = run.single('ion.pdb', optargs=['-q'], write_pka=False)
    finally:
        os.chdir(cwd)
InteractionMatrix.get_value = orig_get_value

conf = mol.conformations['1A']
p = mol.version.parameters
pair_loop_types = sorted({g.type for g in conf.get_sidechain_groups()})
print("group types entering the pairwise look-up:", pair_loop_types)
print("matrix rows in shipped propka.cfg        :", len(list(p.interaction_matrix.keys())))

bad = []
for t in pair_loop_types:
    if t not in p.interaction_matrix.keys():
        bad.append("type %r is created and paired, but has no row in interaction_matrix" % t)
for (a, b), n in sorted(undefined.items()):
    bad.append("program looked up interaction_matrix(%r, %r) %d time(s) -> None "
               "(reverse look-up -> %r)" % (a, b, n, p.interaction_matrix.get_value(b, a)))

if bad:
    print("VIOLATION: interaction type undefined for a pair of created group types")
    for b in bad:
        print("  " + b)
    sys.exit(1)
print("ok: every looked-up pair has a defined interaction type")
sys.exit(0)
