import io, logging, sys, itertools
import propka.run as run
logging.disable(logging.CRITICAL)
def check(m):
    bad=[]
    for n,c in m.conformations.items():
        for g in c.groups:
            if g.atom.cysteine_bridge: continue
            if n!='AVR' and g.type in('BBN','BBC'): continue
            s=g.model_pka+g.energy_volume+g.energy_local+sum(d.value for t in g.determinants.values() for d in t)
            if abs(s-g.pka_value)>1e-6: bad.append((n,g.label,g.type,round(g.pka_value,3),round(s,3)))
    return bad
