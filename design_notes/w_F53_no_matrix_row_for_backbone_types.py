"""C18 hunt 2: the shipped interaction matrix has no entry for the two group
types the program creates most often - the backbone groups BBN and BBC.

"The shipped parameter file defines an interaction type for every pair of
group types the program can create."

The set of group types is not taken from a hand-written list: three of the
shipped test structures (a protein with a ligand, one with two ligand copies,
one with ions/alt-locs) are run through the unchanged program and the type of
every group object it creates is collected.  For every pair of those types
(both orders) the interaction type is looked up in the table read from the
shipped propka.cfg; a defined entry is one of 'I', 'N', '-'.

exit 1: at least one pair of created group types has no interaction type;
exit 0: every pair is defined.
"""
import itertools
import logging
import os
import sys
from pathlib import Path

logging.disable(logging.CRITICAL)

import propka
from propka.run import single

pdb_dir = Path(propka.__file__).parent.parent / "tests" / "pdb"
structures = ["1HPX.pdb", "4DFR.pdb", "3SGB.pdb", "1FTJ-Chain-A.pdb"]

created = {}          # group type -> number of group objects
parameters = None
devnull = open(os.devnull, "w")
for name in structures:
    stdout, sys.stdout = sys.stdout, devnull
    try:
        mol = single(str(pdb_dir / name), ["-q"], write_pka=False)
    finally:
        sys.stdout = stdout
    parameters = mol.version.parameters
    for conf_name in mol.conformation_names:
        for group in mol.conformations[conf_name].groups:
            created[group.type] = created.get(group.type, 0) + 1

print("group types created by the program (number of groups):")
print("  " + ", ".join("{0}:{1}".format(t, n)
                       for t, n in sorted(created.items())))

matrix = parameters.interaction_matrix
undefined = []
asymmetric = []
for a, b in itertools.product(sorted(created), repeat=2):
    ab = matrix.get_value(a, b)
    ba = matrix.get_value(b, a)
    if ab != ba:
        asymmetric.append((a, b, ab, ba))
    if ab not in ("I", "N", "-"):
        undefined.append((a, b, ab))

rows = set(matrix.keys())
missing_rows = sorted(set(created) - rows)
print("created group types without a row in interaction_matrix:",
      missing_rows)
print("pairs of created types without an interaction type: {0} of {1}".format(
    len(undefined), len(created) ** 2))
for a, b, val in undefined[:6]:
    print("   interaction_matrix.get_value({0!r}, {1!r}) -> {2!r}".format(
        a, b, val))
if len(undefined) > 6:
    print("   ...")
for t in missing_rows:
    try:
        matrix[t]
    except KeyError as err:
        print("   interaction_matrix[{0!r}] -> KeyError: {1}".format(
            t, err.args[0]))

if undefined or asymmetric:
    print("\nVIOLATION: the shipped propka.cfg defines no interaction type "
          "for pairs involving " + ", ".join(missing_rows) +
          " ({0} groups of these types were created).".format(
              sum(created[t] for t in missing_rows)))
    sys.exit(1)
print("every pair of created group types has an interaction type")
sys.exit(0)
