#!/usr/bin/env python
"""C17 / hunt3: hydrogens on elements that are not in the X-H table are built
at a made-up 1.000 A (and metal ions receive hydrogens at all).

Protonate.bond_lengths tabulates C, N, O, F, Cl, Br, I and S only.
Protonate.set_bond_distance() falls back to "dist = 1.0" for every other
element, but protonate_atom() happily protonates every element of the periodic
table according to the octet count.

Case 1 (default options): a free selenocysteine (PDB component SEC, HETATM).
        SE has one neighbour -> 8-6-1 = 1 proton, built 1.000 A from SE
        (Se-H is 1.46 A; even S-H is tabulated as 1.35 A).
Case 2 (--protonate-all, bundled test file 1FTJ-Chain-A.pdb): the zinc ion
        ZN 269 A receives THREE hydrogens at 1.000 A (ZnH3).

Correct behaviour (exit 0): every hydrogen the program adds sits on an element
that has a tabulated X-H length, at that length (+- 0.002 A for the
three-decimal rounding); the Se-H length is a selenium value, i.e. longer than
the tabulated S-H length.
exit 1 otherwise.
"""
import io
import logging
import math
import os
import sys

import propka
from propka.lib import loadOptions
from propka.parameters import Parameters
from propka.input import read_parameter_file, read_molecule_file
from propka.molecular_container import MolecularContainer
from propka.protonate import Protonate

logging.getLogger('propka').setLevel(logging.ERROR)

PDBDIR = os.path.join(os.path.dirname(os.path.abspath(propka.__file__)),
                      '..', 'tests', 'pdb')

SEC = (
    "HETATM    1  N   SEC S 500      74.244  86.753  95.306  1.00 20.00\n"
    "HETATM    2  CA  SEC S 500      74.219  85.815  94.198  1.00 20.00\n"
    "HETATM    3  C   SEC S 500      73.101  86.213  93.238  1.00 20.00\n"
    "HETATM    4  O   SEC S 500      71.981  86.557  93.708  1.00 20.00\n"
    "HETATM    5  OXT SEC S 500      73.292  86.198  92.003  1.00 20.00\n"
    "HETATM    6  CB  SEC S 500      73.805  84.381  94.665  1.00 20.00\n"
    "HETATM    7 SE   SEC S 500      75.168  83.639  95.846  1.00 20.00\n")


def load(text, opts=()):
    options = loadOptions([*opts, '-q', 'x.pdb'])
    parameters = read_parameter_file(options.parameters, Parameters())
    mol = MolecularContainer(parameters, options)
    return read_molecule_file('x.pdb', mol, stream=io.StringIO(text))


def check(label, mol):
    """All added hydrogens against the table of the builder."""
    table = Protonate().bond_lengths
    bad = 0
    n_h = 0
    for name in mol.conformation_names:
        for atom in mol.conformations[name].atoms:
            if atom.element != 'H':
                continue
            n_h += 1
            parent = atom.bonded_atoms[0]
            d = math.dist((atom.x, atom.y, atom.z),
                          (parent.x, parent.y, parent.z))
            want = table.get(parent.element)
            if want is None:
                print('%s: VIOLATION hydrogen %-4s on %s %s%d (element %s): '
                      'no tabulated %s-H length, built at %.3f A'
                      % (label, atom.name, parent.name, parent.res_name,
                         parent.res_num, parent.element, parent.element, d))
                bad += 1
            elif abs(d - want) > 0.002:
                print('%s: VIOLATION hydrogen %-4s on %s: %.3f A, table %.3f'
                      % (label, atom.name, parent.name, d, want))
                bad += 1
    print('%s: %d hydrogens added, %d not at a tabulated length'
          % (label, n_h, bad))
    return bad


with open(os.path.join(PDBDIR, '3SGB-subset.pdb')) as handle:
    protein = ''.join(line for line in handle
                      if line.startswith(('ATOM', 'TER')))
total = check('case 1 (3SGB-subset + SEC, default)', load(protein + SEC))

table = Protonate().bond_lengths
if 'Se' in table and not table['Se'] > table['S']:
    print('VIOLATION: tabulated Se-H %.2f is not longer than S-H %.2f'
          % (table['Se'], table['S']))
    total += 1

with open(os.path.join(PDBDIR, '1FTJ-Chain-A.pdb')) as handle:
    total += check('case 2 (1FTJ-Chain-A, --protonate-all)',
                   load(handle.read(), ['--protonate-all']))

sys.exit(1 if total else 0)
