import io, logging
import propka.run as run
logging.disable(logging.CRITICAL)
src=open('/repo/tests/pdb/1FTJ-Chain-A.pdb').read().splitlines()
atoms=[l for l in src if l.startswith(('ATOM  ','HETATM'))]
# take first 3 residues as chain A (add OXT on last), next residues as chain B starting at same number as last of A
import collections
res=collections.OrderedDict()
for l in atoms:
    res.setdefault(l[22:27],[]).append(l)
keys=list(res)
def relabel(lines, chain, num):
    return [l[:21]+chain+"%4d"%num+l[26:] for l in lines]
A=[]
for i,k in enumerate(keys[:3]): A+=relabel(res[k],'A',i+1)
# OXT for last residue of A: copy O line renamed OXT shifted
o=[l for l in A if l[12:16]==' O  ' and int(l[22:26])==3][0]
oxt=o[:12]+' OXT'+o[16:30]+"%8.3f"%(float(o[30:38])+1.5)+o[38:]
A.append(oxt)
for startnum in (3,4):
    B=[]
    for i,k in enumerate(keys[10:14]): B+=relabel(res[k],'B',startnum+i)
    for ter in (True,False):
        txt="\n".join(A+(['TER']if ter else[])+B+['END'])+"\n"
        m=run.single('x.pdb',stream=io.StringIO(txt),write_pka=False)
        print('B starts at',startnum,'TER' if ter else 'noTER',[g.label for g in m.conformations['AVR'].groups if g.residue_type in('N+','C-')])
