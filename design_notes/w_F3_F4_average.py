import io, logging
import propka.run as run
logging.disable(logging.CRITICAL)
def pdb(first, second):
    head="""ATOM      1  N   GLY     1       2.037  -0.982   0.836  1.00  0.00           N  
ATOM      2  CA  GLY     1       3.462  -0.865   0.540  1.00  0.00           C  
ATOM      3  C   GLY     1       4.291  -1.573   1.584  1.00  0.00           C  
ATOM      4  O   GLY     1       3.777  -2.158   2.541  1.00  0.00           O  
"""
    asp="""ATOM      5  N  {a}ASP     2       5.576  -1.566   1.473  1.00  0.00           N  
ATOM      6  CA {a}ASP     2       6.377  -2.251   2.483  1.00  0.00           C  
ATOM      7  C  {a}ASP     2       7.852  -2.130   2.177  1.00  0.00           C  
ATOM      8  O  {a}ASP     2       8.265  -1.521   1.190  1.00  0.00           O  
ATOM      9  CB {a}ASP     2       5.943  -3.732   2.620  1.00  0.00           C  
ATOM     10  CG {a}ASP     2       6.285  -4.520   1.374  1.00  0.00           C  
ATOM     10  OD1{a}ASP     2       7.385  -4.420   0.774  1.00  0.00           O  
ATOM     10  OD2{a}ASP     2       5.385  -5.320   0.974  1.00  0.00           O  
"""
    val="""ATOM     11  N  {a}VAL     2       5.577  -1.568   1.470  1.00  0.00           N  
ATOM     12  CA {a}VAL     2       6.380  -2.234   2.491  1.00  0.00           C  
ATOM     13  C  {a}VAL     2       7.853  -2.130   2.173  1.00  0.00           C  
ATOM     14  O  {a}VAL     2       8.265  -1.521   1.190  1.00  0.00           O  
ATOM     15  CB {a}VAL     2       5.939  -3.746   2.618  1.00  0.00           C  
ATOM     16  CG1{a}VAL     2       5.960  -4.584   1.310  1.00  0.00           C  
ATOM     17  CG2{a}VAL     2       6.774  -4.559   3.636  1.00  0.00           C  
"""
    tail="""ATOM     18  N   GLY     3       8.703  -2.681   2.974  1.00  0.00           N  
ATOM     19  CA  GLY     3      10.128  -2.564   2.677  1.00  0.00           C  
ATOM     20  C   GLY     3      10.957  -3.272   3.721  1.00  0.00           C  
ATOM     21  O   GLY     3      10.444  -3.857   4.678  1.00  0.00           O  
TER   
END
"""
    d={'asp':asp,'val':val}
    return head+d[first].format(a='A')+d[second].format(a='B')+tail
for order in (('asp','val'),('val','asp')):
    m=run.single('x.pdb',stream=io.StringIO(pdb(*order)),write_pka=False)
    print(order, m.conformation_names)
    for n in m.conformation_names+['AVR']:
        print('  ',n,[(g.label,round(g.pka_value,3)) for g in m.conformations[n].groups if g.use_in_calculations()])
