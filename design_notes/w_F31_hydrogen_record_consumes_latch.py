#!/usr/bin/env python
"""C07 hunt 2: hydrogen records that are going to be discarded still steer the
N-terminus bookkeeping of the PDB reader.

Clause: "hydrogen atoms present in the input (unless keep-protons is
requested) ... have no effect on any reported value"
(quantified over all insertions/removals of hydrogens).

Both cases use tests/pdb/1HPX.pdb (protein part only: chains A and B,
each PRO 1 ... PHE 99 with OXT and TER), default options,
no --keep-protons.  The hydrogens that are inserted are the program's own
hydrogens (taken from a default run), so they are perfectly reasonable atoms.

 case A: ONE backbone amide hydrogen of residue B 2 is listed in front of the
         first residue of chain B (B 1), i.e. directly after the TER record.
 case B: the TER records are left out (the chains still end with OXT, which
         the reader accepts as a chain end) and the hydrogens of chain A are
         listed behind the heavy atoms of chain A, the way tools that append
         the hydrogens they add write them.

In both cases the run with the hydrogen records must give exactly the result
of the run without them.  Exit 1 = it does not.
"""
import io
import logging
import sys

logging.disable(logging.CRITICAL)
import propka.run  # noqa: E402

SRC = '/repo/tests/pdb/1HPX.pdb'


def run(text, opts=()):
    mol = propka.run.single('x.pdb', optargs=list(opts) + ['-q'],
                            stream=io.StringIO(text), write_pka=False)
    res = {g.label: round(g.pka_value, 2)
           for g in mol.conformations['AVR'].groups}
    return mol, res


def compare(tag, base, var):
    keys = sorted(set(base) | set(var))
    diffs = [(k, base.get(k), var.get(k)) for k in keys
             if base.get(k) != var.get(k)]
    print('--- %s: %d reported group(s) differ' % (tag, len(diffs)))
    for k, a, b in diffs:
        print('   %-10s without H records: %-8s with H records: %s' % (k, a, b))
    return len(diffs)


def main():
    lines = [l for l in open(SRC) if l[:6] in ('ATOM  ', 'TER   ')]
    mol, base = run(''.join(lines))
    # the program's own hydrogens, as PDB records
    hyd = [a for a in mol.conformations['1A'].atoms if a.element == 'H']
    h_b2 = [a.make_pdb_line() for a in hyd
            if a.chain_id == 'B' and a.res_num == 2 and a.name == 'H']
    assert len(h_b2) == 1, h_b2
    h_chain_a = [a.make_pdb_line() for a in hyd if a.chain_id == 'A']
    bad = 0

    # case A ---------------------------------------------------------------
    first_b = next(i for i, l in enumerate(lines)
                   if l[:6] == 'ATOM  ' and l[21] == 'B')
    var = lines[:first_b] + h_b2 + lines[first_b:]
    print('inserted record (case A):', h_b2[0].rstrip())
    _, res = run(''.join(var))
    bad += compare('case A (one amide H of B 2 listed before residue B 1)',
                   base, res)

    # case B ---------------------------------------------------------------
    no_ter = [l for l in lines if l[:6] == 'ATOM  ']
    _, base_b = run(''.join(no_ter))
    last_a = max(i for i, l in enumerate(no_ter) if l[21] == 'A')
    var_b = no_ter[:last_a + 1] + h_chain_a + no_ter[last_a + 1:]
    _, res_b = run(''.join(var_b))
    bad += compare('case B (no TER; %d hydrogens of chain A appended to '
                   'chain A)' % len(h_chain_a), base_b, res_b)

    if bad:
        print('VIOLATION: discarded hydrogen records changed the result')
        return 1
    print('ok: hydrogen records had no effect')
    return 0


if __name__ == '__main__':
    sys.exit(main())
