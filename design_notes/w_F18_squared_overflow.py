"""C18 hunt 3: for a large (but perfectly representable) plain cut-off the squared
cut-off is not the square of the plain one: reading it raises OverflowError.

Clause: "each squared distance cut-off always equals the square of the plain
one" (quantified over all parameter files / scalar settings).

parameters.squared_property.__get__ computes  plain**2 ; float.__pow__ raises
OverflowError when the result exceeds the double range, whereas the square
(plain*plain) is +inf, for which every 'sq_dist < cutoff_squared' test in
energy.py / determinants.py would simply be true ("no cut-off").
A parameter file that switches a cut-off off with e.g. 'desolv_cutoff 1e200'
therefore crashes the whole run, while 'desolv_cutoff 1e150' or
'desolv_cutoff inf' work.

exit 1 = violation shown, exit 0 = behaviour correct.
"""
import logging
import os
import shutil
import sys
import tempfile

logging.disable(logging.CRITICAL)

import propka
import propka.run as run
from propka.parameters import Parameters

bad = []

# ---------------- Part A: the table itself ------------------------------------
NAMES = ['desolv_cutoff', 'buried_cutoff', 'coulomb_cutoff1', 'coulomb_cutoff2']
for value in ['15.0', '1e150', 'inf', '1e155', '1e200', '1.7e308']:
    for name in NAMES:
        p = Parameters()
        p.parse_line("%s %s" % (name, value))
        plain = getattr(p, name)
        expected = plain * plain            # the square of the plain cut-off
        try:
            got = getattr(p, name + '_squared')
        except Exception as err:            # noqa
            bad.append("%s %s: plain=%r, square=%r, but %s_squared raises %s: %s"
                       % (name, value, plain, expected, name,
                          type(err).__name__, err))
            continue
        if got != expected:
            bad.append("%s %s: %s_squared=%r != %r" % (name, value, name, got, expected))

# ---------------- Part B: a complete run --------------------------------------
cfg = os.path.join(os.path.dirname(propka.__file__), 'propka.cfg')
pdb = '/repo/tests/pdb/conf-model-mutant.pdb'
cwd = os.getcwd()
with tempfile.TemporaryDirectory() as tmp:
    os.chdir(tmp)
    try:
        for value in ['1e150', '1e200']:
            mycfg = os.path.join(tmp, 'big_%s.cfg' % value)
            shutil.copy(cfg, mycfg)
            with open(mycfg, 'a') as handle:
                handle.write("\n# effectively no desolvation cut-off\n"
                             "desolv_cutoff %s\n" % value)
            try:
                mol = run.single(pdb, optargs=['-q', '-p', mycfg], write_pka=False)
                n = len(mol.conformations['AVR'].groups)
                print("run with desolv_cutoff %s: ok (%d groups)" % (value, n))
            except Exception as err:        # noqa
                bad.append("run with 'desolv_cutoff %s' crashed: %s: %s"
                           % (value, type(err).__name__, err))
    finally:
        os.chdir(cwd)

if bad:
    print("VIOLATION: squared cut-off is not the square of the plain cut-off")
    for b in bad:
        print("  " + b)
    sys.exit(1)
print("ok: squared cut-offs equal the squares of the plain ones")
sys.exit(0)
