"""C09 hunt 1: a titratable group's charge INCREASES with pH (by one unit in
the last place) for many neighbouring pH values.

Clause: "At every pH each titratable group's charge ... never increases with pH".

Group.calculate_charge() evaluates  charge * (r / (1.0 + r))  with
r = 10**(charge*(pKa - pH)).  In floating point numerator and denominator are
rounded independently, so the quotient is not a monotone function of r: for
roughly one pH in 2000 the charge at the next representable pH is LARGER than
at the pH itself.  The mathematically identical form  charge / (1 + 1/r)  is a
chain of monotone operations and never does this.

Exit 1 = violation shown, exit 0 = charge never increased.
"""
import logging
import math
import sys

import propka.run as run

logging.getLogger().setLevel(logging.ERROR)
PDB = '/repo/tests/pdb/3SGB-subset.pdb'

mol = run.single(PDB, optargs=['-q'], write_pka=False)
groups = mol.conformations['AVR'].get_titratable_groups()

witnesses = []
pairs = 0
for group in groups:
    for state, pka in (('unfolded', group.model_pka),
                       ('folded', group.pka_value)):
        # scan the window in which the group actually titrates
        for i in range(-3000, 3001):
            ph = pka + i * 0.001
            ph_up = math.nextafter(ph, math.inf)      # ph_up > ph
            q_lo = group.calculate_charge(None, ph=ph, state=state)
            q_up = group.calculate_charge(None, ph=ph_up, state=state)
            pairs += 1
            if q_up > q_lo:
                witnesses.append((group.label, group.charge, state, pka,
                                  ph, ph_up, q_lo, q_up))

print('titratable groups: {0:d}, pH pairs tested: {1:d}'.format(
    len(groups), pairs))
print('pairs pH1 < pH2 with charge(pH2) > charge(pH1): {0:d}'.format(
    len(witnesses)))
for w in witnesses[:8]:
    print('  {0:s} q={1:+.0f} {2:8s} pKa={3!r}\n'
          '      pH1={4!r} charge={6!r}\n'
          '      pH2={5!r} charge={7!r}   (larger)'.format(*w))
if witnesses:
    print('VIOLATION: the group charge increases with pH')
    sys.exit(1)
print('ok: charge never increased with pH')
sys.exit(0)
