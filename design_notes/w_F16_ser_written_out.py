"""C18 hunt 1: the shipped parameter file lists a type in write_out_order (SER)
for which it defines NO model pKa, and the group the program actually creates
for that type (ROH, from 'protein_group_mapping SER-OG ROH') has charge 0.

Clause: "The shipped parameter file defines ... a model pKa and a non-zero
charge for every type it writes out".

Part A checks the tables of the shipped propka.cfg.
Part B shows that the entry is live: the public propka.output.write_pka()
(default conformation '1A') really writes SER rows with pKa 0.00 / model-pKa
0.00, whereas the chemically identical THR hydroxyls are not written.

exit 1 = violation shown, exit 0 = behaviour correct.
"""
import logging
import os
import sys
import tempfile

logging.disable(logging.CRITICAL)

from propka.parameters import Parameters
from propka.input import read_parameter_file
import propka.run as run
from propka.output import write_pka

bad = []

# ---------------- Part A: the shipped tables ---------------------------------
p = read_parameter_file('propka.cfg', Parameters())

# residue_type -> group type(s) the program creates for it under the shipped file
creates = {}
for key, gtype in p.protein_group_mapping.items():
    creates.setdefault(key.split('-')[0], set()).add(gtype)
creates['N+'] = {'N+'}      # NtermGroup
creates['C-'] = {'COO'}     # CtermGroup ("COO-C- parameter unification")

for rtype in p.write_out_order:
    gtypes = creates.get(rtype, {rtype})   # ligand groups: residue_type == type
    pka = p.model_pkas.get(rtype)
    charges = {g: p.charge.get(g, 0) for g in gtypes}
    if pka is None or any(c == 0 for c in charges.values()):
        bad.append("table: write_out_order %-3s  model_pka=%s  created group type/charge=%s"
                   % (rtype, pka, charges))

# ---------------- Part B: it is really written out ---------------------------
pdb = '/repo/tests/pdb/1HPX.pdb'
cwd = os.getcwd()
with tempfile.TemporaryDirectory() as tmp:
    os.chdir(tmp)
    try:
        mol = run.single(pdb, optargs=['-q'], write_pka=False)
        out = os.path.join(tmp, 'default_conformation.pka')
        # public API, all defaults (conformation='1A')
        write_pka(mol, mol.version.parameters, filename=out)
        text = open(out).read()
    finally:
        os.chdir(cwd)

summary = text[text.index('SUMMARY OF THIS PREDICTION'):]
summary = summary[:summary.index('-----')]
# same selection as propka.output.get_summary_section
for g in mol.conformations['1A'].groups:
    if g.residue_type not in p.write_out_order:
        continue
    if g.get_summary_string(p.remove_penalised_group) not in summary:
        continue    # not actually written
    if g.residue_type not in p.model_pkas or g.charge == 0:
        bad.append("written row %r: residue_type=%s group type=%s charge=%s "
                   "model_pka=%s titratable=%s"
                   % (g.get_summary_string().rstrip(), g.residue_type, g.type,
                      g.charge, g.model_pka, g.titratable))

if bad:
    print("VIOLATION: a type that is written out has no model pKa / zero charge")
    for b in bad:
        print("  " + b)
    sys.exit(1)
print("ok: every written-out type has a model pKa and a non-zero charge")
sys.exit(0)
