#!/usr/bin/env python
"""C04 counterexample 1: desolvation term / group centre of a C-terminus depends
on where the structure sits in space (pure translation, heavy atoms only).

Input: tests/pdb/sample-issue-140.pdb (shipped with propka, 68 ATOM records, no
hydrogens, no hetero atoms, no insertion codes).  Its last residue VAL F 284
has OXT 1.976 A from CA, so the distance-only bond search bonds OXT to both C
and CA.  CtermGroup.setup_atoms() takes `the_carbons[0]`, and the ORDER of
OXT.bonded_atoms is decided by the traversal of the 2.51 A bonding boxes, i.e.
by floor(x/2.51) of the atoms -> by the position of the molecule in space.

Exit status 1 = violation shown, 0 = behaviour correct.
"""
import contextlib
import io
import itertools
import logging
import sys
from decimal import Decimal

logging.disable(logging.CRITICAL)
import propka.run  # noqa: E402

PDB = '/repo/tests/pdb/sample-issue-140.pdb'


def rotations():
    res = []
    for perm in itertools.permutations(range(3)):
        for signs in itertools.product([1, -1], repeat=3):
            m = [[0] * 3 for _ in range(3)]
            for i in range(3):
                m[i][perm[i]] = signs[i]
            det = (m[0][0] * (m[1][1] * m[2][2] - m[1][2] * m[2][1])
                   - m[0][1] * (m[1][0] * m[2][2] - m[1][2] * m[2][0])
                   + m[0][2] * (m[1][0] * m[2][1] - m[1][1] * m[2][0]))
            if det == 1:
                res.append((perm, signs))
    return res


def transform(text, rot=((0, 1, 2), (1, 1, 1)), trans=('0', '0', '0')):
    """exact (decimal) rigid motion of all ATOM/HETATM records"""
    perm, signs = rot
    out = []
    for line in text.splitlines():
        if line[:6] in ('ATOM  ', 'HETATM'):
            c = [Decimal(line[30:38].strip()), Decimal(line[38:46].strip()),
                 Decimal(line[46:54].strip())]
            n = [signs[i] * c[perm[i]] + Decimal(trans[i]) for i in range(3)]
            s = ''.join('{:8.3f}'.format(v) for v in n)
            assert len(s) == 24
            line = line[:30] + s + line[54:]
        out.append(line)
    return '\n'.join(out) + '\n'


def heavy_atom_results(text):
    with contextlib.redirect_stdout(io.StringIO()):
        mol = propka.run.single('x.pdb', stream=io.StringIO(text),
                                write_pka=False)
    conf = mol.conformations['1A']
    res = {}
    for g in conf.groups:
        if g.type in ('BBN', 'BBC'):
            continue
        res[(g.label, g.type)] = dict(
            Nvol=g.num_volume, buried=round(g.buried, 9),
            desolv=round(g.energy_volume, 6), pKa=round(g.pka_value, 4),
            centre_atoms=sorted(a.name for a in g.interaction_atoms_for_acids
                                if a.element != 'H'))
    # bonds of the offending atom, in list order
    oxt = [a for a in conf.atoms if a.name == 'OXT'][0]
    return res, [a.name for a in oxt.bonded_atoms]


def main():
    text = open(PDB).read()
    ref, ref_order = heavy_atom_results(text)
    print('reference frame: OXT.bonded_atoms =', ref_order)
    print('   C-  284 F :', ref[('C-  284 F', 'COO')])
    bad = 0
    motions = [(((0, 1, 2), (1, 1, 1)), t) for t in
               [('1', '0', '0'), ('-1', '0', '0'), ('0', '1', '0'),
                ('0.001', '0', '0'), ('37.123', '-5.5', '12')]]
    motions += [(r, ('0', '0', '0')) for r in rotations()[1:]]
    motions += [(r, ('0.5', '1.25', '-0.75')) for r in rotations()[1:]]
    for rot, trans in motions:
        new, order = heavy_atom_results(transform(text, rot, trans))
        for key in ref:
            if new.get(key) != ref[key]:
                bad += 1
                print('VIOLATION rot=%s trans=%s: OXT.bonded_atoms=%s' %
                      (rot, trans, order))
                print('   %s: %s' % (key, new.get(key)))
    if bad:
        print('%d frame(s) changed a heavy-atom-only result '
              '(desolvation term / centre / pKa).' % bad)
        sys.exit(1)
    print('all frames agree')
    sys.exit(0)


if __name__ == '__main__':
    main()
