"""C13 hunt 1: chain selection given as a one-shot iterable (declared type
Iterable[str]) does not equal deleting the other chains from the file.

get_atom_lines_from_pdb(chains=...) is annotated Optional[Iterable[str]], and
Options.chains is just forwarded to it by read_pdb.  The membership test
`line[21] not in chains` is executed once per ATOM/HETATM line, so an iterator
(generator, iter(list), filter/map object, dict view iterator ...) is consumed
by the first line(s) and every later line of a *selected* chain is dropped.
Exit 1 = violation reproduced, exit 0 = behaviour correct.
"""
import io
import logging
import sys

import propka.run as run
from propka.input import get_atom_lines_from_pdb, read_molecule_file, read_parameter_file
from propka.lib import loadOptions
from propka.molecular_container import MolecularContainer
from propka.parameters import Parameters

logging.disable(logging.CRITICAL)
PDB = "/repo/tests/pdb/3SGB-subset.pdb"   # chains E (1445 atoms) and I (427 atoms)
TEXT = open(PDB).read()


def delete_other_chains(text, keep):
    return "".join(l for l in text.splitlines(True)
                   if not (l[:6] in ("ATOM  ", "HETATM") and l[21] not in keep))


def atom_sig(text, chains):
    return [(conf, a.numb, a.name, a.res_name, a.chain_id, a.res_num, a.terminal)
            for conf, a in get_atom_lines_from_pdb(io.StringIO(text), chains=chains)]


def pkas(text, chains):
    """Full pipeline with options.chains set programmatically."""
    options = loadOptions(["x.pdb"])
    options.chains = chains
    params = read_parameter_file(options.parameters, Parameters())
    mol = MolecularContainer(params, options)
    try:
        mol = read_molecule_file("x.pdb", mol, stream=io.StringIO(text))
        mol.calculate_pka()
    except Exception as err:            # noqa
        return "EXC %s: %s" % (type(err).__name__, err)
    return [(g.label, round(g.pka_value, 2))
            for g in mol.conformations["AVR"].groups if g.titratable]


bad = 0
cases = [
    ("iter(['I'])", lambda: iter(["I"]), ["I"]),
    ("generator over 'EI'", lambda: (c for c in "EI"), ["E", "I"]),
    ("filter object ['I']", lambda: filter(None, ["I"]), ["I"]),
    ("dict keys iterator {'E','I'}", lambda: iter({"E": 1, "I": 2}), ["E", "I"]),
]
for label, make, keep in cases:
    want = atom_sig(delete_other_chains(TEXT, keep), None)
    got = atom_sig(TEXT, make())
    ok_list = atom_sig(TEXT, list(keep))        # a list works
    assert ok_list == want
    if got != want:
        bad += 1
        print("VIOLATION [%s]: selecting chains %r yields %d atoms, deleting the other "
              "chains from the file yields %d atoms" % (label, keep, len(got), len(want)))

# full pipeline: the silent variant (both chains 'selected', one atom survives)
want = pkas(delete_other_chains(TEXT, ["I"]), None)
got = pkas(TEXT, iter(["I"]))
if got != want:
    bad += 1
    print("VIOLATION [pipeline, options.chains=iter(['I'])]:")
    print("   selected :", got if isinstance(got, str) else got[:4])
    print("   deleted  :", want if isinstance(want, str) else want[:4], "... (%d groups)" % len(want))
want = pkas(TEXT, None)
got = pkas(TEXT, (c for c in "EI"))
if got != want:
    bad += 1
    print("VIOLATION [pipeline, options.chains=(c for c in 'EI')]: silently computes on a truncated structure")
    print("   selected :", got if isinstance(got, str) else (got[:4], len(got)))
    print("   deleted  :", (want[:4], "... %d groups" % len(want)))

sys.exit(1 if bad else 0)
