"""C19 hunt 1: a minus sign in front of a base-36 (letter-first) body is accepted.

Hybrid-36: a field is either a (possibly negative) DECIMAL number, or an
upper-case base-36 string, or a lower-case base-36 string.  '-' is legal only
in the decimal form; in a letter field it is an illegal character, so e.g. the
width-5 field '-A000' is malformed and must be rejected with ValueError.
propka.hybrid36.decode strips the sign first and then decodes the rest, so it
returns values that no width-5 field can represent (below -9999).
Exit 1 if any such malformed field is accepted, 0 otherwise.
"""
import itertools
import string
import sys

from propka.hybrid36 import decode

D, U, L = string.digits, string.ascii_uppercase, string.ascii_lowercase
LOW = {1: 0, 2: -9, 3: -99, 4: -999, 5: -9999}   # smallest representable value

accepted = []
for width in range(2, 6):
    body_len = width - 1
    for first_set, rest_set in ((U, D + U), (L, D + L)):
        # all bodies for short widths, a systematic sample for the longer ones
        if body_len <= 2:
            bodies = (f + ''.join(r) for f in first_set
                      for r in itertools.product(rest_set, repeat=body_len - 1))
        else:
            ends = (rest_set[0], rest_set[9], rest_set[10], rest_set[-1])
            bodies = (f + ''.join(r) for f in first_set
                      for r in itertools.product(ends, repeat=body_len - 1))
        for body in bodies:
            field = '-' + body
            for cand in sorted({field, field.rjust(5)}, reverse=True):
                try:
                    value = decode(cand)
                except ValueError:
                    continue
                accepted.append((width, cand, value))

if accepted:
    print("malformed fields (minus sign + base-36 body) ACCEPTED: %d cases"
          % len(accepted))
    shown = 0
    for width, cand, value in accepted:
        if cand in ('-A', '-z', '-A0', '-zz', '-A00', '-zzz', '-A000', '-zzzz'):
            note = ''
            if value < LOW[width]:
                note = ('  <-- below %d, the smallest value a width-%d field '
                        'can hold' % (LOW[width], width))
            print("  width %d  decode(%r) = %d%s" % (width, cand, value, note))
            shown += 1
    # the accepted malformed field collides with / leaves the legal range
    print("  decode('-A000') = %d but the legal width-5 range is "
          "-9999 .. 87440031" % decode('-A000'))
    sys.exit(1)
print("all sign+letter fields rejected")
sys.exit(0)
