import io, logging, collections
import propka.run as run
logging.disable(logging.CRITICAL)
src=open('/repo/tests/pdb/1FTJ-Chain-A.pdb').read().splitlines()
atoms=[l for l in src if l.startswith(('ATOM  ','HETATM','TER'))]
res=collections.OrderedDict()
for l in atoms:
    if l.startswith('TER'): continue
    res.setdefault(l[22:27],[]).append(l)
keys=list(res)
names=[res[k][0][17:20] for k in keys]
# find consecutive pairs of same titratable type
pairs=[(i,names[i]) for i in range(len(keys)-1) if names[i]==names[i+1] and names[i] in('ASP','GLU','LYS','ARG','HIS','TYR','CYS')]
print('same-type consecutive:',pairs[:5])
def build(twin_index):
    out=[]
    for i,k in enumerate(keys):
        for l in res[k]:
            if i==twin_index+1:
                # give it the number of previous residue with icode A
                prev=res[keys[twin_index]][0][22:26]
                l=l[:22]+prev+'A'+l[27:]
            out.append(l)
    return "\n".join(out+['TER','END'])+"\n"
def rec(m):
    return [(round(g.pka_value,2), round(g.energy_volume,2)) for g in m.conformations['AVR'].groups]
base=run.single('x.pdb',stream=io.StringIO("\n".join(atoms+['END'])+"\n"),write_pka=False)
b=rec(base)
# twin at an ASP/any residue
for ti in [pairs[0][0] if pairs else 5, 20]:
    m=run.single('x.pdb',stream=io.StringIO(build(ti)),write_pka=False)
    r=rec(m)
    print('twin at',ti,names[ti],names[ti+1],'ngroups',len(b),len(r),'diffs',[(i,x,y) for i,(x,y) in enumerate(zip(b,r)) if x!=y][:6])
print('----')
m=run.single('x.pdb',stream=io.StringIO(build(16)),write_pka=False)
for n in ('1A','AVR'):
    print(n,[(g.label,g.atom.icode,round(g.pka_value,4),round(g.energy_volume,4)) for g in m.conformations[n].groups if g.label.startswith('LYS') and g.atom.res_num in (int(res[keys[16]][0][22:26]),)])
print('base',[(g.label,round(g.pka_value,4),round(g.energy_volume,4)) for g in base.conformations['AVR'].groups if g.label.startswith('LYS')][:4])
