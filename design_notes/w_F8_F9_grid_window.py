import io, logging
import propka.run as run
from propka.output import get_folding_profile_section, get_charge_profile_section
logging.disable(logging.CRITICAL)
for opts in (['-w','0','14','2'],['-w','0','14','0.5'],['-g','0','14','0.05','-w','0','14','1'],['-g','0','14','0.05']):
    m=run.single('/repo/tests/pdb/1FTJ-Chain-A.pdb',optargs=opts,write_pka=False)
    s=get_folding_profile_section(m,conformation='AVR',window=m.options.window)
    rows=[l.split()[0] for l in s.splitlines() if len(l.split())==2 and l.split()[0].replace('.','').isdigit()]
    print(opts,len(rows),rows[:14],rows[-3:])
    c=get_charge_profile_section(m,conformation='AVR')
    crow=[l.split()[0] for l in c.splitlines() if len(l.split())==3 and l.split()[0].replace('.','').isdigit()]
    print('   charge rows',len(crow),crow[-2:])
