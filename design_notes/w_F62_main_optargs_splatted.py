"""C12, clause 2, through the Python entry point propka.run.main(optargs).

"Input without any atom records, or with an unknown file type, is rejected
with ValueError rather than any other failure."

propka.run.main() is the function behind the propka3 command; it has an
`optargs` parameter so that it can be driven from Python instead of sys.argv.
Passing the arguments that the command line would pass must give the same
ValueError that the command line gives (run `propka3 x.xyz` / `propka3
empty.pdb`: ValueError).  On the unchanged code the list is splatted into
loadOptions(), so the input never even reaches the file-type check.

exit 1 = violation shown, exit 0 = behaviour correct.
"""
import logging
import os
import sys
import tempfile

import propka.run

logging.disable(logging.CRITICAL)
os.chdir(tempfile.mkdtemp())
with open("empty.pdb", "w") as handle:          # no atom records at all
    handle.write("HEADER    NOTHING HERE\nEND\n")
with open("mol.xyz", "w") as handle:            # unknown file type
    handle.write("1\n\nC 0.0 0.0 0.0\n")

CASES = [
    ("unknown file type", ["mol.xyz"]),
    ("unknown file type, with an option", ["--quiet", "mol.xyz"]),
    ("no atom records", ["empty.pdb"]),
    ("no atom records, with an option", ["--quiet", "empty.pdb"]),
]


def outcome(call):
    try:
        call()
    except ValueError as err:
        return "ValueError", str(err)
    except BaseException as err:  # SystemExit, TypeError, ...
        return type(err).__name__, str(err)
    return "no error", ""


bad = 0
# reference: the very same arguments through sys.argv (the command line)
for text, args in CASES:
    sys.argv = ["propka3"] + args
    ref = outcome(propka.run.main)
    sys.stderr = open(os.devnull, "w")           # argparse usage chatter
    got = outcome(lambda: propka.run.main(args))
    sys.stderr = sys.__stderr__
    flag = "ok " if got[0] == "ValueError" else "BAD"
    if got[0] != "ValueError":
        bad += 1
    print(f"{flag} {text:36s} argv -> {ref[0]:10s} | main({args!r}) -> "
          f"{got[0]}: {got[1][:60]}")

if bad:
    print(f"\n{bad} of {len(CASES)} inputs are not rejected with ValueError "
          "when handed to propka.run.main(optargs)")
    sys.exit(1)
print("\nall rejected with ValueError")
sys.exit(0)
