"""Demo for change 1 (C08): residue types get merged when topping up.

Input: a 9-residue peptide cut from tests/pdb/1FTJ-Chain-A.pdb (213-221).
  * residue 218 is an alternate-location point mutant: altloc A = ASP, altloc B = LYS
  * SER 217 OG has three alternate locations A, B, C
So there are three conformations 1A, 1B, 1C and conformation 1C does not
contain a single atom of residue 218: it has to be completed from the others,
and it must get ONE residue type there (never a mix of ASP and LYS atoms).

Checks (property C08):
  1. in every conformation each residue (chain, number, icode) has exactly one
     residue name  ("without ever merging different residue types")
  2. LYS 218 exists in the input only in altloc B, so the reported (AVR)
     LYS 218 must be exactly what conformation 1B yields; the ASP 218 average
     must be the mean over the conformations that hold an ASP there.

Run:  cd /repo && PYTHONPATH=/repo /venv/bin/python /tmp/seed/out_C08/demo1.py
"""
import io
import logging
import math
import sys
from pathlib import Path

import propka
from propka.input import read_parameter_file, read_molecule_file
from propka.lib import loadOptions
from propka.molecular_container import MolecularContainer
from propka.parameters import Parameters

logging.disable(logging.CRITICAL)

SRC = Path(propka.__file__).resolve().parent.parent / "tests/pdb/1FTJ-Chain-A.pdb"


def fmt(name, alt, res, num, xyz, elem, serial):
    nm = name if len(name) == 4 else " " + name.ljust(3)
    return ("ATOM  {:5d} {}{}{} A{:4d}    {:8.3f}{:8.3f}{:8.3f}  1.00 20.00"
            "          {:>2s}  \n").format(serial, nm, alt, res, num, *xyz, elem)


def build_pdb():
    atoms = []  # (name, res, num, xyz, elem)
    for line in SRC.read_text().splitlines():
        if line.startswith("ATOM") and 213 <= int(line[22:26]) <= 221:
            atoms.append((line[12:16].strip(), line[17:20], int(line[22:26]),
                          (float(line[30:38]), float(line[38:46]),
                           float(line[46:54])), line[76:78].strip()))
    out, serial = [], 0
    lys = [a for a in atoms if a[2] == 218]
    pos = {a[0]: a[3] for a in lys}

    def unit(v):
        n = math.sqrt(sum(c * c for c in v))
        return tuple(c / n for c in v)

    # ASP variant of residue 218: backbone, CB, CG of the lysine, OD1 on the
    # CG->CD direction, OD2 trigonal-planar to it.
    cg, cb, cd = pos["CG"], pos["CB"], pos["CD"]
    d1 = unit(tuple(a - b for a, b in zip(cd, cg)))
    d0 = unit(tuple(a - b for a, b in zip(cb, cg)))
    d2 = unit(tuple(-(a + b) for a, b in zip(d1, d0)))
    od1 = tuple(c + 1.25 * d for c, d in zip(cg, d1))
    od2 = tuple(c + 1.25 * d for c, d in zip(cg, d2))
    asp = [(n, "ASP", 218, pos[n], e) for n, e in
           [("N", "N"), ("CA", "C"), ("C", "C"), ("O", "O"), ("CB", "C"),
            ("CG", "C")]]
    asp += [("OD1", "ASP", 218, od1, "O"), ("OD2", "ASP", 218, od2, "O")]

    for a in atoms:
        name, res, num, xyz, elem = a
        if num == 218:
            if name != "N":
                continue
            # emit the whole mutant residue once: altloc A = ASP, B = LYS
            for b in asp:
                serial += 1
                out.append(fmt(b[0], "A", b[1], 218, b[3], b[4], serial))
            for b in lys:
                serial += 1
                out.append(fmt(b[0], "B", "LYS", 218, b[3], b[4], serial))
            continue
        if num == 217 and name == "OG":
            for alt, dz in (("A", 0.0), ("B", 0.35), ("C", -0.35)):
                serial += 1
                out.append(fmt(name, alt, res, num,
                               (xyz[0], xyz[1], xyz[2] + dz), elem, serial))
            continue
        serial += 1
        out.append(fmt(name, " ", res, num, xyz, elem, serial))
    out.append("TER\nEND\n")
    return "".join(out)


def run(text):
    args = loadOptions(["demo1.pdb"])
    parameters = read_parameter_file(args.parameters, Parameters())
    mol = MolecularContainer(parameters, args)
    mol = read_molecule_file("demo1.pdb", mol, stream=io.StringIO(text))
    mol.calculate_pka()
    return mol


def main():
    mol = run(build_pdb())
    names = mol.conformation_names
    failures = []
    if names != ["1A", "1B", "1C"]:
        failures.append("unexpected conformations {}".format(names))

    # check 1: no residue with mixed residue names in any conformation
    for name in names:
        seen = {}
        for atom in mol.conformations[name].atoms:
            seen.setdefault((atom.chain_id, atom.res_num, atom.icode),
                            set()).add(atom.res_name)
        for key, res_names in sorted(seen.items()):
            if len(res_names) > 1:
                failures.append(
                    "conformation {}: residue {} mixes residue types {}".format(
                        name, key, sorted(res_names)))

    # check 2: the averages are means over the conformations that really hold
    # the group (LYS 218: only altloc B)
    def find(conf, label):
        # (backbone groups carry the same label; keep the ionizable one)
        return [g for g in mol.conformations[conf].groups
                if g.label == label and g.titratable]

    lys_holders = [n for n in names if find(n, "LYS 218 A")]
    if lys_holders != ["1B"]:
        failures.append("LYS 218 is present in conformations {} but the input "
                        "has it in altloc B only".format(lys_holders))
    avr_lys = find("AVR", "LYS 218 A")
    ref_lys = find("1B", "LYS 218 A")
    if len(avr_lys) != 1 or len(ref_lys) != 1:
        failures.append("LYS 218 not reported exactly once")
    elif abs(avr_lys[0].pka_value - ref_lys[0].pka_value) > 1e-9:
        failures.append("reported LYS 218 pKa {:.6f} != {:.6f} of its only "
                        "conformation".format(avr_lys[0].pka_value,
                                              ref_lys[0].pka_value))
    for label in ("ASP 218 A", "LYS 218 A"):
        holders = [find(n, label)[0] for n in names if find(n, label)]
        avr = find("AVR", label)
        if len(avr) != 1:
            failures.append("{} reported {} times".format(label, len(avr)))
            continue
        mean = sum(g.pka_value for g in holders) / len(holders)
        print("{}: holders={} AVR pKa={:.3f} mean={:.3f}".format(
            label, len(holders), avr[0].pka_value, mean))
        if abs(mean - avr[0].pka_value) > 1e-9:
            failures.append("{} average is not the mean".format(label))

    for name in names:
        print(name, len(mol.conformations[name].atoms), "atoms")
    if failures:
        print("PROPERTY C08 VIOLATED:")
        for f in failures:
            print("  -", f)
        return 1
    print("OK: conformations completed without merging residue types")
    return 0


if __name__ == "__main__":
    sys.exit(main())
