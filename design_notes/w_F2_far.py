import io, sys, logging
import propka.run as run
logging.disable(logging.CRITICAL)
src=open('/repo/tests/pdb/1FTJ-Chain-A.pdb').read().splitlines()
def shift(lines, dx, chain):
    out=[]
    for l in lines:
        if l.startswith(('ATOM  ','HETATM')):
            x=float(l[30:38])+dx
            l=l[:21]+chain+l[22:30]+"%8.3f"%x+l[38:]
        out.append(l)
    return out
atoms=[l for l in src if l.startswith(('ATOM  ','HETATM','TER'))]
for dx in (100.0, 900.0, 1100.0, 2000.0):
    txt="\n".join(atoms+['TER']+shift(atoms,dx,'B')+['END'])+"\n"
    try:
        m=run.single('x.pdb',stream=io.StringIO(txt),write_pka=False)
        print(dx,'ok',len(m.conformations['AVR'].groups))
    except Exception as e:
        import traceback; print(dx,'FAIL',type(e).__name__,e); traceback.print_exc(limit=3)
