#!/usr/bin/env python
"""C07 / clause 1: 'Water and the other residues configured as ignorable ...
have no effect on any reported value.'

A parameter file that configures the sodium residue as ignorable
(`ignore_residues NA`, same syntax as the shipped `ignore_residues HOH`)
does not make PROPKA ignore sodium records: the reader compares the raw
residue-name columns 18-20 (' NA', right-justified as the PDB format demands
for short names) with the whitespace-split configuration word ('NA').
Any residue name shorter than three characters (NA, CL, MG, ZN, K, DA, A, ...)
can therefore not be configured as ignorable.

Structure: tests/pdb/3SGB.pdb, with and without one Na+ record placed on the
position of water HOH I 69 (2.5 A from OD2 of ASP I 27).
Correct behaviour: with NA configured as ignorable both runs report the same
values.  Exit 1 if they differ.
"""
import io
import logging
import os
import sys
import tempfile

logging.disable(logging.CRITICAL)
import propka  # noqa: E402
import propka.run as run  # noqa: E402
from propka.output import get_determinant_section, get_summary_section  # noqa

PDB = '/repo/tests/pdb/3SGB.pdb'
CFG = os.path.join(os.path.dirname(propka.__file__), 'propka.cfg')
SODIUM = ("HETATM 9001 NA    NA I 901      14.236  11.808  45.619"
          "  1.00 20.00          NA  \n")


def calc(text, cfg):
    return run.single('x.pdb', optargs=['-p', cfg],
                      stream=io.StringIO(text), write_pka=False)


def report(mol):
    par = mol.version.parameters
    return (get_determinant_section(mol, 'AVR', par)
            + get_summary_section(mol, 'AVR', par))


def pkas(mol):
    return {g.label: g.pka_value for g in mol.conformations['AVR'].groups}


def main():
    lines = open(PDB).read().splitlines(True)
    pos = max(i for i, l in enumerate(lines)
              if l[:6] in ('ATOM  ', 'HETATM')) + 1
    without = ''.join(lines)
    with_na = ''.join(lines[:pos] + [SODIUM] + lines[pos:])
    with tempfile.TemporaryDirectory() as tmp:
        cfg = os.path.join(tmp, 'ignore_na.cfg')
        with open(cfg, 'w') as handle:
            handle.write(open(CFG).read())
            handle.write('\nignore_residues NA\n')
        mol0 = calc(without, cfg)
        mol1 = calc(with_na, cfg)
    assert 'NA' in mol1.version.parameters.ignore_residues
    assert 'HOH' in mol1.version.parameters.ignore_residues
    n_na = sum(1 for a in mol1.conformations['1A'].atoms
               if a.res_name.strip() == 'NA')
    print('ignore_residues =', mol1.version.parameters.ignore_residues)
    print('sodium atoms that survived reading: {0:d}'.format(n_na))
    a, b = pkas(mol0), pkas(mol1)
    diffs = [(k, a.get(k), b.get(k)) for k in sorted(set(a) | set(b))
             if a.get(k) is None or b.get(k) is None
             or abs(a[k] - b[k]) > 1e-9]
    print('{0:d} group(s) differ; those that differ by more than 0.005:'
          .format(len(diffs)))
    for key, va, vb in diffs:
        if va is not None and vb is not None and abs(va - vb) <= 0.005:
            continue
        print('   {0:12s} without Na+ {1:6.2f}   with (ignorable) Na+ {2:6.2f}'
              .format(key, va, vb))
    same = report(mol0) == report(mol1)
    print('reports identical:', same)
    return 0 if (same and not diffs and n_na == 0) else 1


if __name__ == '__main__':
    sys.exit(main())
