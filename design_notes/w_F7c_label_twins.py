"""F7c witness (real code): two residues of the same type that share a number
and differ only in insertion code get the same group label, so Group.__eq__
calls them equal and the pair loop of set_determinants breaks before it
evaluates their interaction.  Two copies of one ASP residue of 1FTJ, 5 A
apart, numbered (50, 51) versus (50, 50A)."""
import io, logging
import propka.run as run
logging.disable(logging.CRITICAL)
src = [l for l in open('/repo/tests/pdb/1FTJ-Chain-A.pdb').read().splitlines() if l.startswith('ATOM  ')]
asp = [l for l in src if l[17:20] == 'ASP']
first_num = asp[0][22:26]
asp = [l for l in asp if l[22:26] == first_num]


SHIFT = 3.6


def build(num2, icode2):
    out = []
    for l in asp:
        out.append(l[:22] + '  50 ' + l[27:])
    for l in asp:
        x = float(l[30:38]) + SHIFT
        out.append(l[:22] + '%4d%s' % (num2, icode2) + l[27:30] + '%8.3f' % x + l[38:])
    return "\n".join(out + ['END']) + "\n"


for num2, ic in ((51, ' '), (50, 'A')):
    m = run.single('x.pdb', stream=io.StringIO(build(num2, ic)), write_pka=False)
    rows = []
    for g in m.conformations['1A'].groups:
        if g.residue_type == 'ASP':
            rows.append((g.label, g.atom.icode, round(g.pka_value, 2),
                         [(d.label, round(d.value, 2)) for t in ('sidechain', 'coulomb')
                          for d in g.determinants[t]]))
    print('second residue numbered %d%s:' % (num2, ic), rows)
