"""C18 hunt 1: the parameter file the caller names is not the one that is read.

A user copies the shipped propka.cfg into the working directory, edits the
default side-chain cut-off (and a distance cut-off) and runs

    propka3 -p propka.cfg  x.pdb        (or  -p ./propka.cfg)

read_parameter_file() first looks for <package dir>/<given name>; for the
file name 'propka.cfg' that is the SHIPPED file, which is read silently
instead of the user's file.  Every look-up then answers from the shipped
tables: unspecified cut-off pairs do not fall back to the default DECLARED in
the user's parameter file, and the squared cut-off is not the square of the
plain value the file sets.

exit 1: violation shown; exit 0: the named file was honoured.
"""
import logging
import os
import sys
import tempfile
from pathlib import Path

logging.disable(logging.CRITICAL)

import propka
from propka.parameters import Parameters
from propka.input import read_parameter_file
from propka.lib import loadOptions

shipped = Path(propka.__file__).parent / "propka.cfg"
text = shipped.read_text()
# the user's edits: another default cut-off pair, another Coulomb cut-off
assert "sidechain_cutoffs default 3.0  4.0" in text
assert "coulomb_cutoff2 10.0" in text
text = text.replace("sidechain_cutoffs default 3.0  4.0",
                    "sidechain_cutoffs default 3.5  4.5")
text = text.replace("coulomb_cutoff2 10.0", "coulomb_cutoff2 12.0")

bad = []
old_cwd = os.getcwd()
with tempfile.TemporaryDirectory() as tmp:
    os.chdir(tmp)
    try:
        Path("propka.cfg").write_text(text)
        # reference: the same file under a name the package does not contain
        Path("mine.cfg").write_text(text)
        devnull = open(os.devnull, "w")
        stdout, sys.stdout = sys.stdout, devnull
        try:
            ref = read_parameter_file("mine.cfg", Parameters())
        finally:
            sys.stdout = stdout
        assert ref.sidechain_cutoffs.default == (3.5, 4.5)
        assert ref.coulomb_cutoff2_squared == 144.0

        spellings = {
            "'propka.cfg'": "propka.cfg",
            "'./propka.cfg'": "./propka.cfg",
            "Path('propka.cfg')": Path("propka.cfg"),
            "loadOptions(['-p', 'propka.cfg', 'x.pdb']).parameters":
                loadOptions(["-q", "-p", "propka.cfg", "x.pdb"]).parameters,
        }
        # (stdout is silenced around the reads: the reader prints
        # 'Parent ... is not ZIP file.' for every ancestor directory)
        for label, name in spellings.items():
            stdout, sys.stdout = sys.stdout, devnull
            try:
                par = read_parameter_file(name, Parameters())
            finally:
                sys.stdout = stdout
            # TRP-TRP is not listed in the file: must give the declared default
            got = par.sidechain_cutoffs.get_value("TRP", "TRP")
            sq = par.coulomb_cutoff2_squared
            ok = (got == (3.5, 4.5) and par.coulomb_cutoff2 == 12.0
                  and sq == 144.0)
            print("{0:55s} unspecified pair TRP/TRP -> {1}  "
                  "coulomb_cutoff2 = {2}  squared = {3}  {4}".format(
                      label, got, par.coulomb_cutoff2, sq,
                      "ok" if ok else "<-- file in cwd ignored"))
            if not ok:
                bad.append(label)
    finally:
        os.chdir(old_cwd)

if bad:
    print("\nVIOLATION: the parameter file ./propka.cfg declares "
          "'sidechain_cutoffs default 3.5 4.5' and 'coulomb_cutoff2 12.0',\n"
          "but look-ups answer (3.0, 4.0) / 10.0 / 100.0 - the shipped file "
          "in the package directory was read instead, for: " + ", ".join(bad))
    sys.exit(1)
print("named parameter file honoured")
sys.exit(0)
