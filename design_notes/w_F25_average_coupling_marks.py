"""C15 hunt 2: coupling marks of the averaged conformation are asymmetric.

The determinant table that PROPKA prints and writes to the .pka file is the
one of the 'AVR' conformation.  MolecularContainer.average_of_conformations()
builds each AVR group with Group.clone(), which simply aliases the
non_covalently_coupled_groups list of the group in the FIRST conformation in
which the group occurs.  Coupling found in any other conformation is ignored,
and a group that exists only in a later conformation brings the marks of that
conformation.  Result: in one and the same table A is marked coupled to B (row
starred) while B is not marked coupled to A (row not starred).

Input: two MODELs built from tests/pdb/1HPX.pdb.
  MODEL 1: ASP B 25 replaced by ALA (side chain cut back to CB)
  MODEL 2: the unchanged structure, in which ASP 25 A and ASP 25 B (the
           catalytic dyad of HIV protease) are non-covalently coupled.
No option is needed.

Exit 1 = violation shown, exit 0 = marks symmetric and stars consistent.
"""
import io
import logging
import sys

import propka.run
from propka.output import get_determinant_section

logging.disable(logging.CRITICAL)

PDB = '/repo/tests/pdb/1HPX.pdb'
with open(PDB) as handle:
    WT = [line for line in handle
          if line[:6] in ('ATOM  ', 'HETATM', 'TER   ')]


def asp25b_to_ala(lines):
    out = []
    for line in lines:
        if (line.startswith('ATOM') and line[21] == 'B'
                and int(line[22:26]) == 25):
            if line[12:16].strip() not in ('N', 'CA', 'C', 'O', 'CB'):
                continue
            line = line[:17] + 'ALA' + line[20:]
        out.append(line)
    return out


def shift_chain_b(lines, dx=40.0):
    """Same residues, but chain B (and its ligand) moved 40 A away."""
    out = []
    for line in lines:
        if line[:6] in ('ATOM  ', 'HETATM') and line[21] == 'B':
            line = line[:30] + '{0:8.3f}'.format(float(line[30:38]) + dx) \
                + line[38:]
        out.append(line)
    return out


def models(*variants):
    text = ''
    for number, lines in enumerate(variants, 1):
        text += 'MODEL     {0:4d}\n'.format(number)
        text += ''.join(lines) + 'ENDMDL\n'
    return text


def run(text):
    return propka.run.single('hunt2.pdb', optargs=[],
                             stream=io.StringIO(text), write_pka=False)


def marks(conf):
    """{label: [labels of partners]} for all groups with a partner."""
    return {g.label: [h.label for h in g.non_covalently_coupled_groups]
            for g in conf.groups if g.non_covalently_coupled_groups}


def starred_rows(mol, name):
    """labels whose first determinant row carries the '*'."""
    section = get_determinant_section(mol, name, mol.version.parameters)
    labels = set()
    for line in section.splitlines():
        # label (9 chars), blank, pKa as 6.2f, then '*' or ' '
        if len(line) > 16 and line[16] == '*':
            labels.add(line[:9])
    return labels


failures = []

# ---------------------------------------------------------------- scenario 1
mol = run(models(asp25b_to_ala(WT), WT))
print('scenario 1: MODEL 1 = D25A mutant of chain B, MODEL 2 = wild type')
for name in mol.conformation_names + ['AVR']:
    print('  {0:3s} coupling marks: {1}'.format(
        name, marks(mol.conformations[name])))
avr = mol.conformations['AVR']
stars = starred_rows(mol, 'AVR')
print('  AVR starred rows      : {0}'.format(sorted(stars)))
for group in avr.groups:
    for partner in group.non_covalently_coupled_groups:
        avr_partner = avr.find_group(partner)
        if not avr_partner:
            failures.append(
                'AVR: {0} is marked coupled to {1}, which is not in the '
                'table'.format(group.label, partner.label))
            continue
        if group not in avr_partner.non_covalently_coupled_groups:
            failures.append(
                'AVR: {0} is marked coupled to {1}, but {1} is NOT marked '
                'coupled to {0}'.format(group.label, avr_partner.label))
        if (group.label in stars) != (avr_partner.label in stars):
            failures.append(
                'AVR table: row of {0} is {2}starred, row of its partner {1} '
                'is {3}starred'.format(
                    group.label, avr_partner.label,
                    '' if group.label in stars else 'not ',
                    '' if avr_partner.label in stars else 'not '))

# ---------------------------------------------------------------- scenario 2
# (information only, does not influence the exit status)
mol2 = run(models(shift_chain_b(WT), WT))
print()
print('scenario 2 (info): same residues in both models, dimer separated in '
      'MODEL 1, intact in MODEL 2')
for name in mol2.conformation_names + ['AVR']:
    print('  {0:3s} coupling marks: {1}'.format(
        name, marks(mol2.conformations[name])))
print('  AVR starred rows      : {0}'.format(sorted(starred_rows(mol2, 'AVR'))))
print('  AVR "coupled residues detected" flag: {0}'.format(
    mol2.conformations['AVR'].non_covalently_coupled_groups))

print()
for failure in failures:
    print(failure)
if failures:
    print('VIOLATION: coupling marks in the printed (AVR) table are not '
          'symmetric')
    sys.exit(1)
print('OK: coupling marks symmetric, stars consistent')
sys.exit(0)
