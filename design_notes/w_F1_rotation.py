import math
from propka.vector_algebra import Vector, rotate_vector_around_an_axis as rot
def rodrigues(theta, k, v):
    n = k.length(); k = Vector(k.x/n,k.y/n,k.z/n)
    c,s = math.cos(theta), math.sin(theta)
    kxv = k.cross(v); kd = k.dot(v)
    return Vector(v.x*c + kxv.x*s + k.x*kd*(1-c), v.y*c + kxv.y*s + k.y*kd*(1-c), v.z*c + kxv.z*s + k.z*kd*(1-c))
import itertools
bad=[]
for ax in itertools.product([-1,0,1],repeat=3):
    if ax==(0,0,0): continue
    for v in [(1,0,0),(0,1,0),(0,0,1),(1,2,3)]:
        for th in [0.3, math.pi/2, 2.0]:
            a=Vector(*ax); vv=Vector(*v)
            r=rot(th,a,vv); e=rodrigues(th,a,vv)
            d=(r-e).length()
            if d>1e-9: bad.append((ax,v,th,d))
print(len(bad)); print(sorted(set(b[0] for b in bad)))
