import io, logging, math
import propka.run as run
from propka import hybrid36
logging.disable(logging.CRITICAL)
for s in ('1_0',' 1_00'):
    try: print('decode', repr(s), '->', hybrid36.decode(s))
    except ValueError as e: print('decode', repr(s), 'ValueError')
src=open('/repo/tests/pdb/1FTJ-Chain-A.pdb').read().splitlines()
atoms=[l for l in src if l.startswith('ATOM  ')]
# find HIS NE2 or CYS SG / TYR OH surface and put a C-X (X=F or Cl) 3.0 A away
xyz=[(float(l[30:38]),float(l[38:46]),float(l[46:54])) for l in atoms]
cen=[sum(c[i] for c in xyz)/len(xyz) for i in range(3)]
best=None
for l,c in zip(atoms,xyz):
    if l[12:16].strip()=='OH' and l[17:20]=='TYR':
        d=math.dist(c,cen)
        if best is None or d>best[0]: best=(d,l,c)
_,l,p0=best
out=[(p0[i]-cen[i])/best[0] for i in range(3)]
for el,nm in (('F',' F1 '),('CL','CL1 ')):
    X=[p0[k]+out[k]*3.0 for k in range(3)]
    C=[p0[k]+out[k]*(3.0+ (1.35 if el=='F' else 1.75)) for k in range(3)]
    C2=[C[k]+out[k]*1.5 for k in range(3)]
    het=["HETATM 5001 %s LIG A 900    %8.3f%8.3f%8.3f  1.00  0.00"%(nm,*X),
         "HETATM 5002  C1  LIG A 900    %8.3f%8.3f%8.3f  1.00  0.00"%tuple(C),
         "HETATM 5003  C2  LIG A 900    %8.3f%8.3f%8.3f  1.00  0.00"%tuple(C2)]
    m=run.single('x.pdb',stream=io.StringIO("\n".join(atoms+['TER']+het+['END'])+"\n"),write_pka=False)
    c=m.conformations['1A']
    lig=[(g.type,g.label,g.atom.element,g.atom.sybyl_type) for g in c.groups if g.atom.res_name=='LIG']
    tyr=[g for g in c.groups if g.label==('TYR%4d A'%int(l[22:26])) and g.type=='TYR'][0]
    print(el,lig,'TYR sidechain dets:',[(d.label,round(d.value,2)) for d in tyr.determinants['sidechain']], 'matrix lookup:',m.version.parameters.interaction_matrix.get_value('TYR',lig[0][0]))
