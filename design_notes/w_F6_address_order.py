import io, logging, sys, random
import propka.run as run
from propka.group import Group, OCOGroup
from propka.atom import Atom
logging.disable(logging.CRITICAL)
mol=[('C1','C',0,0),('O1','O',-1.1,0.6),('O2','O',0.1,-1.25),('C2','C',1.27,0.85),('C3','C',2.54,0),('C4','C',3.81,0.85),('O3','O',4.91,0.25),('O4','O',3.71,2.10)]
het=[]
n=0
for r in range(4):
  for i,(nm,el,x,y) in enumerate(mol):
    n+=1
    het.append("HETATM%5d %-4s SIN A%4d    %8.3f%8.3f%8.3f  1.00  0.00          %2s"%(5000+n,' '+nm,900+r,x+50*r,y,0.0,el))
txt="\n".join(het+['END'])+"\n"
seen={}
keep=[]
random.seed(int(sys.argv[1]))
for k in range(40):
    m=run.single('x.pdb',stream=io.StringIO(txt),write_pka=False)
    c=m.conformations['AVR']
    rep=tuple((g.label,g.atom.res_num,g.coupled_titrating_group is not None) for g in c.groups)
    seen[rep]=seen.get(rep,0)+1
    tmp=[OCOGroup(Atom()) for _ in range(500)]
    random.shuffle(tmp)
    keep.append(tmp[:random.randrange(0,400)])
    del tmp
print(len(seen))
for r,n in seen.items(): print(n,[x for x in r if x[2]])
