"""C08 hunt 3: repeating a structure as identical models changes the reported
BURIED percentage of a group.

Input A: the UNCHANGED tests/pdb/1FTJ-Chain-A.pdb, run once as it is and once
as MODEL 1..10 with identical records (LYS 253 A: 322 heavy atoms within 15 A,
buried = (322-280)/(560-280) = 0.15: 15 % -> 14 %).
Input B: the same file without the atom MET A 209 CE (a "missing atom"; it
makes the count for ARG 182 A exactly 378, buried = 0.35), run once and as
MODEL 1..3 (35 % -> 34 %).

Expected (statement C08: "repeating a structure as identical models changes
nothing"): the determinant table and the summary of the two runs are
identical.

exit 1 = violation shown, exit 0 = behaviour correct.
"""
import io
import logging
import sys

logging.disable(logging.CRITICAL)
import propka.run as pr  # noqa: E402
from propka.output import get_determinant_section, get_summary_section  # noqa: E402

PDB = '/repo/tests/pdb/1FTJ-Chain-A.pdb'


def run(text):
    return pr.single('hunt3.pdb', stream=io.StringIO(text), write_pka=False)


def compare(skip_atom, n_models, watch):
    records = []
    for line in open(PDB):
        if line[:6] not in ('ATOM  ', 'HETATM') or line[17:20] == 'HOH':
            continue
        if skip_atom and line[17:26] == skip_atom[0] \
                and line[12:16].strip() == skip_atom[1]:
            continue
        records.append(line)
    body = ''.join(records)
    one = run(body + 'END\n')
    many = run(''.join('MODEL     %4d\n%sENDMDL\n' % (i + 1, body)
                       for i in range(n_models)) + 'END\n')
    print('conformations:', one.conformation_names, many.conformation_names)
    params = one.version.parameters
    text1 = (get_determinant_section(one, 'AVR', params)
             + get_summary_section(one, 'AVR', params))
    textn = (get_determinant_section(many, 'AVR', params)
             + get_summary_section(many, 'AVR', params))
    bad = [(a, b) for a, b in zip(text1.splitlines(), textn.splitlines())
           if a != b]
    for a, b in bad:
        print('   1 model :', a)
        print('  %2d models:' % n_models, b)
    for conf, mol in (('1 model', one), ('%d models' % n_models, many)):
        for group in mol.conformations['AVR'].groups:
            if group.label == watch and group.titratable:
                print('  %-10s %s  buried = %r  100.0*buried = %r  '
                      'num_volume = %r' % (conf, watch, group.buried,
                                           100.0 * group.buried,
                                           group.num_volume))
    return len(bad) + abs(len(text1.splitlines()) - len(textn.splitlines()))


n_bad = compare(None, 10, 'LYS 253 A')
n_bad += compare(('MET A 209', 'CE'), 3, 'ARG 182 A')
if n_bad:
    print('%d report lines change when the structure is repeated as '
          'identical models' % n_bad)
    sys.exit(1)
print('report unchanged')
sys.exit(0)
