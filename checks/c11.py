"""C11 - covalent bonds are exactly those the pairwise distance rule gives.

R1 stencil exhaustive, R2 cell edge >= longest rule, R3 floor-based index,
R4 symmetric/irreflexive criterion + symmetric insert, R5 disulfide flags,
R6 all-pairs/disjoint helpers enumerate complete index sets.
"""
import ast
import itertools

from sa.astutil import (effective, stores_in, call_name, calls_in, dotted, enclosing_function, facts_at,
                        guards_of, norm, walk_no_nested, fact_texts, last_attr)
from sa.consteval import ConstEval, UNKNOWN, eval_init
from sa.loader import AnalysisError
from checks import common

P = 'C11'


def _find_box_function(mod):
    """Role: method with a loop over a literal list of 3-int tuples."""
    cands = []
    for qual, fn in mod.funcs.items():
        for node in walk_no_nested(fn):
            if isinstance(node, ast.For) and isinstance(node.target, (ast.Tuple, ast.List)) \
                    and len(node.target.elts) == 3:
                cands.append((qual, fn, node))
    named = [c for c in cands if c[0].endswith('find_bonds_for_atoms_using_boxes')]
    pick = named or cands
    for qual, fn, loop in pick:
        if isinstance(loop.iter, (ast.List, ast.Tuple, ast.Name, ast.ListComp, ast.Call)):
            return qual, fn, loop
    raise AnalysisError('C11: cannot find the cell-list routine (loop over 3-tuples)')


def cell_list(ctx, rule):
    """Rules R1-R3: the cell list enumerates every pair the all-pairs rule
    would test.  ``rule(name)`` maps R1/R2/R3 to the caller's rule id."""
    prog = ctx.prog
    mod = prog.mod('bonds')
    qual, fn, loop = _find_box_function(mod)
    env = eval_init(prog, 'bonds', 'BondMaker')

    # ---------------------------------------------------------------- R1
    ce = ConstEval({k: v for k, v in env.items()})
    # module-level tables (the stencil may be a named constant, possibly computed)
    for st_ in mod.tree.body:
        if isinstance(st_, (ast.Assign, ast.AnnAssign)) and getattr(st_, 'value', None) is not None:
            tg_ = st_.targets[0] if isinstance(st_, ast.Assign) else st_.target
            if isinstance(tg_, ast.Name) and tg_.id not in ce.env:
                v_ = ConstEval(dict(ce.env)).ev(st_.value)
                if v_ is not UNKNOWN:
                    ce.env[tg_.id] = v_
    offsets = ce.ev(loop.iter)
    if offsets is UNKNOWN or not isinstance(offsets, (list, tuple)):
        raise AnalysisError('C11.R1: neighbour stencil is not a foldable literal: '
                            + norm(loop.iter)[:80])
    offsets = [tuple(o) if isinstance(o, (list, tuple)) else o for o in offsets]
    full = [d for d in itertools.product((-1, 0, 1), repeat=3) if d != (0, 0, 0)]
    ctx.ob(rule('R1'), 'stencil:well-formed',
           all(isinstance(o, tuple) and len(o) == 3 and o in full for o in offsets),
           'every stencil entry is a non-zero offset in {-1,0,1}^3',
           mod, loop, detail=str(offsets))
    ctx.ob(rule('R1'), 'stencil:no-duplicates', len(set(offsets)) == len(offsets),
           'no neighbour direction is listed twice (a duplicate examines pairs twice)',
           mod, loop)
    for d in full:
        neg = tuple(-c for c in d)
        if d > neg:
            continue  # one obligation per unordered direction pair
        n = (d in offsets) + (neg in offsets)
        ctx.ob(rule('R1'), 'stencil:dir:%s' % (d,), n == 1,
               'exactly one of %s / %s is in the half-space stencil (found %d): '
               'pairs of atoms in cells adjacent in this direction are examined '
               'exactly once' % (d, neg, n), mod, loop)
    ctx.note('stencil', [list(o) for o in offsets])
    ctx.note('exhaustive', True)

    # structure around the stencil: boxes dict, same-cell call, cross-cell call
    outer = None
    for anc in ast.walk(fn):
        if isinstance(anc, ast.For) and loop in list(ast.walk(anc)) and anc is not loop:
            outer = anc
    if outer is None:
        raise AnalysisError('C11.R1: stencil loop is not nested in a loop over cells')
    # outer: for (x, y, z), value in boxes.items()
    ok_outer = (isinstance(outer.iter, ast.Call) and last_attr(outer.iter) == 'items'
                and isinstance(outer.target, ast.Tuple) and len(outer.target.elts) == 2
                and isinstance(outer.target.elts[0], ast.Tuple)
                and len(outer.target.elts[0].elts) == 3)
    ctx.ob(rule('R1'), 'cells:iterate-all', ok_outer,
           'the cell loop iterates every (cell index triple, atom list) of the cell map',
           mod, outer)
    if not ok_outer:
        raise AnalysisError('C11.R1: unexpected shape of the cell loop')
    cell_vars = [e.id for e in outer.target.elts[0].elts if isinstance(e, ast.Name)]
    cell_list = outer.target.elts[1].id if isinstance(outer.target.elts[1], ast.Name) else None
    boxes_name = dotted(outer.iter.func.value)
    off_vars = [e.id for e in loop.target.elts if isinstance(e, ast.Name)]
    # same-cell all-pairs call, directly in the outer loop body, unguarded
    same = [s for s in outer.body if isinstance(s, ast.Expr) and isinstance(s.value, ast.Call)
            and [norm(a) for a in s.value.args] == [cell_list]]
    same_ok = len(same) == 1
    allpairs_fn = None
    if same_ok:
        allpairs_fn = common.resolve_self_method(mod, 'BondMaker', same[0].value)
    ctx.ob(rule('R1'), 'cells:same-cell-all-pairs', same_ok and allpairs_fn is not None,
           'each cell is passed once, unconditionally, to the all-pairs routine',
           mod, outer)
    # neighbour lookup boxes[x+dx, y+dy, z+dz]
    # (subscript under try/except KeyError, or .get() followed by a test of the result)
    lookup = None
    lookup_key = None
    for node in ast.walk(loop):
        if isinstance(node, ast.Subscript) and dotted(node.value) == boxes_name:
            lookup, lookup_key = node, node.slice
        elif isinstance(node, ast.Call) and last_attr(node) == 'get' and isinstance(node.func, ast.Attribute) \
                and dotted(node.func.value) == boxes_name and len(node.args) == 1 and not node.keywords:
            lookup, lookup_key = node, node.args[0]
    lk_ok = False
    if lookup is not None and isinstance(lookup_key, ast.Tuple) and len(lookup_key.elts) == 3:
        lk_ok = True
        for i, elt in enumerate(lookup_key.elts):
            want = {cell_vars[i], off_vars[i]} if len(cell_vars) == 3 and len(off_vars) == 3 else None
            if not (isinstance(elt, ast.BinOp) and isinstance(elt.op, ast.Add)
                    and {norm(elt.left), norm(elt.right)} == want):
                lk_ok = False
    ctx.ob(rule('R1'), 'cells:neighbour-index', lk_ok,
           'the neighbour cell is looked up at (cell[i] + offset[i]) for each axis i '
           'in matching positions', mod, lookup or loop)
    # cross-cell disjoint call with (value, value2)
    nb_name = None
    for node in ast.walk(loop):
        if isinstance(node, ast.Assign) and node.value is lookup and \
                isinstance(node.targets[0], ast.Name):
            nb_name = node.targets[0].id
    cross = [c for c in calls_in(loop)
             if sorted(norm(a) for a in c.args) == sorted([cell_list or '?', nb_name or '??'])]
    disjoint_fn = None
    if len(cross) == 1:
        disjoint_fn = common.resolve_self_method(mod, 'BondMaker', cross[0])
    ctx.ob(rule('R1'), 'cells:cross-cell-disjoint',
           len(cross) == 1 and disjoint_fn is not None,
           'the (cell, neighbour cell) pair is passed exactly once to the '
           'disjoint-sets routine', mod, loop)
    # a missing neighbour cell is skipped, nothing else is swallowed
    handlers = [h for h in ast.walk(loop) if isinstance(h, ast.ExceptHandler)]
    h_ok = all(norm(h.type) == 'KeyError' and len(effective(h.body)) == 1
               and isinstance(effective(h.body)[0], ast.Continue) for h in handlers)
    if isinstance(lookup, ast.Call) and len(cross) == 1:
        # .get(): the result is None for a missing cell; the pair routine is reached
        # only when it is not
        h_ok = h_ok and any(p and t in ('%s is not None' % nb_name, nb_name)
                            for t, p in fact_texts(cross[0], loop))
    ctx.ob(rule('R1'), 'cells:missing-neighbour-skipped', h_ok and len(handlers) <= 1,
           'only the KeyError of a missing neighbour cell is caught (or the None of a .get() is '
           'tested), and it only skips', mod, loop)
    # every atom is put into exactly one cell
    fill = None
    for node in walk_no_nested(fn):
        if isinstance(node, ast.For) and node is not outer and node is not loop \
                and not any(node is a for a in ast.walk(outer)) \
                and any(last_attr(c) == 'setdefault' and dotted(c.func.value) == boxes_name
                        for c in calls_in(node)):
            fill = node
    fill_ok = False
    key_vars = []
    key_nodes = []
    if fill is not None and isinstance(fill.target, ast.Name):
        atom_var = fill.target.id
        for stmt in fill.body:
            for call in calls_in(stmt):
                if last_attr(call) == 'append' and [norm(a) for a in call.args] == [atom_var] \
                        and stmt in fill.body:
                    inner = call.func.value
                    if isinstance(inner, ast.Call) and last_attr(inner) == 'setdefault' \
                            and dotted(inner.func.value) == boxes_name:
                        key = inner.args[0]
                        if isinstance(key, ast.Name):
                            kdefs = [s_ for s_ in fill.body if isinstance(s_, ast.Assign)
                                     and norm(s_.targets[0]) == key.id]
                            if len(kdefs) == 1 and len([1 for s_, t_ in stores_in(fill)
                                                        if norm(t_) == key.id]) == 1:
                                key = kdefs[0].value
                        if isinstance(key, ast.Tuple):
                            key_nodes = list(key.elts)
                            key_vars = [norm(e) for e in key.elts]
                            fill_ok = True
    ctx.ob(rule('R1'), 'cells:every-atom-binned', fill_ok,
           'every atom of the input list is appended, unconditionally, to the cell '
           'keyed by its index triple', mod, fill or fn)

    # ---------------------------------------------------------------- R3 floor
    axes_seen = []
    divisors = set()
    divisor_nodes = []
    if fill is not None:
        for kv, knode in zip(key_vars, key_nodes):
            defs = [s for s in fill.body if isinstance(s, ast.Assign)
                    and isinstance(s.targets[0], ast.Name) and s.targets[0].id == kv]
            ok, axis, why = False, None, 'no single definition'
            if not isinstance(knode, ast.Name):
                # the component is written in the key itself
                class _Def:
                    pass
                d_ = _Def()
                d_.value = knode
                defs = [d_]
            if len(defs) == 1:
                val = defs[0].value
                quot = None
                if isinstance(val, ast.Call) and call_name(val) == 'math.floor' and len(val.args) == 1 \
                        and isinstance(val.args[0], ast.BinOp) and isinstance(val.args[0].op, ast.Div):
                    quot = val.args[0]
                elif isinstance(val, ast.BinOp) and isinstance(val.op, ast.FloorDiv):
                    quot = val
                elif isinstance(val, ast.Call) and call_name(val) == 'int' and len(val.args) == 1 \
                        and isinstance(val.args[0], ast.BinOp) and isinstance(val.args[0].op, ast.FloorDiv):
                    quot = val.args[0]
                if quot is not None and isinstance(quot.left, ast.Attribute) \
                        and dotted(quot.left.value) == fill.target.id \
                        and quot.left.attr in ('x', 'y', 'z'):
                    ok, axis = True, quot.left.attr
                    divisors.add(norm(quot.right))
                    divisor_nodes.append(quot.right)
                else:
                    why = 'index is not floor(coordinate / edge): ' + norm(val)
            ctx.ob(rule('R3'), 'cell-index:' + kv, ok,
                   'cell index is floor(coordinate / cell edge) (truncation or rounding '
                   'mis-bins negative coordinates)' + ('' if ok else ' - ' + why),
                   mod, (defs[0] if isinstance(defs[0], ast.AST) else knode) if defs else fill)
            axes_seen.append(axis)
        ctx.ob(rule('R3'), 'cell-index:axes', sorted(a for a in axes_seen if a) == ['x', 'y', 'z'],
               'the three index components use the three distinct coordinates', mod, fill)
        ctx.ob(rule('R3'), 'cell-index:one-edge', len(divisors) == 1,
               'all three axes are divided by the same cell edge', mod, fill)
    ctx.need(rule('R3'), 3)

    # ---------------------------------------------------------------- R2 edge
    rules = {}
    dist_tbl = env.get('self.distances')
    if not isinstance(dist_tbl, dict) or any(v is UNKNOWN for v in dist_tbl.values()):
        raise AnalysisError('C11.R2: BondMaker.distances is not a foldable table')
    for k, v in dist_tbl.items():
        rules[k] = v
    # distances actually used by check_distance
    chk = mod.func('BondMaker.check_distance')
    thresholds = common.compare_thresholds(chk)  # list of (left, op, right text, node)
    used_sq = {}
    for left, op, right, node in thresholds:
        for side in (left, right):
            if side.startswith('self.') and side in env and isinstance(env[side], (int, float)):
                used_sq[side] = env[side]
            elif side.startswith('self.') and side.endswith(']'):
                pass
    sqtbl = env.get('self.distances_squared')
    if isinstance(sqtbl, dict):
        for k, v in sqtbl.items():
            used_sq['self.distances_squared[%s]' % k] = v
    if any(v is UNKNOWN for v in used_sq.values()) or not used_sq:
        raise AnalysisError('C11.R2: squared rule distances are not foldable')
    max_rule_sq = max(v for k, v in used_sq.items() if k != 'self.max_sq_distance')
    msd = env.get('self.max_sq_distance')
    if not isinstance(msd, (int, float)):
        raise AnalysisError('C11.R2: max_sq_distance not foldable')
    ctx.ob(rule('R2'), 'max-sq-distance-covers-rules', msd >= max_rule_sq - 1e-12,
           'the pre-filter distance (%.4f) is >= every squared rule distance (max %.4f); '
           'otherwise the pre-filter rejects pairs the rule would bond' % (msd, max_rule_sq),
           mod, chk, detail=str(used_sq))
    # squared tables agree with the plain ones
    if isinstance(sqtbl, dict):
        for k, v in dist_tbl.items():
            ctx.ob(rule('R2'), 'squared-table:' + k,
                   k in sqtbl and abs(sqtbl[k] - v * v) < 1e-9,
                   'distances_squared[%s] equals distances[%s]**2' % (k, k), mod, chk)
    # the cell edge
    edge_defs = [s for s in walk_no_nested(fn) if isinstance(s, ast.Assign)
                 and norm(s.targets[0]) in divisors]
    if not edge_defs and len(divisors) == 1 and divisor_nodes:
        # the edge is written where the coordinate is divided by it
        class _Edge:
            pass
        e_ = _Edge()
        e_.value = divisor_nodes[0]
        edge_defs = [e_]
        edge_anchor = divisor_nodes[0]
    elif len(edge_defs) == 1:
        edge_anchor = edge_defs[0]
    if len(edge_defs) != 1:
        raise AnalysisError('C11.R2: cell edge has no single definition')
    edge = ConstEval(env).ev(edge_defs[0].value)
    if not isinstance(edge, (int, float)):
        raise AnalysisError('C11.R2: cell edge not foldable: ' + norm(edge_defs[0].value))
    ctx.ob(rule('R2'), 'cell-edge>=longest-rule', edge * edge >= max(msd, max_rule_sq),
           'cell edge %.4f >= longest bonding distance %.4f, so bonded atoms are never '
           'more than one cell apart' % (edge, max(msd, max_rule_sq) ** 0.5),
           mod, edge_anchor)
    ctx.note('cell_edge', edge)
    ctx.note('rule_distances_squared', used_sq)
    return dict(mod=mod, fn=fn, env=env, dist_tbl=dist_tbl, chk=chk,
                allpairs_fn=allpairs_fn, disjoint_fn=disjoint_fn)


def criterion_rules(ctx, rule, shared):
    """The pair criterion is symmetric in its two atoms: it measures their
    squared distance, reads only the two elements, looks rules up under keys
    whose mirror image has the same value, and answers True only under a
    distance test."""
    mod, chk, dist_tbl = shared['mod'], shared['chk'], shared['dist_tbl']
    # check_distance: only symmetric uses of (atom1, atom2)
    params = [a.arg for a in chk.args.args if a.arg != 'self']
    sq_calls = [c for c in calls_in(chk) if (call_name(c) or '').endswith('squared_distance')]
    ctx.ob(rule, 'criterion:uses-squared-distance',
           len(sq_calls) == 1 and sorted(norm(a) for a in sq_calls[0].args) == sorted(params),
           'the pair criterion measures the squared distance of exactly its two atoms',
           mod, chk)
    # other uses of the params: only .element
    other_ok = True
    bad = None
    for node in ast.walk(chk):
        if isinstance(node, ast.Name) and node.id in params and isinstance(node.ctx, ast.Load):
            par = node._parent
            if isinstance(par, ast.Attribute) and par.attr == 'element':
                continue
            if isinstance(par, ast.Call) and par in sq_calls:
                continue
            other_ok, bad = False, par
    ctx.ob(rule, 'criterion:symmetric-inputs', other_ok,
           'besides the distance the criterion reads only the two elements',
           mod, bad or chk)
    # every rule key is a palindrome pair or has its mirror
    for k in dist_tbl:
        parts = k.split('-')
        mirror = '-'.join(reversed(parts))
        ctx.ob(rule, 'rule-key-mirrored:' + k, mirror in dist_tbl and
               abs(dist_tbl[mirror] - dist_tbl[k]) < 1e-12,
               'distance rule %s has the same value for %s' % (k, mirror), mod, chk)
    # element-order-sensitive operations on the key: only count()/membership
    key_uses_ok = True
    for node in ast.walk(chk):
        if isinstance(node, ast.Call) and isinstance(node.func, ast.Attribute) and \
                isinstance(node.func.value, ast.Name) and node.func.value.id == 'key':
            if node.func.attr not in ('count',):
                key_uses_ok = False
        if isinstance(node, ast.Subscript) and isinstance(node.value, ast.Name) \
                and node.value.id == 'key':
            key_uses_ok = False
    ctx.ob(rule, 'criterion:key-uses-order-free', key_uses_ok,
           'the element-pair key is used only for counting and table membership', mod, chk)
    # every `return True` is under a `sq_dist < <rule>` test; last return False
    rets = [r for r in walk_no_nested(chk) if isinstance(r, ast.Return)]
    for r in rets:
        if isinstance(r.value, ast.Constant) and r.value.value is True:
            facts = fact_texts(r, chk)
            ok = any(p and ('<' in t) and 'sq_dist' in t.split('<')[0] for t, p in facts)
            ctx.ob(rule, 'criterion:true-needs-distance:' + ';'.join(
                t for t, p in facts if p)[:120], ok,
                'a positive answer is dominated by a distance-below-threshold test',
                mod, r)


def run(ctx):
    prog = ctx.prog
    shared = cell_list(ctx, lambda name: 'C11.' + name)
    mod, fn, env, dist_tbl, chk = (shared[k] for k in ('mod', 'fn', 'env', 'dist_tbl', 'chk'))
    allpairs_fn, disjoint_fn = shared['allpairs_fn'], shared['disjoint_fn']

    # ---------------------------------------------------------------- R4
    criterion_rules(ctx, 'C11.R4', shared)
    # the pair routine
    pair = mod.func('BondMaker._find_bonds_for_atoms')
    fact_kind = common.pair_fact_kind(pair)
    common.check_pair_routine(ctx, 'C11.R4', mod)
    # the skip-if-already-bonded shortcut may only return
    for node in walk_no_nested(pair):
        if isinstance(node, ast.If) and 'bonded_atoms' in norm(node.test):
            ctx.ob('C11.R4', 'pair:already-bonded-shortcut',
                   all(isinstance(s, ast.Return) for s in effective(node.body)) and not node.orelse
                   and isinstance(node.test, ast.Compare) and isinstance(node.test.ops[0], ast.In),
                   'the already-bonded shortcut only skips an existing bond', mod, node)
    # make_bond symmetric + irreflexive
    common.check_make_bond(ctx, 'C11.R4', mod)
    # who writes bonded_atoms (lemma L1)
    common.check_bond_writers(ctx, 'C11.L1', prog)

    # ---------------------------------------------------------------- R5
    common.check_bridge_flag_written(ctx, 'C11.R5', prog)
    ctx.need('C11.R5', 3)
    # consequence for titration (shared with C01.R5)
    common.check_bridge_not_titrated(ctx, 'C11.R5', prog)

    # ---------------------------------------------------------------- R6
    if allpairs_fn is not None:
        common.check_all_pairs(ctx, 'C11.R6', mod, allpairs_fn)
    if disjoint_fn is not None:
        common.check_disjoint_pairs(ctx, 'C11.R6', mod, disjoint_fn)
    # entry: every conformation's atom list is processed
    entry = mod.func('BondMaker.find_bonds_for_molecules_using_boxes')
    loops = [n for n in walk_no_nested(entry) if isinstance(n, ast.For)]
    ok_entry = len(loops) == 1 and 'conformation_names' in norm(loops[0].iter) and any(
        last_attr(c) == fn.name and c.args and norm(c.args[0]).endswith('.atoms')
        for c in calls_in(loops[0])) and not any(
            isinstance(n, (ast.If, ast.Continue, ast.Break)) for n in ast.walk(loops[0]))
    ctx.ob('C11.R6', 'entry:all-conformations', ok_entry,
           'the cell-list routine is applied to the full atom list of every conformation',
           mod, entry)
    ctx.assume('float comparisons exactly at a rule distance behave identically in the '
               'cell-list and the all-pairs formulation (same squared_distance call)')
    ctx.assume('squared_distance is symmetric in its arguments (decided by C04.R2)')
