"""C20 - rotation about an axis is right-handed for every axis.

R1 per-path dependence of the result on the axis components that the path
leaves free; R2 elementary matrices; R3 undo order; R4 callers.
"""
import ast

from sa.astutil import (call_name, calls_in, dotted, norm, walk_no_nested, names_in,
                        try_fold, last_attr)
from sa.flow import Analysis
from sa.loader import AnalysisError

AXES = ('x', 'y', 'z')


def _find_helper(mod):
    fn = mod.funcs.get('rotate_vector_around_an_axis')
    if fn is not None:
        return fn
    # role: module-level function with three parameters that calls both
    # elementary rotation constructors
    for qual, cand in mod.funcs.items():
        if '.' in qual or len(cand.args.args) != 3:
            continue
        names = {call_name(c) for c in calls_in(cand)}
        if any('z_axis' in (n or '') for n in names) and any('y_axis' in (n or '') for n in names):
            return cand
    raise AnalysisError('C20: rotation helper not found')


class PathDeps(Analysis):
    """State: frozenset of path records
    (conds, deps, pinned, signed, axis_incoming, infeasible_note)."""

    def __init__(self, axis, angle, vec, structures=None):
        self.axis, self.angle, self.vec = axis, angle, vec
        # {constructor name: {row axis: (set of column axes with a non-zero entry,
        #                                does a non-constant entry occur in the row)}}
        self.structures = structures or {}

    def _comp(self, deps, attr, sign):
        """dependence of component ``attr`` of the re-aligned axis"""
        key = ('~' if sign else '') + self.axis + '.' + attr
        if key in deps:
            return deps[key]
        if sign and (self.axis + '.' + attr) in deps:
            return deps[self.axis + '.' + attr]
        return deps.get(('~' if sign else '') + self.axis, deps.get(self.axis, frozenset()))

    def initial(self):
        deps = {self.axis: frozenset(AXES), self.vec: frozenset(), self.angle: frozenset()}
        return frozenset([((), tuple(sorted(deps.items())), frozenset(), frozenset(), True, ())])

    # -- dependence of an expression on incoming axis components
    def _deps(self, expr, deps, incoming):
        res = set()
        for node in ast.walk(expr):
            if isinstance(node, ast.Attribute) and isinstance(node.value, ast.Name) \
                    and node.value.id == self.axis and node.attr in AXES and incoming:
                res.add(node.attr)
            elif isinstance(node, ast.Attribute) and isinstance(node.value, ast.Name) \
                    and node.value.id == self.axis and node.attr in AXES:
                res |= set(self._comp(deps, node.attr, False))
            elif isinstance(node, ast.Name) and isinstance(node.ctx, ast.Load):
                par = getattr(node, '_parent', None)
                if node.id == self.axis and isinstance(par, ast.Attribute) \
                        and par.attr in AXES:
                    continue  # handled above, component-wise
                res |= set(deps.get(node.id, frozenset()))
        return frozenset(res)

    # -- components whose *sign* can reach the value of an expression: like
    # _deps, except that a component which enters only through an even
    # function (x*x, x**2, abs, hypot, cos) cannot be told from its negative
    EVEN_CALLS = {'abs', 'math.fabs', 'math.hypot', 'math.cos', 'math.cosh', 'fabs', 'hypot', 'cos'}

    def _sdeps(self, expr, deps, incoming):
        def walk(node):
            if isinstance(node, ast.BinOp) and isinstance(node.op, ast.Mult) \
                    and norm(node.left) == norm(node.right):
                return frozenset()
            if isinstance(node, ast.BinOp) and isinstance(node.op, ast.Pow):
                e = try_fold(node.right)
                if isinstance(e, (int, float)) and float(e).is_integer() and int(e) % 2 == 0:
                    return frozenset()
            if isinstance(node, ast.Call) and call_name(node) in self.EVEN_CALLS:
                return frozenset()
            if isinstance(node, ast.Attribute) and isinstance(node.value, ast.Name) \
                    and node.value.id == self.axis and node.attr in AXES and incoming:
                return frozenset([node.attr])
            if isinstance(node, ast.Attribute) and isinstance(node.value, ast.Name) \
                    and node.value.id == self.axis and node.attr in AXES:
                return frozenset(self._comp(deps, node.attr, True))
            if isinstance(node, ast.Name) and isinstance(node.ctx, ast.Load):
                return frozenset(deps.get('~' + node.id, deps.get(node.id, frozenset())))
            res = frozenset()
            for child in ast.iter_child_nodes(node):
                res |= walk(child)
            return res
        return walk(expr)

    def transfer(self, stmt, state):
        out = set()
        for conds, deps_t, pinned, signed, incoming, notes in state:
            deps = dict(deps_t)
            if isinstance(stmt, ast.Assign) and len(stmt.targets) == 1 \
                    and isinstance(stmt.targets[0], ast.Name):
                name = stmt.targets[0].id
                new_s = self._sdeps(stmt.value, deps, incoming)
                new_d = self._deps(stmt.value, deps, incoming)
                comps = None
                val = stmt.value
                if name == self.axis and isinstance(val, ast.BinOp) and isinstance(val.op, ast.MatMult) \
                        and isinstance(val.left, ast.Name) and isinstance(val.right, ast.Name) \
                        and val.right.id == self.axis and ('@' + val.left.id) in deps:
                    # M @ axis with M an elementary rotation: row i of the result reads
                    # only the columns in which the matrix has a non-zero entry
                    struct = self.structures.get(next(iter(deps['@' + val.left.id])))
                    if struct:
                        comps = {}
                        for row in AXES:
                            cols, uses_angle = struct[row]
                            d, sd = set(), set()
                            for col in cols:
                                if incoming:
                                    d.add(col)
                                    sd.add(col)
                                else:
                                    d |= set(self._comp(deps, col, False))
                                    sd |= set(self._comp(deps, col, True))
                            if uses_angle:
                                d |= set(deps.get(val.left.id, frozenset()))
                                sd |= set(deps.get('~' + val.left.id, deps.get(val.left.id, frozenset())))
                            comps[row] = (frozenset(d), frozenset(sd))
                for k in [k for k in deps if k.lstrip('~').startswith(name + '.')]:
                    del deps[k]
                deps.pop('@' + name, None)
                deps[name] = new_d
                deps['~' + name] = new_s
                if comps is not None:
                    for row, (d, sd) in comps.items():
                        deps['%s.%s' % (name, row)] = d
                        deps['~%s.%s' % (name, row)] = sd
                if isinstance(val, ast.Call) and call_name(val) in self.structures:
                    deps['@' + name] = frozenset([call_name(val)])
                if name == self.axis:
                    incoming = False
            elif isinstance(stmt, ast.AugAssign) and isinstance(stmt.target, ast.Name):
                name = stmt.target.id
                new_s = deps.get('~' + name, deps.get(name, frozenset())) | \
                    self._sdeps(stmt.value, deps, incoming)
                deps[name] = deps.get(name, frozenset()) | self._deps(stmt.value, deps, incoming)
                deps['~' + name] = new_s
                if name == self.axis:
                    incoming = False
            elif isinstance(stmt, ast.Return) and stmt.value is not None:
                deps['~<return>'] = self._sdeps(stmt.value, deps, incoming)
                deps['<return>'] = self._deps(stmt.value, deps, incoming)
            out.add((conds, tuple(sorted(deps.items())), pinned, signed, incoming, notes))
        return frozenset(out)

    def assume(self, test, pol, state):
        out = set()
        for conds, deps_t, pinned, signed, incoming, notes in state:
            comp, kind = self._axis_test(test)
            new_pinned, new_signed, new_notes = pinned, signed, notes
            if comp is not None:
                if incoming:
                    if kind == 'ne' and not pol or kind == 'eq' and pol:
                        new_pinned = pinned | {comp}
                    elif kind in ('ne', 'eq'):
                        pass
                    elif kind == 'sign':
                        new_signed = signed | {comp}
                else:
                    # test on the re-aligned axis: after the z-alignment
                    # (taken only when the incoming y != 0) the axis lies in
                    # the xz-plane with x' = +-sqrt(x^2 + y^2) != 0
                    if comp == 'x' and ((kind == 'ne' and not pol) or (kind == 'eq' and pol)):
                        new_notes = notes + ('assumed-infeasible: %s is %s after the '
                                             'z-alignment of an axis with y != 0'
                                             % (norm(test), pol),)
            cond = (norm(test), pol)
            out.add((conds + (cond,), deps_t, new_pinned, new_signed, incoming, new_notes))
        return frozenset(out)

    def _axis_test(self, test):
        if isinstance(test, ast.Compare) and len(test.ops) == 1:
            left, right = test.left, test.comparators[0]
            op = test.ops[0]
            for a, b, flipped in ((left, right, False), (right, left, True)):
                if isinstance(a, ast.Attribute) and isinstance(a.value, ast.Name) \
                        and a.value.id == self.axis and a.attr in AXES \
                        and try_fold(b) == 0:
                    if isinstance(op, ast.NotEq):
                        return a.attr, 'ne'
                    if isinstance(op, ast.Eq):
                        return a.attr, 'eq'
                    if isinstance(op, (ast.Lt, ast.Gt, ast.LtE, ast.GtE)):
                        return a.attr, 'sign'
        return None, None


def _matrix_entries(fn):
    """{aij: normalised expr} of the Matrix4x4(...) constructor call returned."""
    rets = [r for r in walk_no_nested(fn) if isinstance(r, ast.Return)]
    if len(rets) != 1 or not isinstance(rets[0].value, ast.Call):
        return None
    call = rets[0].value
    from sa.canon import canon as _canon
    can = _canon(fn)
    call = can.expr(call)           # entries read through locals (c = math.cos(theta)) are expanded
    res = {}
    names = ['a%d%di' % (i, j) for i in range(1, 5) for j in range(1, 5)]
    for idx, arg in enumerate(call.args):
        res[names[idx][:3]] = arg
    for kw in call.keywords:
        if kw.arg and kw.arg.startswith('a') and kw.arg.endswith('i'):
            res[kw.arg[:3]] = kw.value
    return res


def _trig(node, param):
    """('cos'|'sin', sign) if node is +-math.cos/sin(param); ('const', value)."""
    sign = 1
    while isinstance(node, ast.UnaryOp) and isinstance(node.op, (ast.USub, ast.UAdd)):
        if isinstance(node.op, ast.USub):
            sign = -sign
        node = node.operand
    if isinstance(node, ast.Call) and call_name(node) in ('math.cos', 'math.sin', 'cos', 'sin') \
            and len(node.args) == 1 and norm(node.args[0]) == param:
        return (call_name(node).split('.')[-1], sign)
    val = try_fold(node)
    if val is not None:
        return ('const', sign * val)
    return ('?', norm(node))


class UndoPaths(Analysis):
    """Per path: the sequence of transformations applied to the vector, with
    the value each rotation angle has on that path (a constant, the angle
    parameter, or the result of one particular assignment).  State: frozenset
    of (env, sequence)."""

    def __init__(self, vec, angle, rot_kinds):
        self.vec, self.angle, self.rot_kinds = vec, angle, rot_kinds

    def initial(self):
        return frozenset([((), ())])

    def _val(self, expr, env):
        if isinstance(expr, ast.UnaryOp) and isinstance(expr.op, ast.USub):
            v = self._val(expr.operand, env)
            if v[0] == 'const':
                return ('const', -v[1])
            return v[1] if v[0] == 'neg' else ('neg', v)
        if isinstance(expr, ast.Constant) and isinstance(expr.value, bool):
            return ('const', 1.0 if expr.value else 0.0)
        c = try_fold(expr)
        if isinstance(c, (int, float)):
            return ('const', float(c))
        if isinstance(expr, ast.Name):
            if expr.id == self.angle:
                return ('param', expr.id)
            return dict(env).get(expr.id, ('unknown', expr.id))
        return ('expr', norm(expr), getattr(expr, 'lineno', 0))

    def transfer(self, stmt, state):
        out = set()
        for env_t, seq in state:
            env = dict(env_t)
            if isinstance(stmt, ast.Assign) and len(stmt.targets) == 1 and isinstance(stmt.targets[0], ast.Name):
                name, val = stmt.targets[0].id, stmt.value
                if name == self.vec:
                    step = ('?', norm(val))
                    if isinstance(val, ast.BinOp) and isinstance(val.op, ast.MatMult) \
                            and norm(val.right) == self.vec and isinstance(val.left, ast.Name):
                        step = env.get('@' + val.left.id, ('?', norm(val)))
                    elif isinstance(val, ast.BinOp) and isinstance(val.op, ast.MatMult) \
                            and norm(val.right) == self.vec and isinstance(val.left, ast.Call) \
                            and call_name(val.left) in self.rot_kinds and len(val.left.args) == 1:
                        step = (self.rot_kinds[call_name(val.left)], self._val(val.left.args[0], env))
                    seq = seq + (step,)
                elif isinstance(val, ast.Call) and call_name(val) in self.rot_kinds and len(val.args) == 1:
                    env['@' + name] = (self.rot_kinds[call_name(val)], self._val(val.args[0], env))
                else:
                    env.pop('@' + name, None)
                    env[name] = self._val(val, env)
                    if env[name][0] == 'expr':
                        env[name] = ('assigned', name, stmt.lineno)
            elif isinstance(stmt, ast.AugAssign) and isinstance(stmt.target, ast.Name):
                if stmt.target.id == self.vec:
                    seq = seq + (('?', norm(stmt)),)
                else:
                    env[stmt.target.id] = ('assigned', stmt.target.id, stmt.lineno)
            out.add((tuple(sorted(env.items())), seq))
        return frozenset(out)

    def assume(self, test, pol, state):
        return frozenset(rec for rec in state if _flag_assume(dict(rec[0]), test, pol))


def _flag_assume(env, test, pol):
    """False when a test on a local boolean flag contradicts its known value."""
    neg = False
    while isinstance(test, ast.UnaryOp) and isinstance(test.op, ast.Not):
        neg, test = not neg, test.operand
    if isinstance(test, ast.Name):
        v = env.get(test.id)
        if isinstance(v, tuple) and v and v[0] == 'const':
            return bool(v[1]) == (pol != neg)
    return True


def _inverse(step):
    kind, v = step
    if v[0] == 'const':
        return kind, ('const', -v[1])
    return kind, (v[1] if v[0] == 'neg' else ('neg', v))


def check_undo_paths(ctx, rule, mod, fn, vec, angle):
    """On every path through the helper the vector is transformed by
    P1..Pk, then turned by the angle about z, then by the inverses of Pk..P1 -
    and by nothing else (identity steps, rotations by a constant 0, dropped)."""
    kinds = {'rotate_atoms_around_z_axis': 'z', 'rotate_atoms_around_y_axis': 'y'}
    exits = UndoPaths(vec, angle, kinds).exit_states(fn)
    seqs = set()
    for _stmt, st in exits:
        for _env, seq in st:
            seqs.add(seq)
    if not seqs or len(seqs) > 256:
        raise AnalysisError('C20.R3: %d transformation sequences' % len(seqs))
    for seq in sorted(seqs, key=repr):
        steps = [s for s in seq if not (s[0] in ('z', 'y') and s[1] == ('const', 0.0))
                 and not (s[0] in ('z', 'y') and s[1] == ('const', -0.0))]
        main = [i for i, s in enumerate(steps) if s == ('z', ('param', angle))]
        ok = False
        if len(main) == 1:
            pre, post = steps[:main[0]], steps[main[0] + 1:]
            ok = all(s[0] in ('z', 'y') for s in pre + post) and \
                [_inverse(s) for s in reversed(pre)] == post
        def show(s):
            v = s[1]
            if s[0] == '?':
                return 'vec = %s' % v
            if v[0] == 'const':
                return '%s(%.4g)' % (s[0], v[1])
            if v[0] == 'neg':
                return '%s(-%s)' % (s[0], v[1][1])
            return '%s(%s)' % (s[0], v[1])
        label = ' ; '.join(show(s) for s in steps)
        ctx.ob(rule, 'undo-path:' + label, ok,
               'the vector is transformed by aligning rotations, the rotation by the angle about z, '
               'and the inverse aligning rotations in reverse order - and by nothing else (a step '
               'that is not one of the elementary rotations, or an alignment without its undo, '
               'leaves the result in the aligned frame): ' + label, mod, fn)


def helper_roles(mod):
    """(helper function, axis parameter, angle parameter, vector parameter)"""
    fn = _find_helper(mod)
    params = [a.arg for a in fn.args.args]
    # role of the parameters: the axis is the one whose components are tested
    tested = {}
    for node in walk_no_nested(fn):
        if isinstance(node, ast.Compare) and isinstance(node.left, ast.Attribute) \
                and isinstance(node.left.value, ast.Name) and node.left.attr in AXES:
            tested[node.left.value.id] = tested.get(node.left.value.id, 0) + 1
    axis = max(tested, key=tested.get) if tested else (params[1] if len(params) == 3 else None)
    if axis not in params or len(params) != 3:
        raise AnalysisError('C20: cannot identify the axis parameter')
    rets = [r for r in walk_no_nested(fn) if isinstance(r, ast.Return)]
    if not rets:
        raise AnalysisError('C20: helper has no return')
    others = [p for p in params if p != axis]
    # the rotated vector is the parameter the returned value is rebuilt from
    vec = others[-1]
    angle = others[0]
    return fn, axis, angle, vec


def run(ctx):
    prog = ctx.prog
    mod = prog.mod('vector_algebra')
    fn, axis, angle, vec = helper_roles(mod)
    params = [a.arg for a in fn.args.args]
    rets = [r for r in walk_no_nested(fn) if isinstance(r, ast.Return)]
    structures = {}
    for name in ('rotate_atoms_around_z_axis', 'rotate_atoms_around_y_axis'):
        rf = mod.funcs.get(name)
        entries = _matrix_entries(rf) if rf is not None else None
        if entries is None:
            continue
        par = rf.args.args[0].arg
        st = {}
        for i, row in enumerate(AXES, 1):
            cols, uses = set(), False
            for j, col in enumerate(AXES, 1):
                kind = _trig(entries['a%d%d' % (i, j)], par) if ('a%d%d' % (i, j)) in entries else ('const', 0)
                if kind[0] == 'const' and kind[1] == 0:
                    continue
                cols.add(col)
                uses = uses or kind[0] != 'const'
            st[row] = (cols, uses)
        structures[name] = st
    ctx.note('elementary_rotation_structure', {k: {r: [sorted(c), u] for r, (c, u) in v.items()}
                                               for k, v in structures.items()})
    ana = PathDeps(axis, angle, vec, structures)
    exits = ana.exit_states(fn)
    paths = []
    for stmt, st in exits:
        for rec in st:
            paths.append(rec)
    if len(paths) > 4096:
        raise AnalysisError('C20: more than 4096 paths')
    n_feasible = 0
    n_assumed = 0
    for conds, deps_t, pinned, signed, incoming, notes in sorted(paths, key=lambda r: r[0]):
        label = ' & '.join(('%s' if p else 'not (%s)') % t for t, p in conds) or '<straight line>'
        if notes:
            n_assumed += 1
            ctx.assume('C20.R1 path [%s]: %s' % (label, notes[0]))
            continue
        n_feasible += 1
        deps = dict(deps_t)
        d_ret = set(deps.get('<return>', frozenset()))
        s_ret = set(deps.get('~<return>', d_ret))
        free = set(AXES) - set(pinned)
        if len(free) >= 2:
            missing = free - s_ret - set(signed)
            ok = not missing
            what = ('on this path the axis components %s are free; the result must depend '
                    'on each of them, and not only through an even function such as x*x, '
                    'abs or hypot - an axis and its mirror image in that component need '
                    'different rotations (depends on %s, sign-sensitively on %s, sign tests %s)'
                    % (sorted(free), sorted(d_ret), sorted(s_ret), sorted(signed)))
        elif len(free) == 1:
            missing = free - s_ret - set(signed)
            ok = not missing
            what = ('on this path the axis is +-e_%s; its sign must reach the result or a '
                    'branch (data deps %s, sign tests %s): a rotation about -e differs from '
                    'one about +e' % (sorted(free)[0], sorted(d_ret), sorted(signed)))
        else:
            ok, what = True, 'zero axis: nothing to decide'
        ctx.ob('C20.R1', 'path:' + label, ok, what, mod, fn,
               detail='pinned to zero: %s' % sorted(pinned))
    ctx.note('paths', {'feasible': n_feasible, 'assumed_infeasible': n_assumed})
    ctx.need('C20.R1', 3)

    # ------------------------------------------------------------------ R2
    want_z = {'a11': ('cos', 1), 'a12': ('sin', -1), 'a13': ('const', 0), 'a14': ('const', 0),
              'a21': ('sin', 1), 'a22': ('cos', 1), 'a23': ('const', 0), 'a24': ('const', 0),
              'a31': ('const', 0), 'a32': ('const', 0), 'a33': ('const', 1), 'a34': ('const', 0),
              'a41': ('const', 0), 'a42': ('const', 0), 'a43': ('const', 0), 'a44': ('const', 1)}
    want_y = {'a11': ('cos', 1), 'a12': ('const', 0), 'a13': ('sin', 1), 'a14': ('const', 0),
              'a21': ('const', 0), 'a22': ('const', 1), 'a23': ('const', 0), 'a24': ('const', 0),
              'a31': ('sin', -1), 'a32': ('const', 0), 'a33': ('cos', 1), 'a34': ('const', 0),
              'a41': ('const', 0), 'a42': ('const', 0), 'a43': ('const', 0), 'a44': ('const', 1)}
    rot_fns = {}
    for name, want in (('rotate_atoms_around_z_axis', want_z), ('rotate_atoms_around_y_axis', want_y)):
        rf = mod.func(name)
        rot_fns[name] = rf
        par = rf.args.args[0].arg
        entries = _matrix_entries(rf)
        if entries is None:
            raise AnalysisError('C20.R2: %s does not return a Matrix4x4(...) call' % name)
        for key in sorted(want):
            got = _trig(entries[key], par) if key in entries else ('const', 0.0)
            exp = want[key]
            ok = got[0] == exp[0] and (abs(got[1] - exp[1]) < 1e-12 if exp[0] == 'const'
                                       else got[1] == exp[1])
            ctx.ob('C20.R2', '%s:%s' % (name, key), ok,
                   'entry %s of the right-handed rotation matrix is %s%s (found %s)' % (
                       key, '' if exp[0] == 'const' else ('-' if exp[1] < 0 else '+'),
                       exp[0] if exp[0] != 'const' else exp[1], got), mod,
                   entries.get(key, rf))
    # constructor stores each argument in the matching field
    init = mod.func('Matrix4x4.__init__')
    st_ok = True
    for node in walk_no_nested(init):
        if isinstance(node, ast.Assign) and norm(node.targets[0]).startswith('self.a'):
            if norm(node.value) != norm(node.targets[0])[5:] + 'i':
                st_ok = False
    ctx.ob('C20.R2', 'matrix:constructor-identity', st_ok,
           'Matrix4x4.__init__ stores argument aNMi in field aNM', mod, init)
    mm = mod.func('Matrix4x4.__matmul__')
    r = [x for x in walk_no_nested(mm) if isinstance(x, ast.Return)]
    mm_ok = False
    if len(r) == 1 and isinstance(r[0].value, ast.Call) and len(r[0].value.args) == 3:
        v = mm.args.args[1].arg
        mm_ok = True
        for i, arg in enumerate(r[0].value.args, 1):
            want = ('self.a%d1 * %s.x + self.a%d2 * %s.y + self.a%d3 * %s.z + self.a%d4'
                    % (i, v, i, v, i, v, i))
            terms = sorted(t.strip() for t in norm(arg).split('+'))
            wterms = sorted(t.strip() for t in want.split('+'))
            terms = sorted(' * '.join(sorted(t.split(' * '))) for t in terms)
            wterms = sorted(' * '.join(sorted(t.split(' * '))) for t in wterms)
            if terms != wterms:
                mm_ok = False
    ctx.ob('C20.R2', 'matrix:matmul-rows', mm_ok,
           'M @ v multiplies row i with (x, y, z, 1)', mod, mm)

    # ------------------------------------------------------------------ R3
    # the last three transformations of the vector: rot(theta about z),
    # then y by -beta, then z by -gamma
    seq = []
    binding = {}
    for stmt in fn.body:
        for node in ([stmt] if isinstance(stmt, ast.Assign) else []):
            if isinstance(node.value, ast.Call) and call_name(node.value) in rot_fns \
                    and isinstance(node.targets[0], ast.Name):
                binding[node.targets[0].id] = (call_name(node.value), norm(node.value.args[0]))
            if isinstance(node.value, ast.BinOp) and isinstance(node.value.op, ast.MatMult) \
                    and norm(node.targets[0]) == vec and norm(node.value.right) == vec:
                m = norm(node.value.left)
                lf = node.value.left
                if isinstance(lf, ast.Call) and call_name(lf) in rot_fns and len(lf.args) == 1:
                    seq.append((call_name(lf), norm(lf.args[0])))
                else:
                    seq.append(binding.get(m, ('?', m)))
    # angle variable names: the one assigned under the z-alignment / y-alignment
    z_align, y_align = None, None
    for node in walk_no_nested(fn):
        if isinstance(node, ast.If):
            for sub in ast.walk(node):
                # the matrix is bound to a local first, or built where it is applied
                built = None
                if isinstance(sub, ast.Assign) and isinstance(sub.value, ast.Call) and \
                        call_name(sub.value) in rot_fns and sub is not node:
                    built = sub.value
                elif isinstance(sub, ast.Assign) and isinstance(sub.value, ast.BinOp) \
                        and isinstance(sub.value.op, ast.MatMult) and isinstance(sub.value.left, ast.Call) \
                        and call_name(sub.value.left) in rot_fns and sub.value.left.args:
                    built = sub.value.left
                if built is not None:
                    kind = call_name(built)
                    arg = norm(built.args[0])
                    if 'z_axis' in kind and z_align is None:
                        z_align = arg
                    if 'y_axis' in kind and y_align is None:
                        y_align = arg
    tail = seq[-3:]
    want_tail = [('rotate_atoms_around_z_axis', angle),
                 ('rotate_atoms_around_y_axis', '-' + (y_align or '?')),
                 ('rotate_atoms_around_z_axis', '-' + (z_align or '?'))]
    ctx.ob('C20.R3', 'undo-order', tail == want_tail,
           'after aligning (z by %s, then y by %s) the vector is rotated by the angle about z '
           'and the alignment is undone in reverse order with negated angles; found %s'
           % (z_align, y_align, tail), mod, fn)
    check_undo_paths(ctx, 'C20.R3', mod, fn, vec, angle)
    # the alignment angles are computed in a well-conditioned way: asin/acos of a
    # normalised ratio lose half the digits near +-1 (an axis within 1e-8 of the
    # yz-plane or of z is rotated about an axis tilted by up to 2e-8 rad), and the
    # squares under the root over/underflow for axes of length 1e+-160; atan2 of
    # the components themselves has neither problem
    bad = [c for c in calls_in(fn) if (call_name(c) or '').split('.')[-1] in ('asin', 'acos')]
    squares = [n for n in walk_no_nested(fn) if isinstance(n, ast.BinOp) and (
        (isinstance(n.op, ast.Mult) and norm(n.left) == norm(n.right)
         and isinstance(n.left, ast.Attribute) and norm(n.left.value) == axis)
        or (isinstance(n.op, ast.Pow) and isinstance(n.left, ast.Attribute) and norm(n.left.value) == axis))]
    ctx.ob('C20.R5', 'angles:well-conditioned', not bad and not squares,
           'the helper derives its alignment angles without asin/acos of a ratio (%d calls) and without '
           'squaring axis components (%d products): "exactly the given angle" fails by 1e-8 for axes '
           'almost in a coordinate plane, and the helper raises or turns the wrong way for very '
           'short or very long axes' % (len(bad), len(squares)), mod, bad[0] if bad else (squares[0] if squares else fn))
    # the axis is transformed together with the vector by each aligning rotation
    for node in walk_no_nested(fn):
        if isinstance(node, ast.If):
            body_assigns = [s for s in node.body if isinstance(s, ast.Assign)
                            and isinstance(s.value, ast.BinOp)
                            and isinstance(s.value.op, ast.MatMult)]
            vs = [s for s in body_assigns if norm(s.targets[0]) == vec]
            xs = [s for s in body_assigns if norm(s.targets[0]) == axis]
            if vs or xs:
                # (the axis only as long as somebody still reads it)
                later = False
                if node in fn.body:
                    later = any(isinstance(n, ast.Name) and n.id == axis and isinstance(n.ctx, ast.Load)
                                for st in fn.body[fn.body.index(node) + 1:] for n in ast.walk(st))
                ok = len(vs) == 1 and (len(xs) == 1 and norm(vs[0].value.left) == norm(xs[0].value.left)
                                       or (not xs and not later))
                ctx.ob('C20.R3', 'align-both:' + norm(node.test), ok,
                       'an aligning rotation is applied to the vector and to the axis alike',
                       mod, node)
    # initial angles are zero when no alignment is needed
    for var in (z_align, y_align):
        if var is None:
            continue
        inits = [s for s in fn.body if isinstance(s, ast.Assign) and norm(s.targets[0]) == var]
        by_branch = False
        if not inits:
            # no default in front of the case split: then every branch of the split sets
            # the angle, and a branch that applies no rotation sets it to 0
            def leaves_of(ifst):
                out = [ifst.body]
                if len(ifst.orelse) == 1 and isinstance(ifst.orelse[0], ast.If):
                    return out + leaves_of(ifst.orelse[0])
                return out + [ifst.orelse]
            for st_ in fn.body:
                if isinstance(st_, ast.If) and any(isinstance(x, ast.Assign) and norm(x.targets[0]) == var
                                                   for x in ast.walk(st_)):
                    lv = leaves_of(st_)
                    ok_l = bool(st_.orelse)
                    for leaf in lv:
                        sets = [x for b in leaf for x in ast.walk(b) if isinstance(x, ast.Assign)
                                and norm(x.targets[0]) == var]
                        rotates = any(isinstance(x, ast.BinOp) and isinstance(x.op, ast.MatMult)
                                      for b in leaf for x in ast.walk(b))
                        if not sets or (not rotates and try_fold(sets[-1].value) != 0):
                            ok_l = False
                    by_branch = ok_l
        ctx.ob('C20.R3', 'angle-default-zero:' + var,
               by_branch or bool(inits) and try_fold(inits[0].value) == 0,
               'alignment angle %s defaults to 0 (so the undo is the identity when the '
               'alignment was skipped)' % var, mod, inits[0] if inits else fn)

    # ------------------------------------------------------------------ R4
    callers = set()
    for m2, q2, f2 in prog.all_funcs():
        for c in calls_in(f2, nested=False):
            if (call_name(c) or '').split('.')[-1] == fn.name:
                callers.add((m2.name, q2))
    allowed = {('protonate', 'Protonate.trigonal'), ('protonate', 'Protonate.tetrahedral')}
    ctx.ob('C20.R4', 'callers', callers <= allowed and bool(callers),
           'the rotation helper is called only from hydrogen construction (callers %s)'
           % sorted(callers), mod, fn)
    ctx.note('callers', sorted('%s.%s' % c for c in callers))
    ctx.assume('trigonometric correctness of the alignment angles on generic axes '
               '(asin/acos formulas) is not decided')
