"""C15 - coupling analysis observes without disturbing."""
import ast

from sa import typestate
from sa.astutil import (try_fold, facts_at, call_name, calls_in, dotted, norm, walk_no_nested, last_attr,
                        fact_texts, guards_of, func_params, names_in, enclosing_function)
from sa.flow import Analysis
from sa.loader import AnalysisError
from sa.canon import canon
from checks.c02 import make_world
from checks.common import is_nonempty_test

DISPLAY_FLAG = 'display_coupled_residues'


class Parity(Analysis):
    """State: frozenset of parity maps (tuples of ((argA, argB), 0/1)); a loop
    around a swap makes its parity unknown ('?')."""

    def __init__(self, swap_name):
        self.swap_name = swap_name
        self.swaps = []

    def initial(self):
        return frozenset([()])

    def transfer(self, stmt, state):
        for node in walk_no_nested(stmt):
            if isinstance(node, ast.Call) and last_attr(node) == self.swap_name:
                key = tuple(norm(a) for a in node.args[:2])
                if node not in self.swaps:
                    self.swaps.append(node)
                new = set()
                for conf in state:
                    d = dict(conf)
                    cur = d.get(key, 0)
                    d[key] = '?' if cur == '?' else 1 - cur
                    new.add(tuple(sorted(d.items())))
                state = frozenset(new)
        return state

    def eval_test(self, expr, state):
        return self.transfer(expr, state)

    def bind_loop(self, stmt, state):
        # a swap inside a loop body runs an unknown number of times
        has_swap = any(isinstance(n, ast.Call) and last_attr(n) == self.swap_name
                       for n in ast.walk(stmt))
        if not has_swap:
            return state
        new = set()
        keys = {tuple(norm(a) for a in n.args[:2]) for n in ast.walk(stmt)
                if isinstance(n, ast.Call) and last_attr(n) == self.swap_name}
        for conf in state:
            d = dict(conf)
            for k in keys:
                d[k] = '?'
            new.add(tuple(sorted(d.items())))
        return frozenset(new)


def flag_derived(cg, fid, expr, depth=0, seen=None):
    """Is ``expr`` (in function fid) derived from options.display_coupled_residues?"""
    seen = seen or set()
    if depth > 6:
        return False
    if isinstance(expr, ast.Attribute) and expr.attr == DISPLAY_FLAG:
        return True
    if isinstance(expr, ast.Name):
        fn = cg.funcs[fid]
        params = func_params(fn)
        # local assigned from a flag-derived expression
        defs = [s for s in walk_no_nested(fn) if isinstance(s, ast.Assign)
                and any(isinstance(t, ast.Name) and t.id == expr.id for t in s.targets)]
        if defs:
            return all(flag_derived(cg, fid, d.value, depth + 1, seen) for d in defs)
        if expr.id in params:
            if (fid, expr.id) in seen:
                return True
            seen = seen | {(fid, expr.id)}
            idx = params.index(expr.id)
            callers = 0
            for src, sites in cg.sites.items():
                for call, targets, _k in sites:
                    if fid not in targets:
                        continue
                    callers += 1
                    bound = isinstance(call.func, ast.Attribute) and params[:1] == ['self']
                    arg = None
                    for kw in call.keywords:
                        if kw.arg == expr.id:
                            arg = kw.value
                    pos = idx - (1 if bound else 0)
                    if arg is None and 0 <= pos < len(call.args):
                        arg = call.args[pos]
                    if arg is None:
                        return False       # relies on the default
                    if not flag_derived(cg, src, arg, depth + 1, seen):
                        return False
            return callers > 0
    return False


def fenced(cg, reach, fid, seen=None):
    """Every call path to fid passes a call site that is control dependent on
    the display flag.  Returns (ok, witness text)."""
    seen = seen or set()
    if fid in seen:
        return True, ''
    seen = seen | {fid}
    any_site = False
    for src in sorted(reach):
        for call, targets, _k in cg.sites.get(src, []):
            if fid not in targets:
                continue
            any_site = True
            guarded = False
            for test, pol, _kind in guards_of(call, cg.funcs[src]):
                for atom, p in _atoms(test, pol):
                    if p and flag_derived(cg, src, atom):
                        guarded = True
            if guarded:
                continue
            ok, wit = fenced(cg, reach, src, seen)
            if not ok or src in (('run', 'single'), ('run', 'main')):
                return False, wit or '%s.%s:%d %s' % (src[0], src[1], call.lineno, norm(call)[:60])
            if not _has_callers(cg, reach, src):
                return False, 'entry %s.%s reaches it unguarded' % src
    return True, ''


def _has_callers(cg, reach, fid):
    return any(fid in targets for src in reach for _c, targets, _k in cg.sites.get(src, []))


def _atoms(test, pol):
    from sa.astutil import flatten_and
    return flatten_and(test, pol)


def run(ctx):
    prog = ctx.prog
    cg, reach, world = make_world(prog)
    cmod = prog.mod('coupled_groups')
    gmod = prog.mod('group')
    cls = 'NonCovalentlyCoupledGroups'
    probe_id = ('coupled_groups', cls + '.is_coupled_protonation_state_probability')
    swap_id = ('coupled_groups', cls + '.swap_interactions')
    probe, swap = cg.funcs.get(probe_id), cg.funcs.get(swap_id)
    if probe is None or swap is None:
        raise AnalysisError('C15: probe / swap function missing')

    # ------------------------------------------------------------------ R1
    ana = Parity('swap_interactions')
    exits = ana.exit_states(probe)
    seen_labels = {}
    for stmt, st in sorted(exits, key=lambda e: e[0].lineno if e[0] is not None else 10**9):
        bad = []
        for conf in st:
            for key, par in conf:
                if par != 0:
                    bad.append((key, par))
        label = 'return@' + norm(stmt)[:40] if stmt is not None else 'fall-through'
        seen_labels[label] = seen_labels.get(label, 0) + 1
        label += '#%d' % seen_labels[label]
        ctx.ob('C15.R1', 'parity:' + label, not bad,
               'at this exit of the coupling probe every swap_interactions(A, B) has been '
               'applied an even number of times with the same arguments (odd/unknown: %s)'
               % sorted(set(bad)), cmod, stmt or probe)
    ctx.ob('C15.R1', 'probe:swaps-present', len(ana.swaps) >= 2,
           'the probe swaps interactions and swaps them back (%d swap call sites)'
           % len(ana.swaps), cmod, probe)
    for fid in (probe_id, swap_id):
        ex = world.exit_states.get(fid, [])
        dirty = sorted({d for _s, st in ex for d in st if d != typestate.ENTRY})
        ctx.ob('C15.R1', 'recomputed-at-exit:' + fid[1].split('.')[-1], not dirty and bool(ex),
               'both groups are recomputed after their determinants were moved (dirty at exit: %s)'
               % dirty, cmod, cg.funcs[fid])
    # exact undo: applying the transfer twice restores the two lists as multisets
    # only (entries come back at the end of their list).  The lists are summed
    # and printed in order, so the probe must also restore the order - from
    # copies taken before the first swap - or the transfer must work in place.
    swap_calls = sorted((c for c in calls_in(probe, nested=False) if last_attr(c) == 'swap_interactions'),
                        key=lambda c: c.lineno)
    in_place = not any(last_attr(c) in ('append', 'remove', 'insert', 'pop', 'extend')
                       for c in calls_in(cmod.func(cls + '.transfer_determinant'), nested=False)
                       if isinstance(c.func, ast.Attribute) and isinstance(c.func.value, ast.Name)
                       and c.func.value.id.startswith('determinants'))
    restores = False
    if len(swap_calls) >= 2:
        first, last = swap_calls[0], swap_calls[-1]
        saved = [n for n in walk_no_nested(probe) if isinstance(n, ast.Assign) and n.lineno < first.lineno
                 and any(isinstance(x, ast.Call) and call_name(x) == 'list'
                         and '.determinants[' in norm(x) for x in ast.walk(n.value))]
        slices = [n for n in walk_no_nested(probe) if isinstance(n, ast.Assign) and n.lineno > last.lineno
                  and isinstance(n.targets[0], ast.Subscript) and isinstance(n.targets[0].slice, ast.Slice)
                  and n.targets[0].slice.lower is None and n.targets[0].slice.upper is None]
        restores = bool(saved) and bool(slices)
    ctx.ob('C15.R1', 'swap:undo-restores-list-order', in_place or restores,
           'the temporary swap is undone exactly: the determinant lists get their original order '
           'back (restored from copies saved before the swap: %s; transfer works in place: %s)'
           % (restores, in_place), cmod, swap_calls[-1] if swap_calls else probe)
    # label and group of a moved determinant change together (the averaged table
    # regenerates the label from the group)
    tdf = cmod.func(cls + '.transfer_determinant')
    lab = [n for n in walk_no_nested(tdf) if isinstance(n, ast.Assign)
           and isinstance(n.targets[0], ast.Attribute) and n.targets[0].attr == 'label']
    together = bool(lab) and all(any(
        isinstance(m, ast.Assign) and isinstance(m.targets[0], ast.Attribute) and m.targets[0].attr == 'group'
        and norm(m.targets[0].value) == norm(n.targets[0].value) for m in ast.walk(n._parent))
        for n in lab)
    ctx.ob('C15.R1', 'transfer:label-and-group-together', together,
           'a determinant that is relabelled when it moves also gets the matching group reference '
           '(Determinant.label is derived from .group wherever determinants are re-created, e.g. in '
           'the average)', cmod, lab[0] if lab else tdf)
    # transfer_determinant: symmetric under 1 <-> 2
    td = cmod.func(cls + '.transfer_determinant')
    body = [norm(s) for s in td.body if not (isinstance(s, ast.Expr)
                                             and isinstance(s.value, ast.Constant))]

    def swap12(text):
        out = text.replace('from1to2', '\x00A').replace('from2to1', '\x00B')
        out = out.replace('1', '\x01').replace('2', '1').replace('\x01', '2')
        return out.replace('\x00A', 'from2to1').replace('\x00B', 'from1to2')
    ctx.ob('C15.R1', 'transfer:symmetric-shape', sorted(body) == sorted(swap12(b) for b in body),
           'transfer_determinant treats its two lists symmetrically (its body is invariant under '
           'exchanging the roles 1 <-> 2), so applying it twice restores both lists as multisets',
           cmod, td)
    # both collections happen before any move
    loops = [s for s in td.body if isinstance(s, ast.For)]
    tparams = {a.arg for a in td.args.args}
    # a collection: a local list made of the elements of one parameter list that
    # carry the other label - by a loop that appends, or by a filtering comprehension
    collect = [l for l in loops if isinstance(l.iter, ast.Name) and l.iter.id in tparams
               and any(last_attr(c) == 'append' and isinstance(c.func.value, ast.Name)
                       and c.func.value.id not in tparams for c in calls_in(l))
               and not any(last_attr(c) == 'remove' for c in calls_in(l))]
    collect += [s_ for s_ in td.body if isinstance(s_, ast.Assign) and isinstance(s_.targets[0], ast.Name)
                and isinstance(s_.value, ast.ListComp) and len(s_.value.generators) == 1
                and isinstance(s_.value.generators[0].iter, ast.Name)
                and s_.value.generators[0].iter.id in tparams
                and norm(s_.value.elt) == norm(s_.value.generators[0].target)
                and s_.value.generators[0].ifs]
    moves = [l for l in loops if any(last_attr(c) == 'remove' for c in calls_in(l))]
    ok = len(collect) == 2 and len(moves) == 2 and \
        max(td.body.index(l) for l in collect) < min(td.body.index(l) for l in moves)
    ctx.ob('C15.R1', 'transfer:collect-before-move', ok,
           'what is transferred in either direction is decided before anything is moved', cmod, td)
    for l in moves:
        acts = sorted(last_attr(c) for c in calls_in(l) if last_attr(c) in ('append', 'remove'))
        rel = [s for s in l.body if isinstance(s, ast.Assign) and norm(s.targets[0]).endswith('.label')]
        ctx.ob('C15.R1', 'transfer:move=%s' % norm(l.iter), acts == ['append', 'remove'] and len(rel) == 1,
               'each moved determinant is relabelled, appended to the other list and removed from '
               'its own, once', cmod, l)
    # swap_interactions hands matching lists and labels
    tcalls = [c for c in calls_in(swap, nested=False) if last_attr(c) == 'transfer_determinant']
    ok = len(tcalls) == 2
    for c in tcalls:
        a = [norm(x) for x in c.args]
        if len(a) not in (4, 6):
            ok = False
            continue
        g1, g2 = a[0].split('.determinants')[0], a[1].split('.determinants')[0]
        t1, t2 = a[0].split('.determinants')[-1], a[1].split('.determinants')[-1]
        if not (t1 == t2 and a[2] == g1 + '.label' and a[3] == g2 + '.label' and g1 != g2):
            ok = False
        if len(a) == 6 and not (a[4] == g1 and a[5] == g2):
            ok = False      # the groups handed over must be the owners of the two lists
    types = sorted(norm(c.args[0]).split("['")[-1].rstrip("']") for c in tcalls if c.args)
    ctx.ob('C15.R1', 'swap:arguments-consistent', ok and types == ['coulomb', 'sidechain'],
           'swap_interactions exchanges the coulomb and the side-chain lists of the same two '
           'groups with their own labels (types %s)' % types, cmod, swap)

    # ------------------------------------------------------------------ R2
    unbalanced = []
    for fid in sorted(reach):
        fn = cg.funcs[fid]
        if fid in (probe_id, swap_id):
            continue
        if not any(last_attr(c) == 'swap_interactions' for c in calls_in(fn, nested=False)):
            continue
        p = Parity('swap_interactions')
        odd = False
        for _s, st in p.exit_states(fn):
            for conf in st:
                if any(par != 0 for _k, par in conf):
                    odd = True
        if odd:
            unbalanced.append(fid)
    ctx.note('unbalanced_swappers', ['%s.%s' % f for f in unbalanced])
    for fid in unbalanced:
        ok, wit = fenced(cg, reach, fid)
        ctx.ob('C15.R2', 'fenced:%s.%s' % fid, ok,
               '%s leaves interactions swapped; every call path to it must pass a call site that '
               'is control dependent on options.%s%s' % (
                   fid[1], DISPLAY_FLAG, '' if ok else ' - unguarded: ' + wit),
               cg.mod_of[fid], cg.funcs[fid])
    # positive control: the probe itself is NOT fenced (it runs in every mode)
    ok_p, _w = fenced(cg, reach, probe_id)
    ctx.ob('C15.R2', 'control:probe-not-fenced', not ok_p,
           'control instance: the (balanced) probe is reachable without the display flag, so the '
           'fence analysis does distinguish guarded from unguarded paths', cmod, probe)
    ctx.need('C15.R2', 2)

    # ------------------------------------------------------------------ R3
    ident = cmod.func(cls + '.identify_non_covalently_coupled_groups')
    pcalls = [c for c in calls_in(ident) if last_attr(c) == 'is_coupled_protonation_state_probability']
    ok = len(pcalls) == 1 and any(p and 'self.do_prot_stat' in t for t, p in fact_texts(pcalls[0], ident))
    ctx.ob('C15.R3', 'switch:probe-under-do_prot_stat', ok,
           'the probe is evaluated under the do_prot_stat switch', cmod, pcalls[0] if pcalls else ident)
    ccls = cmod.cls(cls)
    dflt = [n for n in ccls.body if isinstance(n, ast.Assign) and norm(n.targets[0]) == 'do_prot_stat']
    stores = []
    for m2, q2, f2 in prog.all_funcs():
        for n in walk_no_nested(f2):
            if isinstance(n, (ast.Assign, ast.AugAssign)):
                tg = n.targets if isinstance(n, ast.Assign) else [n.target]
                if any(isinstance(t, ast.Attribute) and t.attr == 'do_prot_stat' for t in tg):
                    stores.append((m2, q2, n))
    ctx.ob('C15.R3', 'switch:default-true-never-written',
           len(dflt) == 1 and norm(dflt[0].value) == 'True' and not stores,
           'do_prot_stat defaults to True and nothing stores to it', cmod, dflt[0] if dflt else ccls)

    # ------------------------------------------------------------------ R4
    for meth, lst in (('couple_non_covalently', 'non_covalently_coupled_groups'),
                      ('couple_covalently', 'covalently_coupled_groups')):
        fn = gmod.func('Group.' + meth)
        other = fn.args.args[1].arg
        apps = [c for c in calls_in(fn, nested=False) if last_attr(c) == 'append'
                and isinstance(c.func.value, ast.Attribute) and c.func.value.attr == lst]
        dirs = sorted((norm(c.func.value.value), norm(c.args[0])) for c in apps)
        ctx.ob('C15.R4', meth + ':both-directions', dirs == sorted([('self', other), (other, 'self')]),
               '%s registers the coupling on both groups (%s)' % (meth, dirs), gmod, fn)
        for c in apps:
            owner, item = norm(c.func.value.value), norm(c.args[0])
            g = any(p and t.replace(' ', '') == ('%snotin%s.%s' % (item, owner, lst)) for t, p in fact_texts(c, fn))
            ctx.ob('C15.R4', '%s:no-duplicate:%s' % (meth, owner), g,
                   'the append is guarded by a not-in test', gmod, c)
        # unconditional: both appends at the top level of the function (only their own guard)
        ctx.ob('C15.R4', meth + ':unconditional',
               all(len([g for g in guards_of(c, fn) if g[2] == 'if']) == 1 for c in apps) and len(apps) == 2,
               'neither direction depends on anything but its own not-in test', gmod, fn)
    writers = {}
    for m2, q2, f2 in prog.all_funcs():
        for n in walk_no_nested(f2):
            if isinstance(n, ast.Call) and last_attr(n) in typestate.LIST_MUTATORS \
                    and isinstance(n.func.value, ast.Attribute) \
                    and n.func.value.attr == 'non_covalently_coupled_groups':
                writers.setdefault((m2.name, q2), n)
            if isinstance(n, ast.Assign) and any(
                    isinstance(t, ast.Attribute) and t.attr == 'non_covalently_coupled_groups'
                    and 'Group' in q2 for t in n.targets):
                writers.setdefault((m2.name, q2), n)
    allowed = {('group', 'Group.__init__'), ('group', 'Group.clone'),
               ('group', 'Group.couple_non_covalently')}
    ctx.ob('C15.R4', 'coupling-list:writers', set(writers) <= allowed,
           'the coupling lists are written only by the constructor (empty), clone (alias) and '
           'couple_non_covalently (writers %s)' % sorted(writers), gmod, gmod.func('Group.couple_non_covalently'))
    # the reported (averaged) table: Group.clone aliases the partner list of the
    # first conformation that holds the group, so the marks of the other
    # conformations never arrive and the relation is asymmetric in the report
    # unless the averaging step rebuilds the lists in terms of averaged groups
    mcm = prog.mod('molecular_container')
    avg = mcm.func('MolecularContainer.average_of_conformations')
    rebuilt = [n for n in walk_no_nested(avg) if isinstance(n, ast.Assign)
               and isinstance(n.targets[0], ast.Attribute)
               and n.targets[0].attr == 'non_covalently_coupled_groups'
               and norm(n.targets[0].value) != 'self' and not norm(n.targets[0].value).endswith('conformation')]
    clone = gmod.func('Group.clone')
    aliases = any(isinstance(n, ast.Assign) and isinstance(n.targets[0], ast.Attribute)
                  and n.targets[0].attr == 'non_covalently_coupled_groups'
                  and norm(n.value) == 'self.non_covalently_coupled_groups' for n in walk_no_nested(clone))
    ctx.ob('C15.R4', 'average:coupling-marks-rebuilt', bool(rebuilt) or not aliases,
           'the averaged groups get partner lists built from all conformations and made of '
           'averaged groups (clone() aliases the list of one conformation: %s; rebuilt in the '
           'averaging step: %s)' % (aliases, bool(rebuilt)), mcm, rebuilt[0] if rebuilt else avg)
    # ... and each averaged group's list is computed from that group alone: the
    # list is created inside the per-group loop and no condition on the way to
    # its append reads state that an earlier group's iteration has changed
    # (a set of "already listed" partners shared by all groups makes B's list
    # lose A once A was listed for somebody else: an asymmetric relation)
    if rebuilt:
        from sa.astutil import enclosing_loops, names_in
        loops = enclosing_loops(rebuilt[0], avg)
        outer = loops[-1] if loops else None     # the per-group loop
        indep, why = outer is not None, 'no enclosing loop'
        if outer is not None:
            bound_inside = {n.id for n in ast.walk(outer) if isinstance(n, ast.Name)
                            and isinstance(n.ctx, ast.Store)}
            mutated = set()
            for c in calls_in(outer):
                if isinstance(c.func, ast.Attribute) and isinstance(c.func.value, ast.Name) and c.func.attr in (
                        'add', 'append', 'extend', 'update', 'insert', 'remove', 'discard', 'pop',
                        'setdefault', 'clear'):
                    mutated.add(c.func.value.id)
            for n in ast.walk(outer):
                if isinstance(n, ast.Subscript) and isinstance(n.ctx, (ast.Store, ast.Del)) \
                        and isinstance(n.value, ast.Name):
                    mutated.add(n.value.id)
                if isinstance(n, ast.AugAssign) and isinstance(n.target, ast.Name):
                    mutated.add(n.target.id)
            carried = mutated - bound_inside
            lst = norm(rebuilt[0].value)
            apps = [c for c in calls_in(outer) if last_attr(c) in ('append', 'add')
                    and norm(c.func.value) == lst]
            why = 'carried state %s' % sorted(carried)
            indep = lst in bound_inside and bool(apps)
            for c in apps:
                for e, _p in facts_at(c, avg):
                    if names_in(e) & carried:
                        indep = False
                        why = 'append of %s is conditioned on %s, which carries state from one group ' \
                              'to the next' % (lst, sorted(names_in(e) & carried))
        # ... and from *all* of them: the list is created before, and stored
        # after, the loop over the conformation names (created or stored inside
        # it, the marks of the last conformation that holds the group win)
        blk = getattr(rebuilt[0]._parent, 'body', [])
        lst_ = norm(rebuilt[0].value)
        inits = [st for st in blk if isinstance(st, (ast.Assign, ast.AnnAssign))
                 and norm(st.targets[0] if isinstance(st, ast.Assign) else st.target) == lst_
                 and st.value is not None and norm(st.value) in ('[]', 'list()')]
        conf_loops = [st for st in blk if isinstance(st, ast.For) and 'conformation_names' in norm(st.iter)
                      and any(last_attr(c) in ('append', 'add') and norm(c.func.value) == lst_
                              for c in calls_in(st))]
        all_inits = [st for st in ast.walk(avg) if isinstance(st, (ast.Assign, ast.AnnAssign))
                     and norm(st.targets[0] if isinstance(st, ast.Assign) else st.target) == lst_]
        union = rebuilt[0] in blk and len(inits) == 1 and len(all_inits) == 1 and len(conf_loops) == 1 \
            and blk.index(inits[0]) < blk.index(conf_loops[0]) < blk.index(rebuilt[0])
        ctx.ob('C15.R4', 'average:marks-union-over-conformations', union,
               'the partner list of an averaged group is created before, and stored after, one loop '
               'over all conformation names that appends to it: the union of the marks',
               mcm, rebuilt[0])
        ctx.ob('C15.R4', 'average:marks-per-group-independent', indep,
               'the partner list of an averaged group is built inside the per-group loop from that '
               'group\'s conformations only (%s)' % why, mcm, rebuilt[0])
    # coupling is registered exactly when the probe reports a positive factor
    reg = [c for c in calls_in(ident) if last_attr(c) == 'couple_non_covalently']
    ican = canon(ident)

    def positive_factor(e, p):
        # 0 < <result of is_coupled_protonation_state_probability(...)>['coupling_factor']
        # (the loader orients every ordering comparison with '<')
        if not (p and isinstance(e, ast.Compare) and len(e.ops) == 1 and isinstance(e.ops[0], ast.Lt)
                and try_fold(e.left) == 0):
            return False
        left = ican.expr(e.comparators[0])
        return isinstance(left, ast.Subscript) and isinstance(left.slice, ast.Constant) \
            and left.slice.value == 'coupling_factor' and isinstance(left.value, ast.Call) \
            and last_attr(left.value) == 'is_coupled_protonation_state_probability'
    ok = len(reg) == 1 and any(positive_factor(e, p) for e, p in facts_at(reg[0], ident))
    ctx.ob('C15.R4', 'coupling:registered-on-positive-factor', ok,
           'groups are coupled exactly when the probe returns a positive coupling factor', cmod,
           reg[0] if reg else ident)

    # ------------------------------------------------------------------ R5
    ds = gmod.func('Group.get_determinant_string')
    star = [s for s in walk_no_nested(ds) if isinstance(s, ast.AugAssign)
            and isinstance(s.value, ast.Constant) and s.value.value == '*']
    blank = [s for s in walk_no_nested(ds) if isinstance(s, ast.AugAssign)
             and isinstance(s.value, ast.Constant) and s.value.value == ' ']
    ok = False
    if len(star) == 1 and len(blank) >= 1:
        par = star[0]._parent
        ok = isinstance(par, ast.If) and star[0] in par.body and \
            is_nonempty_test(par.test, 'self.non_covalently_coupled_groups') and \
            any(b in par.orelse for b in blank)
    ctx.ob('C15.R5', 'star-iff-partner', ok,
           "the row gets '*' on the true edge and ' ' on the false edge of "
           "'non_covalently_coupled_groups is non-empty'", gmod, star[0] if star else ds)
    ctx.assume('swap + swap-back restores each determinant list as a multiset, not its order; '
               'bit-equality of the recomputed sums is therefore not decided')
