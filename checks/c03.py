"""C03 - results are a pure function of input content and options.

R1 no run-to-run state, R2 no nondeterministic source, R3 no order-sensitive
use of a hashed set, R4 stream/path confluence.
"""
import ast

from sa import callgraph
from sa.astutil import (anorm, call_name, calls_in, dotted, norm, walk_no_nested, last_attr,
                        names_in, func_params, guards_of, enclosing_function)
from sa.loader import AnalysisError
from sa.canon import canon
from checks import common

MUTATORS = ('append', 'extend', 'insert', 'remove', 'pop', 'clear', 'update', 'setdefault',
            'add', 'discard', 'sort', 'reverse', 'popitem', '__setitem__')
STATELESS_LIB = ('logging.getLogger', 'TypeVar', 'Union', 'Callable', 'Tuple', 'List', 'Dict',
                 'Optional', 'Path')
NONDET_PREFIXES = ('random.', 'time.', 'datetime.', 'date.', 'uuid.', 'secrets.',
                   'threading.', 'multiprocessing.', 'os.getpid', 'os.environ', 'os.listdir',
                   'os.scandir', 'os.urandom', 'glob.', 'os.times', 'os.getenv', 'tempfile.')
NONDET_NAMES = ('hash', 'id', 'input', 'getpid', 'urandom', 'time', 'perf_counter', 'today', 'now')
SET_OK_METHODS = ('add', 'discard', 'update', 'issubset', 'issuperset', 'isdisjoint', 'copy',
                  'union', 'intersection', 'difference', 'remove', 'clear',
                  'difference_update', 'intersection_update')
ORDER_SINK_CALLS = ('list', 'tuple', 'min', 'max', 'sorted', 'enumerate', 'map', 'filter',
                    'zip', 'iter', 'next', 'sum', 'functools.reduce', 'reduce',
                    'itertools.combinations', 'itertools.permutations', 'itertools.chain',
                    'dict.fromkeys', 'str.join')


def classify_module_value(node, classes):
    if isinstance(node, (ast.List, ast.Dict, ast.Set, ast.ListComp, ast.DictComp, ast.SetComp)):
        return 'mutable-literal'
    if isinstance(node, ast.Call):
        name = call_name(node) or ''
        base = name.split('.')[-1]
        if name in ('set', 'dict', 'list', 'bytearray', 'collections.defaultdict',
                    'defaultdict', 'collections.OrderedDict', 'OrderedDict', 'deque',
                    'collections.deque'):
            return 'mutable-literal'
        if base in classes:
            return 'instance:' + base
        if name in STATELESS_LIB or base in ('getLogger', 'TypeVar', 'compile'):
            return 'constant'
        if base in ('ArgumentParser', 'StringIO', 'Random', 'Lock', 'count', 'cycle'):
            return 'stateful-library:' + base
        return 'constant'
    if isinstance(node, ast.BinOp):
        l, r = classify_module_value(node.left, classes), classify_module_value(node.right, classes)
        return 'mutable-literal' if 'mutable-literal' in (l, r) else 'constant'
    return 'constant'


class SetFacts:
    """Which expressions/locals/returns/params are set-typed."""

    def __init__(self, prog, cg):
        self.prog, self.cg = prog, cg
        self.returns_set = set()
        self.yields_set = set()
        self.param_sinks = {}      # fid -> {param name: sink text}
        self.local_sets = {}       # fid -> {name}
        self.module_sets = {}      # mod -> {name}
        for mod in prog.modules.values():
            names = set()
            for name, val in mod.module_assigns().items():
                if self._is_set_expr(mod.name, None, val, names):
                    names.add(name)
            self.module_sets[mod.name] = names
        for _ in range(6):
            changed = False
            for fid, fn in cg.funcs.items():
                loc = self._locals(fid, fn)
                if loc != self.local_sets.get(fid):
                    self.local_sets[fid] = loc
                    changed = True
                for node in walk_no_nested(fn):
                    if isinstance(node, ast.Return) and node.value is not None and \
                            self.is_set(fid, node.value) and fid not in self.returns_set:
                        self.returns_set.add(fid)
                        changed = True
                    if isinstance(node, ast.Yield) and node.value is not None and \
                            self.is_set(fid, node.value) and fid not in self.yields_set:
                        self.yields_set.add(fid)
                        changed = True
                if fn.returns is not None and 'Set[' in norm(fn.returns):
                    if norm(fn.returns).startswith(('Set[', 'set[', 'typing.Set[')):
                        if fid not in self.returns_set:
                            self.returns_set.add(fid)
                            changed = True
                    if 'Iterator[Set[' in norm(fn.returns) or 'Iterable[Set[' in norm(fn.returns):
                        if fid not in self.yields_set:
                            self.yields_set.add(fid)
                            changed = True
            if not changed:
                break

    def _call_targets(self, fid, call):
        cache = self.__dict__.setdefault('_site_map', {})
        if fid not in cache:
            cache[fid] = {id(node): targets for node, targets, _k in self.cg.sites.get(fid, [])}
        return cache[fid].get(id(call), [])

    def _is_set_expr(self, modname, fid, node, local_names):
        if isinstance(node, (ast.Set, ast.SetComp)):
            return True
        if isinstance(node, ast.Call):
            name = call_name(node) or ''
            if name in ('set', 'frozenset'):
                return True
            if fid is not None:
                tg = self._call_targets(fid, node)
                if tg and all(t in self.returns_set for t in tg):
                    return True
            if last_attr(node) in ('union', 'intersection', 'difference', 'copy',
                                   'symmetric_difference') and isinstance(node.func, ast.Attribute):
                return self._is_set_expr(modname, fid, node.func.value, local_names)
            return False
        if isinstance(node, ast.BinOp) and isinstance(node.op, (ast.BitOr, ast.BitAnd, ast.Sub,
                                                                 ast.BitXor)):
            return self._is_set_expr(modname, fid, node.left, local_names) or \
                self._is_set_expr(modname, fid, node.right, local_names)
        if isinstance(node, ast.Name):
            if node.id in local_names:
                return True
            return node.id in self.module_sets.get(modname, ())
        if isinstance(node, ast.IfExp):
            return self._is_set_expr(modname, fid, node.body, local_names) or \
                self._is_set_expr(modname, fid, node.orelse, local_names)
        return False

    def _locals(self, fid, fn):
        names = set(self.local_sets.get(fid, ()))
        for arg in fn.args.args + fn.args.kwonlyargs:
            if arg.annotation is not None and norm(arg.annotation).startswith(
                    ('Set[', 'set[', 'typing.Set[', 'FrozenSet[')):
                names.add(arg.arg)
        for _ in range(4):
            before = len(names)
            for node in walk_no_nested(fn):
                if isinstance(node, ast.Assign):
                    if self._is_set_expr(fid[0], fid, node.value, names):
                        for t in node.targets:
                            if isinstance(t, ast.Name):
                                names.add(t.id)
                elif isinstance(node, ast.AnnAssign) and isinstance(node.target, ast.Name):
                    ann = norm(node.annotation)
                    if ann.startswith(('Set[', 'set[', 'typing.Set[')) or (
                            node.value is not None and
                            self._is_set_expr(fid[0], fid, node.value, names)):
                        names.add(node.target.id)
                elif isinstance(node, ast.For) and isinstance(node.target, ast.Name) \
                        and isinstance(node.iter, ast.Call):
                    tg = self._call_targets(fid, node.iter)
                    if tg and all(t in self.yields_set for t in tg):
                        names.add(node.target.id)
            if len(names) == before:
                break
        return names

    def is_set(self, fid, node):
        return self._is_set_expr(fid[0], fid, node, self.local_sets.get(fid, set()))


def order_sinks(facts, fid, fn, is_set, extra_params=()):
    """[(node, what)] order-sensitive uses of set-typed values in fn."""
    res = []
    for node in walk_no_nested(fn):
        if isinstance(node, ast.For) and is_set(node.iter):
            res.append((node.iter, 'for-iteration over a set'))
        elif isinstance(node, ast.comprehension) and is_set(node.iter):
            par = node._parent
            if not isinstance(par, ast.SetComp):
                res.append((node.iter, 'comprehension over a set'))
        elif isinstance(node, ast.Call):
            name = call_name(node) or ''
            if last_attr(node) == 'pop' and isinstance(node.func, ast.Attribute) \
                    and is_set(node.func.value) and not node.args:
                res.append((node, 'set.pop() returns an arbitrary element'))
            elif name in ORDER_SINK_CALLS or name.split('.')[-1] in ('reduce', 'join'):
                for a in node.args:
                    if is_set(a):
                        res.append((node, '%s(...) over a set' % name))
            elif last_attr(node) in ('extend', 'writelines', 'extendleft') and node.args \
                    and is_set(node.args[0]):
                res.append((node, 'a sequence is extended with the elements of a set'))
            # passing a set to a callee parameter that flows to a sink
            for t in facts._call_targets(fid, node):
                sinks = facts.param_sinks.get(t, {})
                if not sinks:
                    continue
                callee = facts.cg.funcs[t]
                cparams = func_params(callee)
                bound = isinstance(node.func, ast.Attribute) and cparams[:1] == ['self']
                for i, a in enumerate(node.args):
                    idx = i + (1 if bound else 0)
                    if idx < len(cparams) and cparams[idx] in sinks and is_set(a):
                        res.append((node, 'set passed to %s.%s(%s) which %s' % (
                            t[0], t[1], cparams[idx], sinks[cparams[idx]])))
                for kw in node.keywords:
                    if kw.arg in sinks and is_set(kw.value):
                        res.append((node, 'set passed to %s.%s(%s) which %s' % (
                            t[0], t[1], kw.arg, sinks[kw.arg])))
        elif isinstance(node, ast.Assign) and isinstance(node.targets[0], (ast.Tuple, ast.List)) \
                and is_set(node.value):
            res.append((node, 'unpacking a set'))
        elif isinstance(node, ast.AugAssign) and isinstance(node.op, ast.Add) and is_set(node.value) \
                and not is_set(node.target):
            res.append((node, 'a sequence is extended (+=) with the elements of a set'))
        elif isinstance(node, ast.Starred) and is_set(node.value):
            res.append((node, 'star-unpacking a set'))
    return res


def run(ctx):
    prog = ctx.prog
    cg = callgraph.build(prog)
    reach = cg.reachable(callgraph.ENTRY_POINTS, callgraph.versionA_exclude)
    all_classes = {}
    for mod in prog.modules.values():
        for cname in mod.classes:
            all_classes[cname] = mod

    # ------------------------------------------------------------------ R1a/d
    mutable_globals = {}
    for mod in prog.modules.values():
        for name, val in mod.module_assigns().items():
            kind = classify_module_value(val, all_classes)
            if kind != 'constant':
                mutable_globals[(mod.name, name)] = (kind, val, mod)
    ctx.note('module_level_mutable_bindings',
             {'%s.%s' % k: v[0] for k, v in sorted(mutable_globals.items())})
    # writes through module-level names anywhere in the package
    for (mname, gname), (kind, val, mod) in sorted(mutable_globals.items()):
        writes = []
        for m2, q2, f2 in prog.all_funcs():
            refers = lambda n: (isinstance(n, ast.Name) and n.id == gname and (
                m2 is mod or cg.imports[m2.name].get(gname) == ('object', mname, gname))) or \
                (dotted(n) or '').endswith('.' + mname + '.' + gname)
            for node in walk_no_nested(f2):
                if isinstance(node, (ast.Assign, ast.AugAssign, ast.Delete)):
                    tg = node.targets if not isinstance(node, ast.AugAssign) else [node.target]
                    for t in tg:
                        base = t
                        depth = 0
                        while isinstance(base, (ast.Subscript, ast.Attribute)):
                            base = base.value
                            depth += 1
                            if refers(base) and depth >= 1:
                                writes.append((m2, q2, node))
                                break
                elif isinstance(node, ast.Call) and last_attr(node) in MUTATORS \
                        and isinstance(node.func, ast.Attribute):
                    base = node.func.value
                    while isinstance(base, (ast.Subscript, ast.Attribute)) and not refers(base):
                        base = base.value
                    if refers(base):
                        writes.append((m2, q2, node))
                elif isinstance(node, ast.Global) and gname in node.names and m2 is mod:
                    writes.append((m2, q2, node))
        if kind.startswith('instance:') or kind.startswith('stateful-library:'):
            cname = kind.split(':')[1]
            cmod = all_classes.get(cname)
            triage_key = '%s.%s' % (mname, gname)
            reason = ctx.triage('c03_singletons', triage_key)
            ctx.ob('C03.R1', 'module-level-instance:' + triage_key, reason is not None,
                   'module-level instance %s = %s(...) lives for the whole process; it must be a '
                   'reviewed stateless singleton%s' % (
                       triage_key, cname, ' (%s)' % reason if reason else
                       ' - not reviewed: per-run objects must be created inside functions'),
                   mod, val)
            # stores to self.<attr> outside __init__ in the singleton's class
            if cmod is not None:
                for qual, fn in cmod.funcs.items():
                    if not qual.startswith(cname + '.') or qual.endswith('.__init__'):
                        continue
                    for node in walk_no_nested(fn):
                        site = None
                        if isinstance(node, (ast.Assign, ast.AugAssign)):
                            tg = node.targets if isinstance(node, ast.Assign) else [node.target]
                            for t in tg:
                                base = t
                                while isinstance(base, (ast.Subscript, ast.Attribute)):
                                    if isinstance(base.value, ast.Name) and base.value.id == 'self':
                                        site = node
                                    base = base.value
                        elif isinstance(node, ast.Call) and last_attr(node) in MUTATORS and \
                                norm(node.func.value).startswith('self.'):
                            site = node
                        if site is not None:
                            key = '%s:%s:%s' % (triage_key, qual, anorm(site, fn)[:80])
                            r2 = ctx.triage('c03_singleton_state', key)
                            ctx.ob('C03.R1', 'singleton-state:' + key, r2 is not None,
                                   'method %s of the process-wide singleton %s writes instance '
                                   'state%s' % (qual, triage_key, ' (reviewed: %s)' % r2 if r2 else
                                                ': it survives into the next run'), cmod, site)
        for m2, q2, node in writes:
            key = '%s.%s<-%s.%s:%s' % (mname, gname, m2.name, q2, anorm(node, f2)[:60])
            r3 = ctx.triage('c03_global_writes', key)
            ctx.ob('C03.R1', 'global-write:' + key, r3 is not None,
                   'function %s.%s writes through the module-level object %s.%s%s' % (
                       m2.name, q2, mname, gname, ' (reviewed: %s)' % r3 if r3 else
                       ': state leaks from one run to the next'), m2, node)
    # objects created in a class body (descriptors, shared defaults) are as
    # process-wide as module-level ones: one object serves every instance of
    # the owner class in every run
    n_class_level = 0
    for m2 in prog.modules.values():
        for cls in [n for n in ast.walk(m2.tree) if isinstance(n, ast.ClassDef)]:
            for item in cls.body:
                val = item.value if isinstance(item, (ast.Assign, ast.AnnAssign)) else None
                if not isinstance(val, ast.Call):
                    continue
                cname = (call_name(val) or '').split('.')[-1]
                cmod = all_classes.get(cname)
                if cmod is None:
                    continue
                tgt = item.targets[0] if isinstance(item, ast.Assign) else item.target
                owner = '%s.%s.%s' % (m2.name, cls.name, norm(tgt))
                n_class_level += 1
                for qual, fn in cmod.funcs.items():
                    if not qual.startswith(cname + '.') or qual.split('.')[-1] in ('__init__', '__set_name__'):
                        continue
                    selfname = fn.args.args[0].arg if fn.args.args else 'self'
                    for node in walk_no_nested(fn):
                        site = None
                        if isinstance(node, (ast.Assign, ast.AugAssign, ast.AnnAssign)):
                            tg = node.targets if isinstance(node, ast.Assign) else [node.target]
                            for t in tg:
                                base = t
                                while isinstance(base, (ast.Subscript, ast.Attribute)):
                                    if isinstance(base.value, ast.Name) and base.value.id == selfname:
                                        site = node
                                    base = base.value
                        elif isinstance(node, ast.Call) and ((
                                last_attr(node) in MUTATORS and
                                norm(node.func.value).startswith(selfname + '.')) or (
                                call_name(node) == 'setattr' and node.args
                                and norm(node.args[0]) == selfname)):
                            site = node
                        if site is not None:
                            key = '%s:%s:%s' % (owner, qual, anorm(site, fn)[:80])
                            r2 = ctx.triage('c03_singleton_state', key)
                            ctx.ob('C03.R1', 'class-level-state:' + key, r2 is not None,
                                   'method %s of the class-level object %s (one object for all '
                                   'instances and all runs) writes its own state%s' % (
                                       qual, owner, ' (reviewed: %s)' % r2 if r2 else
                                       ': the value computed for one run is seen by the next'),
                                   cmod, site)
    ctx.note('class_level_instances', n_class_level)
    ctx.ob('C03.R1', 'class-level-instances:found', n_class_level >= 4,
           'class-level objects of repo classes are enumerated (%d; the squared cut-off '
           'descriptors of Parameters)' % n_class_level, prog.mod('parameters'),
           prog.mod('parameters').tree)
    # structural conditions behind the reviewed singleton entries
    cgm = prog.mod('coupled_groups')
    ncls = 'NonCovalentlyCoupledGroups'
    ident = cgm.func(ncls + '.identify_non_covalently_coupled_groups')
    from sa.astutil import effective
    first = effective(ident.body)[0]
    readers = [q for q, f in cgm.funcs.items() if q.startswith(ncls + '.')
               and any(norm(n) == 'self.parameters' and isinstance(n.ctx, ast.Load)
                       for n in walk_no_nested(f))]
    external = set()
    for src, sites in cg.sites.items():
        if src[0] == 'coupled_groups' and src[1].startswith(ncls + '.'):
            continue
        for _c, targets, _k in sites:
            for t in targets:
                if t[0] == 'coupled_groups' and t[1].startswith(ncls + '.') and src in reach:
                    external.add(t[1])
    ctx.ob('C03.R1', 'singleton-entry:NCCG',
           norm(first) == 'self.parameters = conformation.parameters' and
           not (external & set(readers)) - {ncls + '.identify_non_covalently_coupled_groups'},
           'NCCG: the parameters field is assigned first thing in the only externally called '
           'method that reads it (externally called: %s; readers: %s)'
           % (sorted(external), sorted(readers)), cgm, first)
    pmod_ = prog.mod('protonate')
    inserts = []
    for q, f in pmod_.funcs.items():
        for n in walk_no_nested(f):
            if isinstance(n, ast.Assign) and norm(n.targets[0]).startswith('self.valence_electrons['):
                from sa.astutil import fact_texts
                guarded = any(p and 'not in self.valence_electrons' in t for t, p in fact_texts(n, f))
                inserts.append((norm(n.value), guarded, n))
    ctx.ob('C03.R1', 'idempotent-insert:valence_electrons',
           len({v for v, _g, _n in inserts}) == 1 and all(g for _v, g, _n in inserts)
           and all(isinstance(n.value, ast.Constant) for _v, _g, n in inserts) and len(inserts) >= 1,
           'every insert into the shared valence table is an insert-if-missing of one constant '
           '(%s)' % sorted({v for v, _g, _n in inserts}), pmod_, inserts[0][2] if inserts else pmod_.tree)
    # ------------------------------------------------------------------ R1b
    n_cls = 0
    for mod in prog.modules.values():
        for cname, cls in mod.classes.items():
            is_dc = any('dataclass' in norm(d) for d in cls.decorator_list)
            for node in cls.body:
                val, tname = None, None
                if isinstance(node, ast.Assign):
                    val, tname = node.value, norm(node.targets[0])
                elif isinstance(node, ast.AnnAssign) and node.value is not None:
                    val, tname = node.value, norm(node.target)
                if val is None:
                    continue
                n_cls += 1
                kind = classify_module_value(val, all_classes)
                ok = kind == 'constant'
                if kind.startswith('instance:') and kind.split(':')[1] == 'squared_property':
                    ok = True      # descriptor without per-instance state
                if is_dc and isinstance(val, ast.Call) and call_name(val) == 'field':
                    ok = True
                if not ok:
                    ctx.ob('C03.R1', 'class-level-mutable:%s.%s.%s' % (mod.name, cname, tname), False,
                           'class attribute %s.%s has a mutable default shared by all instances '
                           'and all runs' % (cname, tname), mod, node)
    ctx.ob('C03.R1', 'class-level-defaults:scanned', n_cls >= 40,
           '%d class-level defaults scanned; all are immutable constants, dataclass fields with '
           'factories or stateless descriptors' % n_cls, prog.mod('atom'), prog.mod('atom').cls('Atom'))
    cls_stores = []
    for m2, q2, f2 in prog.all_funcs():
        for node in walk_no_nested(f2):
            if isinstance(node, (ast.Assign, ast.AugAssign)):
                tg = node.targets if isinstance(node, ast.Assign) else [node.target]
                for t in tg:
                    if isinstance(t, ast.Attribute):
                        b = norm(t.value)
                        if b in all_classes or b in ('cls', 'type(self)', 'self.__class__'):
                            cls_stores.append((m2, q2, node))
            if isinstance(node, ast.Call) and call_name(node) == 'setattr' and node.args and \
                    norm(node.args[0]) in list(all_classes) + ['cls', 'type(self)']:
                cls_stores.append((m2, q2, node))
    ctx.ob('C03.R1', 'no-class-attribute-store', not cls_stores,
           'no function stores to a class attribute (%s)' % [m.name + '.' + q for m, q, _ in cls_stores],
           cls_stores[0][0] if cls_stores else prog.mod('atom'),
           cls_stores[0][2] if cls_stores else prog.mod('atom').cls('Atom'))
    # ------------------------------------------------------------------ R1c
    bad_defaults = []
    for m2, q2, f2 in prog.all_funcs():
        for d in list(f2.args.defaults) + [k for k in f2.args.kw_defaults if k is not None]:
            if classify_module_value(d, all_classes) != 'constant':
                bad_defaults.append((m2, q2, d))
    ctx.ob('C03.R1', 'no-mutable-default-argument', not bad_defaults,
           'no function has a mutable default argument (%s)' % [m.name + '.' + q for m, q, _ in bad_defaults],
           bad_defaults[0][0] if bad_defaults else prog.mod('run'),
           bad_defaults[0][2] if bad_defaults else prog.mod('run').func('single'))
    # ------------------------------------------------------------------ R1d
    run_mod = prog.mod('run')
    for qual in ('single', 'main'):
        fn = run_mod.func(qual)
        made = {call_name(c) for c in calls_in(fn, nested=False)}
        ctx.ob('C03.R1', 'per-run-objects:' + qual,
               {'loadOptions', 'Parameters', 'MolecularContainer', 'read_parameter_file'} <= made,
               'run.%s creates options, parameters and the molecular container afresh' % qual,
               run_mod, fn)
    lo = prog.mod('lib').func('loadOptions')
    ctx.ob('C03.R1', 'per-run-objects:parser',
           any(call_name(c) == 'build_parser' for c in calls_in(lo)) and
           any(last_attr(c) == 'parse_args' and any(
               kw.arg == 'namespace' and norm(kw.value) == 'Options()' for kw in c.keywords)
               for c in calls_in(lo)),
           'loadOptions builds a new parser and a new Options namespace on every call',
           prog.mod('lib'), lo)
    bp = prog.mod('lib').func('build_parser')
    mut_defaults = [c for c in calls_in(bp) if last_attr(c) == 'add_argument'
                    and any(kw.arg == 'default' and not isinstance(kw.value, (ast.List, ast.Constant,
                                                                             ast.Tuple, ast.BinOp,
                                                                             ast.Call))
                            for kw in c.keywords)]
    ctx.ob('C03.R1', 'parser-defaults-fresh', not mut_defaults,
           'argument defaults are literals evaluated on every build_parser call', prog.mod('lib'), bp)
    # ------------------------------------------------------------------ R1e (L6)
    pw = []
    allowed_pw = lambda m, q: m == 'parameters' or (m == 'input' and q == 'read_parameter_file')
    for m2, q2, f2 in prog.all_funcs():
        if allowed_pw(m2.name, q2):
            continue
        for node in walk_no_nested(f2):
            if isinstance(node, (ast.Assign, ast.AugAssign, ast.Delete)):
                tg = node.targets if not isinstance(node, ast.AugAssign) else [node.target]
                for t in tg:
                    base = t.value if isinstance(t, (ast.Attribute, ast.Subscript)) else None
                    if base is not None and 'parameters' in norm(base).split('.') or \
                            (base is not None and '.parameters.' in norm(base) + '.'):
                        pw.append((m2, q2, node))
            elif isinstance(node, ast.Call) and last_attr(node) in MUTATORS + ('add', 'insert') \
                    and isinstance(node.func, ast.Attribute):
                b = norm(node.func.value)
                if 'parameters' in b.split('.') or b.startswith('parameters.'):
                    pw.append((m2, q2, node))
            elif isinstance(node, ast.Call) and call_name(node) == 'setattr' and node.args and \
                    'parameters' in norm(node.args[0]):
                pw.append((m2, q2, node))
    ctx.ob('C03.R1', 'parameters-read-only-after-parsing', not pw,
           'no code outside parameter parsing writes into a Parameters object or its tables '
           '(main shares one Parameters across all inputs); writers: %s'
           % ['%s.%s: %s' % (m.name, q, norm(n)[:50]) for m, q, n in pw],
           pw[0][0] if pw else prog.mod('parameters'),
           pw[0][2] if pw else prog.mod('parameters').cls('Parameters'))
    # options are not mutated after loadOptions (except filenames in single)
    ow = []
    for m2, q2, f2 in prog.all_funcs():
        for node in walk_no_nested(f2):
            if isinstance(node, (ast.Assign, ast.AugAssign)):
                tg = node.targets if isinstance(node, ast.Assign) else [node.target]
                for t in tg:
                    if isinstance(t, ast.Attribute) and norm(t.value).split('.')[-1] == 'options' \
                            and t.attr != 'options':
                        ow.append((m2.name, q2, t.attr))
    ctx.ob('C03.R1', 'options-writes', set(ow) <= {('run', 'single', 'filenames')},
           'parsed options are not modified by the calculation (writes: %s)' % sorted(set(ow)),
           run_mod, run_mod.func('single'))
    ctx.need('C03.R1', 10)

    # ------------------------------------------------------------------ R2
    accepted = {('output', 'get_propka_header', 'date.today'): 'the date line is excluded by the property',
                ('group', 'Group.__hash__', 'id'): 'identity hash (order-sensitive uses are R3)',
                ('iterative', 'Iterative.__hash__', 'id'): 'identity hash (order-sensitive uses are R3)'}
    seen_acc = set()
    scanned = 0
    for mod in prog.modules.values():
        for call in ast.walk(mod.tree):
            if not isinstance(call, ast.Call):
                continue
            efn = enclosing_function(call)
            while efn is not None and not hasattr(efn, '_qualname'):
                efn = enclosing_function(efn)
            fid = (mod.name, efn._qualname if efn is not None else '<module>')
            if efn is not None and callgraph.versionA_exclude(fid):
                continue
            name = call_name(call) or ''
            scanned += 1
            hit = name.startswith(NONDET_PREFIXES) or (name in NONDET_NAMES) or \
                (name.split('.')[-1] in ('today', 'now', 'getpid', 'urandom', 'uuid4', 'uuid1'))
            if not hit:
                continue
            if name == 'id':
                # an object id used purely as a look-up key (dict key, .get()/[] key,
                # membership) never reaches a result: only its equality matters
                par = call._parent
                as_key = (isinstance(par, ast.DictComp) and par.key is call) or \
                    (isinstance(par, ast.Dict) and any(k is call for k in par.keys)) or \
                    (isinstance(par, ast.Subscript) and par.slice is call) or \
                    (isinstance(par, ast.Call) and last_attr(par) in ('get', 'pop', 'setdefault', 'add', 'discard')
                     and par.args and par.args[0] is call) or \
                    (isinstance(par, ast.Compare) and isinstance(par.ops[0], (ast.In, ast.NotIn, ast.Eq,
                                                                                ast.NotEq, ast.Is, ast.IsNot)))
                if as_key:
                    continue
            key = (fid[0], fid[1], name)
            if key in accepted:
                seen_acc.add(key)
                ctx.ob('C03.R2', 'nondeterministic-source:%s.%s:%s' % key, True,
                       'accepted use of %s: %s' % (name, accepted[key]), mod, call)
            else:
                ctx.ob('C03.R2', 'nondeterministic-source:%s.%s:%s' % key, False,
                       '%s.%s calls %s, whose value differs from run to run' % key, mod, call)
        for node in ast.walk(mod.tree):
            if isinstance(node, ast.Attribute) and norm(node) in ('os.environ',):
                ctx.ob('C03.R2', 'environment-read:%s:%d' % (mod.name, node.lineno), False,
                       'the environment is read', mod, node)
    ctx.note('calls_scanned_for_nondeterminism', scanned)
    ctx.ob('C03.R2', 'control:date-today-recognised',
           ('output', 'get_propka_header', 'date.today') in seen_acc,
           'control instance: the date.today() call of the header is found by the scan',
           prog.mod('output'), prog.mod('output').func('get_propka_header'))
    # imports of nondeterministic modules
    for mod in prog.modules.values():
        for node in ast.walk(mod.tree):
            if isinstance(node, (ast.Import, ast.ImportFrom)):
                names = [a.name for a in node.names] if isinstance(node, ast.Import) else [node.module or '']
                for n in names:
                    if n.split('.')[0] in ('random', 'secrets', 'uuid', 'threading',
                                           'multiprocessing', 'concurrent', 'asyncio'):
                        ctx.ob('C03.R2', 'import:%s:%s' % (mod.name, n),
                               mod.name == 'ligand_pka_values',
                               'module %s imports %s' % (mod.name, n), mod, node)

    # ------------------------------------------------------------------ R3
    facts = SetFacts(prog, cg)
    # parameter sinks (interprocedural, to a fix-point)
    for _ in range(5):
        changed = False
        for fid, fn in cg.funcs.items():
            params = func_params(fn)
            cur = dict(facts.param_sinks.get(fid, {}))
            for p in params:
                if p in ('self', 'cls') or p in cur:
                    continue
                is_p = lambda n, p=p: isinstance(n, ast.Name) and n.id == p
                hits = order_sinks(facts, fid, fn, is_p)
                if hits:
                    cur[p] = 'uses it order-sensitively (%s)' % hits[0][1]
            if cur != facts.param_sinks.get(fid, {}):
                facts.param_sinks[fid] = cur
                changed = True
        if not changed:
            break
    producers = sorted('%s.%s' % f for f in (facts.returns_set | facts.yields_set))
    ctx.note('set_producers', producers)
    n_sets = 0
    for fid in sorted(cg.funcs):
        fn = cg.funcs[fid]
        if callgraph.versionA_exclude(fid):
            continue
        loc = facts.local_sets.get(fid, set())
        n_sets += len(loc)
        is_s = lambda n, fid=fid: facts.is_set(fid, n)
        for node, what in order_sinks(facts, fid, fn, is_s):
            key = '%s.%s:%s' % (fid[0], fid[1], anorm(node, fn)[:70])
            reason = ctx.triage('c03_set_order', key)
            ctx.ob('C03.R3', 'set-order-sink:' + key, reason is not None,
                   '%s in %s.%s: iteration order of a set of identity-hashed groups (or of '
                   'strings under hash randomisation) differs from run to run%s' % (
                       what, fid[0], fid[1], ' (reviewed: %s)' % reason if reason else ''),
                   cg.mod_of[fid], node)
    ctx.note('set_typed_locals', n_sets)
    # positive control on an embedded snippet
    snippet = ast.parse("def f(groups):\n    s = set(groups)\n    while s:\n        g = s.pop()\n"
                        "    for x in set(groups):\n        pass\n")
    sfn = snippet.body[0]
    for n in ast.walk(snippet):
        for ch in ast.iter_child_nodes(n):
            ch._parent = n
    loc = {'s'}
    sink_n = len(order_sinks(facts, ('<snippet>', 'f'), sfn,
                             lambda n: (isinstance(n, ast.Name) and n.id in loc) or
                             (isinstance(n, ast.Call) and call_name(n) == 'set')))
    ctx.ob('C03.R3', 'control:embedded-snippet', sink_n == 2,
           'control instance: the rule finds set.pop() and for-over-set in an embedded snippet '
           '(found %d of 2)' % sink_n, prog.mod('conformation_container'),
           prog.mod('conformation_container').tree)
    # hash functions of the package
    for fid in sorted(cg.funcs):
        if fid[1].endswith('.__hash__'):
            fn = cg.funcs[fid]
            ctx.ob('C03.R3', 'hash:%s.%s' % fid, True,
                   '%s hashes by %s: sets/dict keys of these objects have an address-dependent '
                   'order, which R3 keeps away from every order-sensitive use'
                   % (fid[1], norm(fn.body[-1])[:40]), cg.mod_of[fid], fn)

    # ------------------------------------------------------------------ R4
    single = run_mod.func('single')
    uses = [n for n in walk_no_nested(single) if isinstance(n, ast.Name) and n.id == 'stream'
            and isinstance(n.ctx, ast.Load)]
    ok = len(uses) == 1 and isinstance(uses[0]._parent, ast.keyword) and \
        call_name(uses[0]._parent._parent) == 'read_molecule_file'
    ctx.ob('C03.R4', 'stream:only-forwarded', ok,
           'run.single only forwards the stream to read_molecule_file', run_mod, single)
    imod = prog.mod('input')
    rmf = imod.func('read_molecule_file')
    rparams = [a.arg for a in rmf.args.args]
    p_file, p_cont, p_stream = rparams[0], rparams[1], rparams[2]
    path_vars = {norm(s_.targets[0]) for s_ in walk_no_nested(rmf) if isinstance(s_, ast.Assign)
                 and norm(s_.value) == 'Path(%s)' % p_file}
    path_vars.add('Path(%s)' % p_file)            # the path object read where it is used
    name_ok = any(isinstance(s_, ast.Assign) and norm(s_.targets[0]) == p_cont + '.name'
                  and isinstance(s_.value, ast.Attribute) and s_.value.attr == 'stem'
                  and norm(s_.value.value) in path_vars for s_ in walk_no_nested(rmf))
    pick_ok = any(isinstance(s_, ast.IfExp)
                  and norm(s_) == '%s if %s is None else %s' % (p_file, p_stream, p_stream)
                  for s_ in walk_no_nested(rmf))
    ext_ok = any(isinstance(s_, ast.Attribute) and s_.attr == 'suffix' and norm(s_.value) in path_vars
                 for s_ in walk_no_nested(rmf))
    ok = name_ok and pick_ok and ext_ok
    s_uses = [n for n in walk_no_nested(rmf) if isinstance(n, ast.Name) and n.id == p_stream
              and isinstance(n.ctx, ast.Load)]
    ctx.ob('C03.R4', 'stream-or-path:same-naming', ok and len(s_uses) == 2,
           'the molecule name and the file type derive from the file name in both cases; the '
           'stream only replaces the object that is opened', imod, rmf)
    off = imod.func('open_file_for_reading')
    ctx.ob('C03.R4', 'open:stream-rewound',
           any(last_attr(c) == 'seek' and norm(c.args[0]) == '0' for c in calls_in(off)) and
           any(call_name(c) == 'contextlib.nullcontext' for c in calls_in(off)),
           'a stream is rewound and wrapped without copying; a path is opened for reading', imod, off)
    from checks.recordloop import RecordLoop, check_raw_record_fields
    check_raw_record_fields(ctx, 'C03.R4', RecordLoop(prog))
    rl_fn = imod.func('get_atom_lines_from_pdb')
    withs = [n for n in walk_no_nested(rl_fn) if isinstance(n, ast.With)]
    ok = len(withs) == 1 and 'readlines()' in norm(withs[0])
    ctx.ob('C03.R4', 'reader:consumes-lines-only', ok,
           'the record reader takes all lines at once from either source', imod, rl_fn)
    # "the same input repeated": calculate_pka on a container that has been
    # calculated before must start from the same state.  The determinant lists
    # are only ever appended to by the set_*_determinants routines.
    ccm3 = prog.mod('conformation_container')
    cpk = ccm3.func('ConformationContainer.calculate_pka')
    appenders = [c for c in calls_in(cpk, nested=False)
                 if (call_name(c) or '').split('.')[-1] in ('set_backbone_determinants', 'set_ion_determinants',
                                                            'set_determinants')]
    first_app = min((c.lineno for c in appenders), default=None)
    resets = [n for n in walk_no_nested(cpk) if isinstance(n, ast.Assign)
              and isinstance(n.targets[0], ast.Attribute) and n.targets[0].attr == 'determinants'
              and (first_app is None or n.lineno < first_app)]
    ctx.ob('C03.R1', 'recalculation:determinants-reset-before-append', bool(resets) or not appenders,
           'ConformationContainer.calculate_pka empties the determinant lists of its groups before '
           'the set_*_determinants routines append to them; without that a second call on the same '
           'container reports every contribution twice (%d appending calls, %d resets before them)'
           % (len(appenders), len(resets)), ccm3, appenders[0] if appenders else cpk)
    # path vs. stream: a path is opened in text mode with universal newlines,
    # a stream is used as it is; the reader must not depend on that difference
    ofr = imod.func('open_file_for_reading')
    text_mode_opens = [c for c in calls_in(ofr, nested=False) if call_name(c) == 'open'
                       and not any(k.arg == 'newline' for k in c.keywords)]
    stream_as_is = any(isinstance(r, ast.Return) and 'nullcontext' in norm(r) for r in walk_no_nested(ofr))
    rlf = imod.func('get_atom_lines_from_pdb')
    normalises = any(isinstance(c.func, ast.Attribute) and c.func.attr == 'replace' and c.args
                     and isinstance(c.args[0], ast.Constant) and c.args[0].value in ('\r', '\r\n')
                     for c in calls_in(rlf, nested=False))
    ctx.ob('C03.R4', 'stream-and-path:same-newline-translation',
           not (text_mode_opens and stream_as_is) or normalises,
           'a path is opened with universal-newline translation (%d open() calls without newline=) '
           'while a stream is handed through unchanged, and the reader splits on whatever the source '
           'delivers: the same content with bare CR line ends gives all records from a path and a '
           'single line from io.StringIO (reader normalises line ends itself: %s)'
           % (len(text_mode_opens), normalises), imod, ofr)

    # ... nor may the path route decode differently from the text stream a
    # caller gets from the same file: any encoding=/errors= argument (e.g.
    # 'utf-8-sig', which strips a byte-order mark) is applied to paths only,
    # because a stream arrives decoded
    openers = [c for c in calls_in(ofr, nested=False)
               if (call_name(c) or '').split('.')[-1] in ('open', 'TextIOWrapper')]
    private = [c for c in openers
               if any(k.arg in ('encoding', 'errors') or k.arg is None for k in c.keywords)
               or len(c.args) > (2 if call_name(c) == 'open' else 1)]
    ctx.ob('C03.R4', 'stream-and-path:same-decoding', bool(openers) and (not stream_as_is or not private),
           'the path route opens the file with the default text decoding only (%d opening calls, %d '
           'with a decoding argument of their own), as a stream of the same file is: a decoding step '
           'only one route has (a stripped byte-order mark, replaced bytes) changes the first record '
           'for one of them' % (len(openers), len(private)), imod, private[0] if private else ofr)

    # options are shared by all inputs of one invocation
    common.check_options_readonly(ctx, 'C03.R1', prog)

    # ------------------------------------------------------------------ R5
    # "whatever the working directory": with no -p given, the parameter file is
    # the packaged one.  Either the option default is anchored on the package
    # directory (an absolute path: joining it to anything gives itself), or the
    # reader tries the packaged location before the name as given.
    popts = [o for o in common.parser_options(prog) if o.get('dest') == 'parameters']
    anchored_default = len(popts) == 1 and '__file__' in (popts[0].get('default') or '')
    rpf = imod.func('read_parameter_file')
    can = canon(rpf)
    opens = sorted((c for c in calls_in(rpf, nested=False)
                    if (call_name(c) or '').split('.')[-1] in ('open_file_for_reading', 'open')),
                   key=lambda c: (c.lineno, c.col_offset))
    first_path = can.text(opens[0].args[0]) if opens and opens[0].args else None
    packaged_first = first_path is not None and '__file__' in first_path and 'alt(' not in first_path
    ctx.ob('C03.R5', 'default-parameters:independent-of-cwd', anchored_default or packaged_first,
           'the default parameter file does not depend on the working directory: the -p default '
           'is anchored on the package directory (%s) or read_parameter_file opens the packaged '
           'location first (first path opened: %s)' % (
               popts[0].get('default') if popts else None, first_path),
           prog.mod('lib') if not anchored_default else imod,
           popts[0]['node'] if popts and not anchored_default else rpf)
    ctx.ob('C03.R5', 'default-parameters:option-found', len(popts) == 1,
           'the -p/--parameters option is declared once', prog.mod('lib'),
           popts[0]['node'] if popts else prog.mod('lib').tree)
    cwd_calls = []
    for m2, q2, f2 in prog.all_funcs():
        for c in calls_in(f2, nested=False):
            if (call_name(c) or '') in ('os.getcwd', 'Path.cwd', 'os.chdir', 'pathlib.Path.cwd',
                                        'os.path.abspath', 'os.path.realpath'):
                cwd_calls.append('%s.%s: %s' % (m2.name, q2, norm(c)[:50]))
    ctx.ob('C03.R5', 'no-cwd-reads', not cwd_calls,
           'no function reads or changes the working directory (%s)' % cwd_calls,
           prog.mod('lib'), prog.mod('lib').tree)
    ctx.assume('bitwise equality of two executions under float non-associativity when an '
               'accepted order varies, and platform libm differences, are not decided')
