"""C12 - incomplete structures degrade gracefully.

R1 structure-dependent partial operations are guarded (or discharged by a
checked lemma), R2 every raise/assert in reachable code is classified,
R3 dictionary look-ups are guarded / tables agree, R4 rejection paths raise
ValueError, R5 classification survives truncation.
"""
import ast
import hashlib

from sa import callgraph
from sa.astutil import (anorm, call_name, calls_in, dotted, norm, walk_no_nested, last_attr,
                        names_in, fact_texts, facts_at, try_fold, guards_of, stores_in, enclosing_loops, is_inf,
                        func_params, literal, FoldError, ancestors)
from sa.consteval import eval_init, UNKNOWN
from sa.loader import AnalysisError
from sa.canon import canon
from sa.astutil import str_template
from sa.tables import Cfg, module_constants
from checks import common, groups as G

SRC_CALLS = ('get_bonded_elements', 'get_bonded_heavy_atoms', 'get_interaction_atoms',
             'is_ring_member', 'identify_ring')
SCALAR_CALLS = ('len', 'bool', 'int', 'float', 'str', 'min', 'max', 'sum', 'any', 'all',
                'count_bonded_elements', 'squared_distance', 'distance', 'isinstance')


def is_src(expr, names):
    t = norm(expr)
    if '.bonded_atoms' in t or 'interaction_atoms_for' in t:
        return True
    for c in ast.walk(expr):
        if isinstance(c, ast.Call) and last_attr(c) in SRC_CALLS:
            return True
        if isinstance(c, ast.Name) and c.id in names:
            return True
    return False


def structure_names(fn):
    """Locals holding lists/dicts derived from structure data."""
    names = set()
    for _ in range(4):
        before = len(names)
        for s in walk_no_nested(fn):
            if isinstance(s, ast.Assign) and isinstance(s.targets[0], ast.Name):
                v = s.value
                if isinstance(v, ast.Call) and (call_name(v) or '').split('.')[-1] in SCALAR_CALLS:
                    continue
                if isinstance(v, (ast.Compare, ast.Constant, ast.BoolOp)):
                    continue
                if is_src(v, names):
                    names.add(s.targets[0].id)
            # x.append(...) / x[k] = ... inside a loop over a structure list
            if isinstance(s, ast.For) and is_src(s.iter, names):
                for c in ast.walk(s):
                    if isinstance(c, ast.Call) and last_attr(c) in ('append', 'extend') \
                            and isinstance(c.func.value, ast.Name):
                        names.add(c.func.value.id)
                    if isinstance(c, ast.Assign) and isinstance(c.targets[0], ast.Subscript) \
                            and isinstance(c.targets[0].value, ast.Name):
                        names.add(c.targets[0].value.id)
        if len(names) == before:
            break
    return names


def fixed_arity_callee(cg, fid, call):
    """Arity n if every target of ``call`` returns a tuple/list literal of
    length n on all paths."""
    targets = []
    for node, tg, _k in cg.sites.get(fid, []):
        if node is call:
            targets = [t for t in tg if not callgraph.versionA_exclude(t)]
    if not targets:
        return None
    ar = set()
    for t in targets:
        fn = cg.funcs[t]
        rets = [r for r in walk_no_nested(fn) if isinstance(r, ast.Return)]
        if not rets:
            return None
        for r in rets:
            if isinstance(r.value, (ast.Tuple, ast.List)):
                ar.add(len(r.value.elts))
            else:
                return None
    return ar.pop() if len(ar) == 1 else None


STRING_FIELDS = {'group_type', 'type', 'element', 'res_name', 'name', 'residue_type', 'sybyl_type',
                 'chain_id', 'label', 'terminal', 'residue_label', 'icode', 'alt_loc'}


def structure_keyed(node, fn):
    """Is the subscript's key built from a string-valued field of an atom or
    group (so that the subscripted object is a mapping, and the key is whatever
    the structure happens to contain)?"""
    if isinstance(node.slice, (ast.Slice, ast.Constant)):
        return False
    try:
        key = canon(fn).expr(node.slice)
    except Exception:
        key = node.slice
    for sub in ast.walk(key):
        if isinstance(sub, ast.Attribute) and sub.attr in STRING_FIELDS:
            # len(x.name), int(...) give an index, not a mapping key
            anc_ok = True
            for a in ast.walk(key):
                if isinstance(a, ast.Call) and (call_name(a) in ('len', 'int', 'ord') or last_attr(a) in (
                        'index', 'count', 'find')) and any(x is sub for x in ast.walk(a)):
                    anc_ok = False
            if anc_ok:
                return True
    return False


def _is_other_than(test, var):
    """``var != A`` / ``var is not A`` (either side) for some A that is not var"""
    if isinstance(test, ast.Compare) and len(test.ops) == 1 \
            and isinstance(test.ops[0], (ast.NotEq, ast.IsNot)):
        a, b = norm(test.left), norm(test.comparators[0])
        return (a == var) != (b == var)
    return False


def _list_without_one(name, fn):
    """If the local ``name`` holds one entry (the element or its position) for
    every element of a bond list S that differs from one given atom, return
    the expression S.  Two spellings: a comprehension with the single
    condition ``x != A``, and an empty list filled by a loop over S (or
    enumerate(S)) whose only append stands under the single fact ``x != A``."""
    defs = [s for s in walk_no_nested(fn) if isinstance(s, (ast.Assign, ast.AnnAssign, ast.AugAssign))
            and any(isinstance(t, ast.Name) and t.id == name
                    for t in (s.targets if isinstance(s, ast.Assign) else [s.target]))]
    if len(defs) != 1 or not isinstance(defs[0], (ast.Assign, ast.AnnAssign)) or defs[0].value is None:
        return None
    val = defs[0].value

    def elem_of(target, it):
        """(loop element variable, S) for `for x in S` / `for i, x in enumerate(S)`"""
        if isinstance(it, ast.Call) and call_name(it) == 'enumerate' and len(it.args) == 1 \
                and isinstance(target, ast.Tuple) and len(target.elts) == 2 \
                and isinstance(target.elts[1], ast.Name):
            return target.elts[1].id, it.args[0]
        if isinstance(target, ast.Name) and not isinstance(it, ast.Call):
            return target.id, it
        return None, None
    if isinstance(val, ast.ListComp) and len(val.generators) == 1 and len(val.generators[0].ifs) == 1:
        g = val.generators[0]
        var, src = elem_of(g.target, g.iter)
        if var and isinstance(src, ast.Attribute) and src.attr == 'bonded_atoms' \
                and _is_other_than(g.ifs[0], var):
            _list_without_one.kind = 'position' if isinstance(g.target, ast.Tuple) and \
                norm(val.elt) == norm(g.target.elts[0]) else ('element' if norm(val.elt) == var else 'other')
            return src
        return None
    if isinstance(val, ast.List) and not val.elts:
        other = [n for n in walk_no_nested(fn) if isinstance(n, ast.Name) and n.id == name
                 and n is not (defs[0].targets[0] if isinstance(defs[0], ast.Assign) else defs[0].target)
                 and not isinstance(n.ctx, ast.Load)]
        apps = [c for c in calls_in(fn, nested=False) if last_attr(c) in ('append', 'extend', 'insert')
                and norm(c.func.value) == name]
        if other or len(apps) != 1 or last_attr(apps[0]) != 'append':
            return None
        # innermost loop around the append
        inner = None
        for a in ancestors(apps[0]):
            if isinstance(a, (ast.For, ast.While)):
                inner = a
                break
        if not isinstance(inner, ast.For):
            return None
        var, src = elem_of(inner.target, inner.iter)
        if not var or not (isinstance(src, ast.Attribute) and src.attr == 'bonded_atoms'):
            return None
        facts = facts_at(apps[0], inner)
        if len(facts) == 1 and facts[0][1] and _is_other_than(facts[0][0], var):
            arg = norm(apps[0].args[0]) if apps[0].args else ''
            _list_without_one.kind = 'position' if isinstance(inner.target, ast.Tuple) and \
                arg == norm(inner.target.elts[0]) else ('element' if arg == var else 'other')
            return src
    return None


def index_guarded(node, expr, k, fn, names):
    """Is ``expr[k]`` (k int) dominated by a guard on the same expression?"""
    e = norm(expr)
    facts = fact_texts(node, fn)
    for t, p in facts:
        tt = t.replace(' ', '')
        ee = e.replace(' ', '')
        if p:
            if tt == ee and k == 0:
                return 'truthiness of %s' % e
            pre = 'len(%s)==' % ee
            if tt.startswith(pre):
                try:
                    if int(tt[len(pre):]) > k:
                        return t
                except ValueError:
                    pass
            # the loader orients every ordering comparison as  n < len(e)  /  n <= len(e)
            for op, need in (('<', lambda n: n >= k), ('<=', lambda n: n >= k + 1)):
                post = '%slen(%s)' % (op, ee)
                if tt.endswith(post):
                    try:
                        n = int(tt[:-len(post)])
                    except ValueError:
                        continue
                    if need(n):
                        return t
        else:
            if tt == 'not' + ee and k == 0:
                return 'not (%s) is false' % t
            if tt in ('len(%s)==0' % ee, 'len(%s)<1' % ee) and k == 0:
                return t
    # e is a local assigned from X.get_bonded_elements(A) and X.count_bonded_elements(A) == n
    if isinstance(expr, ast.Name):
        for s in walk_no_nested(fn):
            if isinstance(s, ast.Assign) and norm(s.targets[0]) == expr.id \
                    and isinstance(s.value, ast.Call) and last_attr(s.value) == 'get_bonded_elements':
                recv = norm(s.value.func.value)
                arg = norm(s.value.args[0]) if s.value.args else ''
                for t, p in facts:
                    pre = '%s.count_bonded_elements(%s) == ' % (recv, arg)
                    if p and t.startswith(pre):
                        try:
                            if int(t[len(pre):]) > k:
                                return t
                        except ValueError:
                            pass
    # L2: an atom whose element is 'H' has its parent as bonded_atoms[0]
    if isinstance(expr, ast.Attribute) and expr.attr == 'bonded_atoms' and k == 0:
        owner = norm(expr.value)
        for t, p in facts:
            if p and t == "%s.element == 'H'" % owner:
                return "lemma L2 (%s is a hydrogen: it has a parent)" % owner
    # L1b: a bond list without one given atom.  Bond lists hold no atom twice
    # (lemma C12.L1 bonds:no-duplicates), so the entries of S different from A
    # number at least len(S) - 1: with k + 1 < len(S) the part has entry k.
    if isinstance(expr, ast.Name):
        src = _list_without_one(expr.id, fn)
        if src is not None:
            fcan = canon(fn)
            want = fcan.text(src)
            for fe, p in facts_at(node, fn):
                if p and isinstance(fe, ast.Compare) and len(fe.ops) == 1 \
                        and isinstance(fe.ops[0], (ast.Lt, ast.LtE)) \
                        and isinstance(fe.comparators[0], ast.Call) \
                        and call_name(fe.comparators[0]) == 'len' and fe.comparators[0].args \
                        and fcan.text(fe.comparators[0].args[0]) == want:
                    n = try_fold(fe.left)
                    if n is not None and (n >= k + 1 if isinstance(fe.ops[0], ast.Lt) else n >= k + 2):
                        return 'lemma L1b (%s is %s without one atom, and %s)' % (
                            expr.id, norm(src), norm(fe))
                    if n is not None:
                        # at least lb entries; lengths that the path has excluded raise the bound
                        lb = int(n) if isinstance(fe.ops[0], ast.Lt) else int(n) - 1
                        excluded = set()
                        for fe2, p2 in facts_at(node, fn):
                            if isinstance(fe2, ast.Compare) and len(fe2.ops) == 1 \
                                    and norm(fe2.left) == 'len(%s)' % expr.id:
                                v2 = try_fold(fe2.comparators[0])
                                if v2 is not None and ((p2 and isinstance(fe2.ops[0], ast.NotEq))
                                                       or (not p2 and isinstance(fe2.ops[0], ast.Eq))):
                                    excluded.add(int(v2))
                        while lb in excluded:
                            lb += 1
                        if lb > k:
                            return 'lemma L1b (%s is %s without one atom, %s, and its length is not %s)' % (
                                expr.id, norm(src), norm(fe), sorted(excluded))
    # try/except IndexError
    for anc in ancestors(node):
        if isinstance(anc, ast.Try) and any(
                h.type is None or 'IndexError' in norm(h.type) or norm(h.type) == 'Exception'
                for h in anc.handlers) and any(node is n for b in anc.body for n in ast.walk(b)):
            return 'try/except IndexError'
    return None


def run(ctx):
    prog = ctx.prog
    cfg = Cfg(prog)
    cg = callgraph.build(prog)
    reach = cg.reachable(callgraph.ENTRY_POINTS, callgraph.versionA_exclude)
    gmod = prog.mod('group')

    # ------------------------------------------------------------------ lemmas
    common.check_bond_writers(ctx, 'C12.L1', prog)
    # L1b: no atom is entered twice into a bond list: every append either stands
    # under the fact that the atom is not in the list yet, or enters an atom
    # that was created in the same function (and cannot be in any list)
    n_app, dup = 0, []
    for m2, q2, f2 in prog.all_funcs():
        fresh = {norm(st.targets[0]) for st in walk_no_nested(f2) if isinstance(st, ast.Assign)
                 and isinstance(st.targets[0], ast.Name) and isinstance(st.value, ast.Call)
                 and call_name(st.value) in ('Atom', 'propka.atom.Atom')}
        for c in calls_in(f2, nested=False):
            if isinstance(c.func, ast.Attribute) and c.func.attr in ('append', 'extend', 'insert') \
                    and isinstance(c.func.value, ast.Attribute) and c.func.value.attr == 'bonded_atoms':
                n_app += 1
                lst, arg = norm(c.func.value), (norm(c.args[0]) if c.args else '?')
                owner = norm(c.func.value.value)
                guarded = any(p and t == '%s not in %s' % (arg, lst) for t, p in fact_texts(c, f2))
                if not (c.func.attr == 'append' and (guarded or arg in fresh or owner in fresh)):
                    dup.append((m2, q2, c))
    ctx.ob('C12.L1', 'bonds:no-duplicates', not dup and n_app >= 3,
           'an atom is appended to a bond list only under the fact that it is not in it yet, or '
           'when one of the two atoms was created in the same function (%d appends; others: %s)'
           % (n_app, ['%s.%s:%s' % (m.name, q, norm(c)) for m, q, c in dup]),
           dup[0][0] if dup else prog.mod('bonds'), dup[0][2] if dup else prog.mod('bonds').tree)
    # L2: hydrogens in interaction lists come from get_bonded_elements('H') of a heavy atom
    l2_ok = True
    l2_sites = 0
    for qual, fn in gmod.funcs.items():
        if not qual.endswith('.setup_atoms'):
            continue
        for s in walk_no_nested(fn):
            src = None
            if isinstance(s, ast.Assign) and isinstance(s.targets[0], ast.Name) \
                    and 'hydrogen' in s.targets[0].id.lower():
                src = s.value
            elif isinstance(s, ast.AugAssign) and isinstance(s.target, ast.Name) \
                    and 'hydrogen' in s.target.id.lower():
                src = s.value
            elif isinstance(s, ast.Call) and last_attr(s) == 'extend' and \
                    'hydrogen' in norm(s.func.value).lower():
                src = s.args[0]
            if src is not None and not isinstance(src, ast.List):
                l2_sites += 1
                if "get_bonded_elements('H')" not in norm(src):
                    l2_ok = False
    ctx.ob('C12.L2', 'interaction-hydrogens:from-bonded-lists', l2_ok and l2_sites >= 10,
           'every hydrogen put into an interaction-atom list is taken from '
           'get_bonded_elements(\'H\') of a heavy atom (%d sites), so by bond symmetry (L1) it '
           'has that atom as bonded_atoms[0]' % l2_sites, gmod, gmod.tree)
    # hydrogens created by the package get bonded_atoms = [parent]
    for mname, qual in (('protonate', 'Protonate.add_proton'),):
        fn = prog.mod(mname).func(qual)
        ok = any(isinstance(s, ast.Assign) and norm(s.targets[0]).endswith('.bonded_atoms')
                 and isinstance(s.value, ast.List) and len(s.value.elts) == 1
                 for s in walk_no_nested(fn))
        ctx.ob('C12.L2', 'new-hydrogen:has-parent:' + qual, ok,
               'a hydrogen created by %s starts with bonded_atoms = [parent]' % qual,
               prog.mod(mname), fn)
    # L4: container membership
    cc = prog.mod('conformation_container')
    writers = set()
    for m2, q2, f2 in prog.all_funcs():
        for c in calls_in(f2, nested=False):
            if last_attr(c) in ('append', 'extend', 'insert') and norm(c.func.value).endswith('.atoms') \
                    and 'residue' not in norm(c.func.value):
                writers.add((m2.name, q2))
    l4 = writers <= {('conformation_container', 'ConformationContainer.add_atom'),
                     ('conformation_container', 'ConformationContainer.copy_atom')}
    aa, ca = cc.func('ConformationContainer.add_atom'), cc.func('ConformationContainer.copy_atom')

    def owner_set(fn):
        """the object appended to self.atoms also gets conformation_container = self"""
        appended = [norm(c.args[0]) for c in calls_in(fn, nested=False)
                    if last_attr(c) == 'append' and norm(c.func.value) == 'self.atoms' and c.args]
        owned = [norm(st.targets[0].value) for st in walk_no_nested(fn)
                 if isinstance(st, ast.Assign) and isinstance(st.targets[0], ast.Attribute)
                 and st.targets[0].attr == 'conformation_container' and norm(st.value) == 'self']
        return len(appended) == 1 and appended[0] in owned
    l4 = l4 and owner_set(aa) and owner_set(ca)
    ctx.ob('C12.L4', 'atoms:enter-through-add/copy', l4,
           'atoms enter a conformation only through add_atom/copy_atom, both of which set '
           'conformation_container (writers %s)' % sorted(writers), cc, aa)
    # L5: parameters before setup
    ig = cc.func('ConformationContainer.init_group')
    from sa.astutil import effective
    seq = [norm(s) for s in effective(ig.body)[:3]]
    setup_callers = [f for f in cg.callers_of(('group', 'Group.setup'))
                     if any(last_attr(c) == 'setup' for c in calls_in(cg.funcs[f], nested=False))]
    ig_group = ig.args.args[1].arg
    l5 = seq[:2] == ['%s.parameters = self.parameters' % ig_group, '%s.setup()' % ig_group] and \
        setup_callers == [('conformation_container', 'ConformationContainer.init_group')]
    ctx.ob('C12.L5', 'setup:parameters-first', l5,
           'init_group assigns group.parameters immediately before group.setup() and is the only '
           'caller of setup() (%s)' % setup_callers, cc, ig)
    # L8: BBC groups have exactly one interaction oxygen
    ipg = gmod.func('is_protein_group')
    bbc = [r for r in walk_no_nested(ipg) if isinstance(r, ast.Return)
           and isinstance(r.value, ast.Call) and call_name(r.value) == 'BBCGroup']
    l8 = len(bbc) == 1 and any(p and t == "%s.count_bonded_elements('O') == 1" % func_params(ipg)[-1]
                               for t, p in fact_texts(bbc[0], ipg))
    bsa = gmod.func('BBCGroup.setup_atoms')
    sia = [c for c in calls_in(bsa, nested=False) if last_attr(c) == 'set_interaction_atoms']
    l8 = l8 and len(sia) == 1 and [canon(bsa).text(a) for a in sia[0].args] == \
        ["self.atom.get_bonded_elements('O')"] * 2
    other_bbc = [1 for m2, q2, f2 in prog.all_funcs() for c in calls_in(f2, nested=False)
                 if call_name(c) == 'BBCGroup']
    ctx.ob('C12.L8', 'BBC:one-interaction-oxygen', l8 and len(other_bbc) == 1,
           'a BBC group is created only when its carbon has exactly one bonded oxygen, and that '
           'oxygen list is its interaction-atom list for acids and bases', gmod, bsa)

    # ------------------------------------------------------------------ R1
    tri = ctx.triage_table('c12_partial_ops')
    n_ops = 0
    for fid in sorted(reach):
        fn = cg.funcs[fid]
        mod = cg.mod_of[fid]
        names = structure_names(fn)
        for node in walk_no_nested(fn):
            op, why = None, None
            if isinstance(node, ast.Subscript) and isinstance(node.ctx, ast.Load) \
                    and not isinstance(node.slice, ast.Slice) and is_src(node.value, names):
                k = try_fold(node.slice)
                if k is not None and int(k) == k:
                    op = 'index[%d]' % k
                    why = index_guarded(node, node.value, int(k), fn, names)
                    if why is None and int(k) < 0:
                        why = index_guarded(node, node.value, 0, fn, names)
                else:
                    op = 'index[%s]' % norm(node.slice)
                    iv = norm(node.slice)
                    # index variable bound by range(len(e)) / enumerate(e) over the same list
                    for lp in enclosing_loops(node, fn):
                        it = norm(lp.iter).replace(' ', '')
                        e = norm(node.value).replace(' ', '')
                        tg = norm(lp.target).replace(' ', '')
                        if (it == 'range(len(%s))' % e and tg == iv) or \
                                (it.startswith('enumerate(%s' % e) and tg.split(',')[0].strip('(') == iv):
                            why = 'index bound by %s' % norm(lp.iter)
                    if why is None and isinstance(node.slice, ast.Subscript) \
                            and isinstance(node.slice.value, ast.Name):
                        # S[L[k]] where L holds positions of S collected by enumerate(S)
                        src_ = _list_without_one(node.slice.value.id, fn)
                        if src_ is not None and _list_without_one.kind == 'position' \
                                and canon(fn).text(src_) == canon(fn).text(node.value):
                            why = 'the index is a position collected by enumerate() over this very list'
                    if why is None:
                        # index computed by .index() on the same data under a count guard
                        for s in walk_no_nested(fn):
                            if isinstance(s, ast.Assign) and norm(s.targets[0]) == iv \
                                    and isinstance(s.value, ast.Call) and last_attr(s.value) == 'index':
                                why = 'index obtained from .index() on the element list'
            elif isinstance(node, ast.Call) and last_attr(node) in ('remove', 'index', 'pop') \
                    and isinstance(node.func, ast.Attribute) and is_src(node.func.value, names):
                op = '.' + last_attr(node)
                if last_attr(node) == 'index':
                    # list(...).index(x) under a count(x) == n guard
                    recv = norm(node.func.value)
                    arg = norm(node.args[0]) if node.args else ''
                    for t, p in fact_texts(node, fn):
                        if p and t.startswith('%s.count(%s) == ' % (recv, arg)):
                            n = int(t.rsplit('== ', 1)[1])
                            if n >= len([c for c in calls_in(fn, nested=False)
                                         if last_attr(c) == 'index' and norm(c.func.value) == recv
                                         and c.lineno <= node.lineno
                                         and any(c is x for b in [node._parent._parent] for x in ast.walk(b))]):
                                why = t
                    for anc in ancestors(node):
                        if isinstance(anc, ast.While) and ('in ' + recv) in norm(anc.test):
                            why = 'loop condition ' + norm(anc.test)
            elif isinstance(node, ast.Assign) and isinstance(node.targets[0], (ast.Tuple, ast.List)) \
                    and not isinstance(node.value, (ast.Tuple, ast.List)) and is_src(node.value, names):
                op = 'unpack[%d]' % len(node.targets[0].elts)
                n = len(node.targets[0].elts)
                # the length is tested on the same expression
                for t, p in fact_texts(node, fn):
                    if p and t.replace(' ', '') == 'len(%s)==%d' % (norm(node.value).replace(' ', ''), n):
                        why = t
                if isinstance(node.value, ast.Call):
                    ar = fixed_arity_callee(cg, fid, node.value)
                    if ar == n:
                        why = 'callee returns a %d-tuple on every path' % n
                    if why is None and last_attr(node.value) == 'get_bonded_elements':
                        recv = norm(node.value.func.value)
                        arg = norm(node.value.args[0])
                        for t, p in fact_texts(node, fn):
                            if p and t == '%s.count_bonded_elements(%s) == %d' % (recv, arg, n):
                                why = t
            if op is None:
                continue
            n_ops += 1
            key = '%s.%s:%s' % (fid[0], fid[1], anorm(node, fn)[:80])
            # a lemma entry is tied to the construct *and* the conditions it sits under
            fcan = canon(fn)
            under = sorted(('' if p else 'not ') + fcan.key(e) for e, p in facts_at(node, fn))
            tkey = '%s.%s:%s | under: %s' % (fid[0], fid[1], fcan.key(node, define=True), ' & '.join(under))
            if len(tkey) > 330:
                tkey = tkey[:320] + '~' + hashlib.sha1(tkey.encode()).hexdigest()[:8]
            if why is None and tkey in tri:
                ctx.triage('c12_partial_ops', tkey)
                why = 'lemma: ' + tri[tkey]
            elif why is None:
                ctx.note('untriaged:' + key, tkey)
            ctx.ob('C12.R1', 'partial-op:' + key, why is not None,
                   '%s on structure-derived data in %s.%s is guarded on the same expression or '
                   'covered by a checked lemma (%s)' % (
                       op, fid[0], fid[1], why or 'NOT guarded: a truncated structure can make it '
                                                  'raise'), mod, node)
    ctx.note('structure_dependent_partial_operations', n_ops)
    ctx.need('C12.R1', 45)

    # ------------------------------------------------------------------ R2
    rtab = ctx.triage_table('c12_raises')
    n_r = 0
    for fid in sorted(reach):
        fn = cg.funcs[fid]
        mod = cg.mod_of[fid]
        def site_text(n):
            # the key names what is raised / asserted, not the wording of the message
            if isinstance(n, ast.Raise):
                if n.exc is None:
                    return 'raise'
                return 'raise ' + ((call_name(n.exc) if isinstance(n.exc, ast.Call) else None) or norm(n.exc))
            return 'assert ' + anorm(n.test, fn)[:70]
        # an assert that repeats one that dominates it (same test, nothing in the
        # function stores what is tested) cannot fail where it stands: it is the
        # first one that is classified
        stored_here = {norm(t_) for _s, t_ in stores_in(fn)}
        repeats = set()
        for node in walk_no_nested(fn):
            if isinstance(node, ast.Assert):
                t0 = norm(node.test)
                roots = {norm(x) for x in ast.walk(node.test) if isinstance(x, (ast.Name, ast.Attribute))}
                if any(kind == 'assert' and pol and norm(te) == t0 for te, pol, kind in guards_of(node, fn)) \
                        and not (roots & stored_here):
                    repeats.add(node)
        texts = [site_text(n) for n in walk_no_nested(fn) if isinstance(n, (ast.Raise, ast.Assert))
                 and n not in repeats]
        ordinal = {}
        for node in walk_no_nested(fn):
            if not isinstance(node, (ast.Raise, ast.Assert)):
                continue
            n_r += 1
            if node in repeats:
                ctx.ob('C12.R2', 'raise/assert:%s.%s:%s#repeat' % (fid[0], fid[1], site_text(node)), True,
                       'the assert repeats one that dominates it; nothing in between stores what it '
                       'tests', mod, node)
                continue
            key = '%s.%s:%s' % (fid[0], fid[1], site_text(node))
            if texts.count(site_text(node)) > 1:
                ordinal[key] = ordinal.get(key, 0) + 1
                key += '#%d' % ordinal[key]
            reason = rtab.get(key)
            if reason is not None:
                ctx.triage('c12_raises', key)
            ctx.ob('C12.R2', 'raise/assert:' + key, reason is not None,
                   'reachable %s in %s.%s is classified%s' % (
                       'assert' if isinstance(node, ast.Assert) else 'raise', fid[0], fid[1],
                       ': ' + reason if reason else ' - NOT classified: it can surface as an '
                       'unhandled error for some structure'), mod, node)
    ctx.note('raises_and_asserts', n_r)
    ctx.need('C12.R2', 30)
    # backing conditions for the classified ones
    emod = prog.mod('energy')
    adf_sites = []
    for fid in sorted(reach):
        for c in calls_in(cg.funcs[fid], nested=False):
            if (call_name(c) or '').split('.')[-1] == 'angle_distance_factors':
                first = c.args[0] if c.args else next((k.value for k in c.keywords if k.arg == 'atom1'), None)
                has_center = any(k.arg == 'center' for k in c.keywords)
                adf_sites.append(first is not None and norm(first) != 'None' or has_center)
    ctx.ob('C12.R2', 'lemma:center-or-atom1', all(adf_sites) and len(adf_sites) >= 5,
           'every call of angle_distance_factors passes atom1 or center=, so its narrowing '
           'assert cannot fire (%d sites)' % len(adf_sites), emod, emod.func('angle_distance_factors'))
    # set_center callers
    sc_bad = []
    n_sc = 0
    for fid in sorted(reach):
        fn = cg.funcs[fid]
        for c in calls_in(fn, nested=False):
            if last_attr(c) != 'set_center' or not c.args:
                continue
            n_sc += 1
            a = c.args[0]
            ok = isinstance(a, ast.List) and len(a.elts) >= 1
            if not ok:
                parts = [a]
                if isinstance(a, ast.BinOp) and isinstance(a.op, ast.Add):
                    parts = [a.left, a.right]
                pos = {t for t, p in fact_texts(c, fn) if p}
                neg = {t for t, p in fact_texts(c, fn) if not p}
                ok = any(norm(p_) in pos or ('not ' + norm(p_)) in neg or
                         any(norm(p_) in t and ' and ' in t for t in neg if t.startswith('not ('))
                         for p_ in parts)
                if not ok and any(t.startswith('not (') and all(norm(p_) in t for p_ in parts)
                                  for t in neg):
                    ok = True
            if not ok and isinstance(a, ast.Name):
                for s_ in walk_no_nested(fn):
                    if isinstance(s_, ast.Assign) and norm(s_.targets[0]) == a.id and \
                            isinstance(s_.value, ast.BinOp) and isinstance(s_.value.op, ast.Add) and \
                            any(isinstance(x, ast.List) and len(x.elts) >= 1
                                for x in (s_.value.left, s_.value.right)):
                        ok = True
            if not ok:
                key = '%s.%s:%s' % (fid[0], fid[1], canon(fn).key(c, define=True))
                r = tri.get(key)
                if r is not None:
                    ctx.triage('c12_partial_ops', key)
                    ok = True
            if not ok:
                sc_bad.append('%s.%s: %s' % (fid[0], fid[1], norm(c)))
    ctx.ob('C12.R2', 'lemma:set_center-never-empty', not sc_bad and n_sc >= 20,
           'every caller of Group.set_center passes a literal non-empty list, a list guarded '
           'non-empty, or a reviewed construct (%d sites; unguarded: %s)' % (n_sc, sc_bad),
           gmod, gmod.func('Group.set_center'))
    lig = gmod.func('is_ligand_group_by_groups')
    oco = [r for r in walk_no_nested(lig) if isinstance(r, (ast.Return, ast.Assign))
           and isinstance(r.value, ast.Call) and call_name(r.value) == 'OCOGroup']
    lcan = canon(lig)
    lparam = func_params(lig)[-1]

    def two_oxygens(e, p):
        # len(<the bonded oxygens, possibly filtered>) == 2
        if not (p and isinstance(e, ast.Compare) and isinstance(e.ops[0], ast.Eq)
                and try_fold(e.comparators[0]) == 2 and isinstance(e.left, ast.Call)
                and call_name(e.left) == 'len' and len(e.left.args) == 1):
            return False
        arg = lcan.expr(e.left.args[0])
        src = "%s.get_bonded_elements('O')" % lparam
        if norm(arg) == src:
            return True
        return isinstance(arg, ast.ListComp) and len(arg.generators) == 1 \
            and norm(arg.generators[0].iter) == src and norm(arg.elt) == norm(arg.generators[0].target)
    oco_ok = bool(oco) and all(any(two_oxygens(e, p) for e, p in facts_at(site, lig)) for site in oco)
    others = [1 for m2, q2, f2 in prog.all_funcs() for c in calls_in(f2, nested=False)
              if call_name(c) == 'OCOGroup']
    ctx.ob('C12.R2', 'lemma:OCO-two-oxygens', oco_ok and len(others) == len(oco),
           'an OCO group is created only for a carbon with two bonded carboxylate oxygens', gmod,
           oco[0] if oco else lig)
    ver = cfg.get('version')
    vmod = prog.mod('version')
    ctx.ob('C12.R2', 'lemma:abstract-method-overridden',
           (ver + '.get_hydrogen_bond_parameters') in vmod.funcs,
           'the configured version class %s overrides the abstract get_hydrogen_bond_parameters'
           % ver, vmod, vmod.tree)
    cmod = prog.mod('calculations')
    gsd = cmod.func('get_smallest_distance')
    cmp_ = [n for n in walk_no_nested(gsd) if isinstance(n, ast.Compare)
            and isinstance(n.ops[0], (ast.Lt, ast.LtE))]
    best_name = norm(cmp_[0].comparators[0]) if cmp_ else None
    best = [s for s in gsd.body if isinstance(s, ast.Assign) and norm(s.targets[0]) == best_name]
    ctx.ob('C12.R2', 'lemma:closest-pair-sentinel-infinite',
           bool(best) and is_inf(best[0].value),
           'the closest-pair search starts from infinity, so the not-None asserts after a search '
           'over two non-empty lists cannot fire (shared with C05.R3)', cmod, best[0] if best else gsd)

    # ------------------------------------------------------------------ R3
    consts = module_constants(gmod, False)
    acid_t, base_t = consts.get('EXPECTED_ATOMS_ACID_INTERACTIONS'), consts.get('EXPECTED_ATOMS_BASE_INTERACTIONS')
    ok = isinstance(acid_t, dict) and isinstance(base_t, dict) and set(acid_t) == set(base_t)
    ctx.ob('C12.R3', 'expected-atom-tables:same-keys', ok,
           'both EXPECTED_ATOMS tables have the same keys (the missing-atoms warning indexes both '
           'with the group type): only-acid %s only-base %s' % (
               sorted(set(acid_t or {}) - set(base_t or {})), sorted(set(base_t or {}) - set(acid_t or {}))),
           gmod, gmod.tree)
    dict_tables = ('valence_electrons', 'bond_lengths', 'protonation_methods', 'standard_charges',
                   'sybyl_charges', 'VanDerWaalsVolume', 'charge', 'ions', 'model_pkas',
                   'custom_model_pkas', 'backbone_NH_hydrogen_bond', 'backbone_CO_hydrogen_bond',
                   'protein_group_mapping', 'EXPECTED_ATOMS_ACID_INTERACTIONS',
                   'EXPECTED_ATOMS_BASE_INTERACTIONS', 'num_pi_elec_bonds_ligands',
                   'num_pi_elec_conj_bonds_ligands', 'num_pi_elec_bonds_sidechains',
                   'num_pi_elec_conj_bonds_sidechains', 'num_pi_elec_bonds_backbone',
                   'num_pi_elec_conj_bonds_backbone')
    n_lk = 0
    for fid in sorted(reach):
        fn = cg.funcs[fid]
        mod = cg.mod_of[fid]
        for node in walk_no_nested(fn):
            if not (isinstance(node, ast.Subscript) and isinstance(node.ctx, ast.Load)):
                continue
            base = norm(node.value)
            tbl = base.split('.')[-1]
            if tbl not in dict_tables and not structure_keyed(node, fn):
                continue
            n_lk += 1
            keyt = norm(node.slice)
            ok, why = False, ''
            if isinstance(node.slice, ast.Constant):
                vals = cfg.values.get(tbl)
                ok = isinstance(vals, dict) and node.slice.value in vals
                why = 'literal key present in the shipped table'
            facts = fact_texts(node, fn)
            for t, p in facts:
                tt = t.replace(' ', '')
                if p and tt.startswith(keyt.replace(' ', '') + 'in') and tbl in tt:
                    ok, why = True, t
                if (not p) and tt.startswith(keyt.replace(' ', '') + 'notin') and tbl in tt:
                    ok, why = True, 'not (%s)' % t
            # insert-if-missing just before (valence_electrons)
            if not ok:
                for s in walk_no_nested(fn):
                    if isinstance(s, ast.If) and ('%s not in %s' % (keyt, base)) in norm(s.test) \
                            and any(isinstance(b, ast.Assign) and norm(b.targets[0]) == norm(node)
                                    for b in s.body) and s.lineno < node.lineno:
                        ok, why = True, 'insert-if-missing before the read'
            # the key iterates over the table itself
            if not ok:
                for lp in enclosing_loops(node, fn):
                    if norm(lp.target) == keyt and tbl in norm(lp.iter):
                        ok, why = True, 'key iterates over the table'
                for comp in ancestors(node):
                    if isinstance(comp, (ast.ListComp, ast.GeneratorExp)):
                        for g in comp.generators:
                            if norm(g.target) == keyt and tbl in norm(g.iter):
                                ok, why = True, 'key iterates over the table'
            for anc in ancestors(node):
                if isinstance(anc, ast.Try) and any(
                        h.type is None or 'KeyError' in norm(h.type) for h in anc.handlers):
                    ok, why = True, 'try/except KeyError'
            if not ok and keyt == 'self.type' and 'EXPECTED_ATOMS' in canon(fn).text(node.value) \
                    and isinstance(acid_t, dict) and isinstance(base_t, dict) and set(acid_t) == set(base_t):
                # reached only when a method of the class answered False, and that
                # method answers False only for a type that is a key of one of the
                # two tables (which have the same keys)
                def member_fact(e, p, fc):
                    if not (p and isinstance(e, ast.Compare) and isinstance(e.ops[0], ast.In)
                            and norm(e.left) == 'self.type'):
                        return False
                    t = fc.text(e.comparators[0])
                    return 'EXPECTED_ATOMS_ACID_INTERACTIONS' in t or 'EXPECTED_ATOMS_BASE_INTERACTIONS' in t
                for e, p in facts_at(node, fn):
                    # `not all(<test> for table, ... in [the two tables] if self.type in table ...)`:
                    # all() of nothing is True, so some table passed the membership condition
                    if not p and isinstance(e, ast.Call) and call_name(e) == 'all' and len(e.args) == 1 \
                            and isinstance(e.args[0], ast.GeneratorExp):
                        for g in e.args[0].generators:
                            for cond in g.ifs:
                                if isinstance(cond, ast.Compare) and isinstance(cond.ops[0], ast.In) \
                                        and norm(cond.left) == 'self.type' \
                                        and 'EXPECTED_ATOMS' in norm(g.iter) and norm(g.target).strip('()').split(',')[0].strip() \
                                        in norm(cond.comparators[0]):
                                    ok, why = True, ('reached only when all(...) over the tables that hold '
                                                     'self.type is False, so one of them holds it, and both '
                                                     'tables have the same keys')
                    if p or not (isinstance(e, ast.Call) and isinstance(e.func, ast.Attribute)
                                 and norm(e.func.value) == 'self' and not e.args and not e.keywords):
                        continue
                    cls_ = fid[1].rsplit('.', 1)[0] if '.' in fid[1] else None
                    helper = mod.funcs.get('%s.%s' % (cls_, e.func.attr)) if cls_ else None
                    if helper is None:
                        continue
                    hcan = canon(helper)
                    rets = [r for r in walk_no_nested(helper) if isinstance(r, ast.Return)]
                    falsy = [r for r in rets if not (isinstance(r.value, ast.Constant) and r.value.value is True)]
                    if rets and falsy and all(
                            isinstance(r.value, ast.Constant) and r.value.value is False
                            and any(member_fact(e2, p2, hcan) for e2, p2 in facts_at(r, helper))
                            for r in falsy) and isinstance(helper.body[-1], ast.Return):
                        ok, why = True, ('reached only when self.%s() is False, which it is only for a type '
                                         'that is a key of one table, and both tables have the same keys'
                                         % e.func.attr)
            if not ok and tbl.startswith('EXPECTED_ATOMS') and keyt == 'self.type':
                # reached only under `not <flag>`; the flag is cleared only for a
                # type that is a key of one of the two tables
                flags = [e.id for e, p in facts_at(node, fn) if (not p) and isinstance(e, ast.Name)]
                fcan = canon(fn)
                for flag in flags:
                    clears = [s_ for s_ in walk_no_nested(fn) if isinstance(s_, ast.Assign)
                              and norm(s_.targets[0]) == flag and isinstance(s_.value, ast.Constant)
                              and s_.value.value is False]

                    def member_of_table(e, p):
                        if not (p and isinstance(e, ast.Compare) and isinstance(e.ops[0], ast.In)
                                and norm(e.left) == 'self.type'):
                            return False
                        t = fcan.text(e.comparators[0])
                        return t.startswith('each(') and 'EXPECTED_ATOMS_ACID_INTERACTIONS' in t \
                            and 'EXPECTED_ATOMS_BASE_INTERACTIONS' in t
                    under = all(any(member_of_table(e, p) for e, p in facts_at(s_, fn)) for s_ in clears)
                    if clears and under and isinstance(acid_t, dict) and isinstance(base_t, dict) \
                            and set(acid_t) == set(base_t):
                        ok, why = True, ('`%s` is cleared only for a type that is a key of one '
                                         'table and both tables have the same keys' % flag)
            if not ok and norm(node.value) == 'globals()':
                # globals()['<fmt>'.format(<table>[k])]: every value of the shipped
                # table, put through the format, names a class of this module
                kexp = canon(fn).expr(node.slice)
                tmpl = str_template(kexp)
                src = [n_ for n_ in ast.walk(kexp) if isinstance(n_, ast.Subscript)
                       and norm(n_.value).split('.')[-1] in dict_tables]
                vals = cfg.values.get(norm(src[0].value).split('.')[-1]) if len(src) == 1 else None
                flds = [t for t in (tmpl or []) if t[0] == 'fld']
                if isinstance(vals, dict) and vals and len(flds) == 1 and flds[0][2] == '':
                    names_ = {''.join(str(v) if t[0] == 'fld' else t[1] for t in tmpl) for v in vals.values()}
                    missing = sorted(n_ for n_ in names_ if n_ not in mod.classes)
                    if not missing:
                        ok, why = True, ('every value of the shipped table names a class of %s (%s)'
                                         % (mod.name, sorted(names_)))
                    else:
                        why = 'no class %s in %s' % (missing, mod.name)
            key = '%s.%s:%s' % (fid[0], fid[1], anorm(node, fn)[:70])
            dup = sum(1 for o in ctx.obligations if o['key'].startswith('lookup:' + key))
            if dup:
                key += '#%d' % (dup + 1)
            if not ok and key in tri:
                ctx.triage('c12_partial_ops', key)
                ok, why = True, 'lemma: ' + tri[key]
            ctx.ob('C12.R3', 'lookup:' + key, ok,
                   'dictionary look-up %s is guarded by a membership test on the same key (%s)'
                   % (norm(node), why or 'NOT guarded'), mod, node)
    ctx.need('C12.R3', 12)
    vdw = cfg.get('VanDerWaalsVolume')
    ctx.ob('C12.R3', 'cfg:C4-volume-present', 'C4' in vdw,
           "the literal key 'C4' exists in VanDerWaalsVolume", prog.mod('parameters'),
           prog.mod('parameters').cls('Parameters'))

    # messages: an 's' format specification applied to an object that is not a
    # string raises TypeError (object.__format__ accepts the empty specification
    # only) - also on warning paths that only incomplete structures reach
    import string as _string2
    n_fields, bad_fields = 0, []
    for fid in sorted(reach):
        fn = cg.funcs[fid]
        mod = cg.mod_of[fid]
        params_ = {a.arg: a for a in fn.args.args + fn.args.kwonlyargs}
        # names that are used as objects with attributes of their own
        obj_names = set()
        for n in walk_no_nested(fn):
            if isinstance(n, ast.Attribute) and isinstance(n.value, ast.Name) \
                    and not hasattr(str, n.attr) and not n.attr.startswith('__'):
                obj_names.add(n.value.id)
        for pn, a in params_.items():
            ann = norm(a.annotation) if a.annotation is not None else ''
            if any(t in ann for t in ('Group', 'Atom', 'Container', 'Parameters', 'Version')) \
                    and 'str' not in ann:
                obj_names.add(pn)

        def is_object(e, depth=0):
            if isinstance(e, ast.Name):
                if e.id in obj_names:
                    return True
                if depth < 3:
                    defs = [st.value for st in walk_no_nested(fn) if isinstance(st, ast.Assign)
                            and len(st.targets) == 1 and isinstance(st.targets[0], ast.Name)
                            and st.targets[0].id == e.id]
                    return bool(defs) and all(is_object(d, depth + 1) for d in defs)
                return False
            if isinstance(e, ast.IfExp):
                return is_object(e.body, depth) and is_object(e.orelse, depth)
            return False
        for node in walk_no_nested(fn):
            fields = []
            if isinstance(node, ast.Call) and isinstance(node.func, ast.Attribute) and node.func.attr == 'format' \
                    and isinstance(node.func.value, ast.Constant) and isinstance(node.func.value.value, str):
                auto = 0
                try:
                    parsed = list(_string2.Formatter().parse(node.func.value.value))
                except ValueError:
                    parsed = []
                for _lit, field, spec, conv in parsed:
                    if field is None:
                        continue
                    head = field.split('.')[0].split('[')[0]
                    idx = auto if head == '' else (int(head) if head.isdigit() else None)
                    auto += 1 if head == '' else 0
                    arg = node.args[idx] if idx is not None and idx < len(node.args) else next(
                        (k.value for k in node.keywords if k.arg == head), None)
                    if head != field:
                        continue            # an attribute or item of the argument is formatted
                    fields.append((spec or '', conv, arg))
            elif isinstance(node, ast.JoinedStr):
                for v in node.values:
                    if isinstance(v, ast.FormattedValue):
                        spec = ''.join(x.value for x in v.format_spec.values
                                       if isinstance(x, ast.Constant)) if v.format_spec is not None else ''
                        fields.append((spec, None if v.conversion == -1 else 'c', v.value))
            for spec, conv, arg in fields:
                if not spec.endswith('s') or conv or arg is None:
                    continue
                n_fields += 1
                if is_object(arg):
                    bad_fields.append((mod, fid, node, norm(arg)))
    for mod, fid, node, txt in bad_fields:
        ctx.ob('C12.R2', 'message:s-spec-on-object:%s.%s:%s' % (fid[0], fid[1], txt), False,
               'an "s" format specification is applied to %s, which this function uses as an object '
               '(TypeError: unsupported format string passed to ...__format__); on a warning path '
               'that only an incomplete structure reaches this turns a skipped pair into an abort'
               % txt, mod, node)
    ctx.ob('C12.R2', 'message:s-spec-fields-are-not-objects', not bad_fields and n_fields >= 40,
           '%d "s"-formatted fields in reachable code, none applied to a name the function uses as '
           'an object' % n_fields, gmod, gmod.tree)
    # ------------------------------------------------------------------ R4
    imod = prog.mod('input')
    rmf = imod.func('read_molecule_file')
    raises = [r for r in walk_no_nested(rmf) if isinstance(r, ast.Raise)]
    ok = len(raises) == 2 and all(isinstance(r.exc, ast.Call) and call_name(r.exc) == 'ValueError'
                                  for r in raises)
    ctx.ob('C12.R4', 'rejection:only-ValueError', ok,
           'read_molecule_file raises nothing but ValueError', imod, rmf)
    rcan = canon(rmf)

    def is_conformations(text):
        return text.startswith('read_pdb(') and text.endswith(')[0]')
    empty = []
    for r in raises:
        for e, pol in facts_at(r, rmf):
            if pol and isinstance(e, ast.Compare) and isinstance(e.ops[0], ast.Eq) \
                    and isinstance(e.left, ast.Call) and call_name(e.left) == 'len' \
                    and is_conformations(rcan.text(e.left.args[0])) and try_fold(e.comparators[0]) == 0:
                empty.append(r)
            elif (not pol) and is_conformations(rcan.text(e)):
                empty.append(r)
    first_use = [s for s in walk_no_nested(rmf) if isinstance(s, ast.Assign)
                 and is_conformations(rcan.text(s.value))
                 and not isinstance(s.targets[0], (ast.Tuple, ast.List, ast.Name))]
    # the rejection is a ValueError also for a pathlib.Path argument: building
    # the message must not raise, and '{:s}' applied to a Path does (TypeError:
    # unsupported format string passed to PosixPath.__format__)
    import string as _string
    fparams = {a.arg: a for a in rmf.args.args}

    def surely_str(e):
        e = rcan.expr(e) if isinstance(e, ast.Name) and e.id not in fparams else e
        if isinstance(e, ast.Constant):
            return isinstance(e.value, str)
        if isinstance(e, ast.Call) and call_name(e) in ('str', 'repr'):
            return True
        if isinstance(e, ast.Attribute) and e.attr in ('suffix', 'stem', 'name'):
            return True
        if isinstance(e, ast.Call) and isinstance(e.func, ast.Attribute) and e.func.attr in (
                'lower', 'upper', 'strip', 'format', 'join'):
            return True
        return False
    unsafe = []
    for r in raises:
        msg = r.exc.args[0] if isinstance(r.exc, ast.Call) and r.exc.args else None
        msg = rcan.expr(msg) if isinstance(msg, ast.Name) else msg
        if isinstance(msg, ast.Call) and isinstance(msg.func, ast.Attribute) and msg.func.attr == 'format' \
                and isinstance(msg.func.value, ast.Constant) and isinstance(msg.func.value.value, str):
            auto = 0
            for _lit, field, spec, conv in _string.Formatter().parse(msg.func.value.value):
                if field is None:
                    continue
                idx = auto if field == '' else (int(field) if field.isdigit() else None)
                auto += 1 if field == '' else 0
                arg = msg.args[idx] if idx is not None and idx < len(msg.args) else next(
                    (k.value for k in msg.keywords if k.arg == field), None)
                if (spec or '').endswith('s') and not conv and arg is not None and not surely_str(arg):
                    unsafe.append((r, norm(arg)))
        if isinstance(msg, ast.JoinedStr):
            for v in msg.values:
                if isinstance(v, ast.FormattedValue) and v.conversion == -1 and v.format_spec is not None \
                        and norm(v.format_spec).rstrip("'\"").endswith('s') and not surely_str(v.value):
                    unsafe.append((r, norm(v.value)))
    ctx.ob('C12.R4', 'rejection:message-cannot-raise', not unsafe,
           'the messages of the two rejections format only values that are strings with an "s" '
           'specification (a str-or-PathLike argument given as pathlib.Path raises TypeError inside '
           'str.format, before the ValueError exists): %s' % [a for _r, a in unsafe],
           imod, unsafe[0][0] if unsafe else rmf)
    # "before": every use is reached only with a non-empty result (dominated by
    # the negation of the rejecting test), wherever the two stand in the text
    def nonempty_at(node):
        for e, pol in facts_at(node, rmf):
            if pol and isinstance(e, ast.Compare) and isinstance(e.ops[0], ast.NotEq) \
                    and isinstance(e.left, ast.Call) and call_name(e.left) == 'len' \
                    and is_conformations(rcan.text(e.left.args[0])) and try_fold(e.comparators[0]) == 0:
                return True
            if pol and is_conformations(rcan.text(e)):
                return True
        return False
    ctx.ob('C12.R4', 'rejection:empty-input-before-use',
           len(empty) == 1 and bool(first_use) and all(nonempty_at(u) for u in first_use),
           'input without atom records is rejected before the conformations are used', imod,
           empty[0] if empty else rmf)
    unk = [r for r in raises if any(p and ".lower() != '.pdb'" in t for t, p in fact_texts(r, rmf))]
    ctx.ob('C12.R4', 'rejection:unknown-file-type', len(unk) == 1,
           'an unknown file type is rejected in the else branch of the extension test', imod,
           unk[0] if unk else rmf)
    # nothing is computed from the file before the type test except the name
    # precheck only warns
    pp = prog.mod('lib').func('protein_precheck')
    # the entry points hand their arguments on intact: a call that unpacks a
    # sequence of unknown length into a callee of fixed arity fails with
    # TypeError (or, for one element, passes a string where a list is meant)
    # before any structure is looked at - main(['x.xyz']) then ends in
    # SystemExit/TypeError instead of the ValueError of read_molecule_file
    n_star = 0
    for m2, q2, f2 in prog.all_funcs():
        for c in calls_in(f2):
            stars = [a for a in c.args if isinstance(a, ast.Starred)]
            if not stars:
                continue
            targets = cg.resolve_call(m2, q2, c) if hasattr(cg, 'resolve_call') else []
            cname = (call_name(c) or '').split('.')[-1]
            cands = [fn_ for (mm, qq), fn_ in cg.funcs.items() if qq.split('.')[-1] == cname] \
                if not targets else [cg.funcs[t] for t in targets]
            if len(cands) != 1 or cands[0].args.vararg is not None:
                continue
            callee = cands[0]
            pos = [a.arg for a in callee.args.args if a.arg != 'self']
            n_def = len(callee.args.defaults)
            lo, hi = len(pos) - n_def, len(pos)
            n_star += 1
            known = 0
            unknown = []
            for a in c.args:
                if not isinstance(a, ast.Starred):
                    known += 1
                    continue
                v = a.value
                n = None
                if isinstance(v, (ast.Tuple, ast.List)):
                    n = len(v.elts)
                elif isinstance(v, ast.Name):
                    defs = [st for st in walk_no_nested(f2) if isinstance(st, ast.Assign)
                            and norm(st.targets[0]) == v.id]
                    # also look in the enclosing function (closures)
                    outer = getattr(f2, '_parent', None)
                    while outer is not None and not isinstance(outer, ast.FunctionDef):
                        outer = getattr(outer, '_parent', None)
                    if not defs and outer is not None:
                        defs = [st for st in walk_no_nested(outer) if isinstance(st, ast.Assign)
                                and norm(st.targets[0]) == v.id]
                    if len(defs) == 1 and isinstance(defs[0].value, (ast.Tuple, ast.List)):
                        n = len(defs[0].value.elts)
                    else:
                        for fdef in (f2, outer):
                            if fdef is None or defs:
                                continue
                            ps = fdef.args.args + fdef.args.kwonlyargs
                            ds = [None] * (len(fdef.args.args) - len(fdef.args.defaults)) + \
                                list(fdef.args.defaults) + list(fdef.args.kw_defaults)
                            for p_, d_ in zip(ps, ds):
                                if p_.arg == v.id and isinstance(d_, (ast.Tuple, ast.List)):
                                    n = len(d_.elts)
                if n is None:
                    unknown.append(norm(v))
                else:
                    known += n
            ok_star = not unknown and lo <= known <= hi
            skey = 'star-call:%s.%s:%s' % (m2.name, q2, anorm(c, f2)[:50])
            dup = sum(1 for o in ctx.obligations if o['key'].split('#')[0] == skey)
            if dup:
                skey += '#%d' % (dup + 1)
            ctx.ob('C12.R4', skey, ok_star,
                   '%s unpacks %s into %s, which takes %d to %d positional arguments (%s)'
                   % (norm(c)[:60], [norm(a.value) for a in stars], cname, lo, hi,
                      'length unknown: ' + ', '.join(unknown) if unknown else '%d passed' % known),
                   m2, c)
    ctx.note('star_calls', n_star)
    ctx.ob('C12.R4', 'precheck:only-warns',
           not any(isinstance(n, (ast.Raise, ast.Assert)) for n in walk_no_nested(pp)) and
           all(last_attr(c) != 'error' for c in calls_in(pp)),
           'protein_precheck has no raise/assert: it only logs warnings', prog.mod('lib'), pp)

    # ------------------------------------------------------------------ R5
    mapping = cfg.get('protein_group_mapping')
    for key in sorted(mapping):
        atom = key.partition('-')[2]
        ctx.ob('C12.R5', 'defining-atom-decides:' + key, atom not in ('N', 'C'),
               'classification of %s depends on the presence of the defining atom %s alone (it '
               'is not captured by the backbone branches)' % (key, atom), gmod, gmod.func('is_protein_group'))
    ipg_names = set()
    for node in walk_no_nested(ipg):
        if isinstance(node, ast.Attribute) and isinstance(node.value, ast.Name) and node.value.id == 'atom':
            ipg_names.add(node.attr)
    ctx.ob('C12.R5', 'classifier:own-fields-only',
           ipg_names <= {'type', 'terminal', 'name', 'res_name', 'count_bonded_elements',
                         'bonded_atoms', 'chain_id', 'res_num', 'icode'},
           'is_protein_group reads only the atom\'s own fields, one bonded-oxygen count for the '
           'backbone carbonyl, and the atom\'s bonds to tell a tagged N-terminus from a nitrogen '
           'that is peptide-bonded to a preceding residue (either way a group is created for the '
           'atom): %s' % sorted(ipg_names), gmod, ipg)
    common.check_mapped_sidechain_always_created(ctx, 'C12.R5', prog)
    common.check_bridge_not_titrated(ctx, 'C12.R5', prog)
    ctx.assume('distinct atoms have distinct coordinates (vector lengths used as denominators are '
               'non-zero)')
    ctx.assume('errors from sources outside the modelled partial operations (acos domain, '
               'recursion depth in the ring search, I/O) are not decided')
