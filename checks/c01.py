"""C01 - every ionizable group is predicted exactly once with the right model pKa."""
import ast

from sa.astutil import (facts_at, call_name, calls_in, dotted, norm, walk_no_nested, fact_texts,
                        last_attr, names_in, guards_of, str_consts, try_fold, enclosing_loops,
                        literal, FoldError)
from sa.consteval import eval_init
from sa.loader import AnalysisError
from sa.canon import canon
from sa.tables import Cfg, columns_of_slice
from checks import common, groups as G
from checks.recordloop import RecordLoop, check_terminus_latch

MODEL_PKAS = {'ASP': 3.80, 'GLU': 4.50, 'HIS': 6.50, 'CYS': 9.00, 'TYR': 10.00,
              'LYS': 10.50, 'ARG': 12.50, 'N+': 8.00, 'C-': 3.20}
SITES = {'ASP-CG': -1, 'GLU-CD': -1, 'HIS-CG': +1, 'CYS-SG': -1, 'TYR-OH': -1,
         'LYS-NZ': +1, 'ARG-CZ': +1}


def run(ctx):
    prog = ctx.prog
    cfg = Cfg(prog)
    gmod = prog.mod('group')
    cc = prog.mod('conformation_container')
    pmod = prog.mod('parameters')
    anchor = pmod.cls('Parameters')

    # ------------------------------------------------------------------ R1
    pkas = cfg.get('model_pkas')
    for key, want in MODEL_PKAS.items():
        got = pkas.get(key)
        ctx.ob('C01.R1', 'model-pka:' + key, got is not None and abs(got - want) < 1e-9,
               'shipped model pKa of %s is %.2f (found %r)' % (key, want, got), pmod, anchor)
    # no later row overrides an earlier one for the same key
    seen = {}
    for ln, words in cfg.order.get('model_pkas', []):
        if len(words) == 3:
            seen.setdefault(words[1], []).append(words[2])
    dups = {k: v for k, v in seen.items() if len(v) > 1}
    ctx.ob('C01.R1', 'model-pka:no-duplicate-rows', not dups,
           'no model_pkas key is defined twice (the later row would silently win): %s' % dups,
           pmod, anchor)

    # ------------------------------------------------------------------ R2
    types = G.group_types(prog)
    mapping = cfg.get('protein_group_mapping')
    charge = cfg.get('charge')
    for key, val in sorted(mapping.items()):
        cname = val + 'Group'
        ctx.ob('C01.R2', 'mapping-class:' + key, cname in types,
               'protein_group_mapping %s -> %s names a Group subclass %s (the classifier does '
               'globals()[...])' % (key, val, cname), gmod, gmod.tree)
    for key, sign in SITES.items():
        val = mapping.get(key)
        ok = False
        detail = 'row missing'
        if val is not None and val + 'Group' in types:
            tps = G.class_type(types, val + 'Group')
            qs = [charge.get(t) for t in tps]
            ok = len(tps) == 1 and qs[0] is not None and qs[0] * sign > 0
            detail = 'class %sGroup, type %s, charge %s' % (val, tps, qs)
        ctx.ob('C01.R2', 'site:' + key, ok,
               'ionizable site %s is mapped to a group class whose type has a %s charge (%s)'
               % (key, 'negative' if sign < 0 else 'positive', detail), gmod, gmod.tree)
    # one defining atom per residue for residue types that carry a model pKa
    by_res = {}
    for key in mapping:
        res, _, atom = key.partition('-')
        by_res.setdefault(res, []).append(key)
    for res, keys in sorted(by_res.items()):
        if res in pkas:
            ctx.ob('C01.R2', 'one-defining-atom:' + res, len(keys) == 1,
                   'residue %s has exactly one defining atom among the mapping rows %s (two '
                   'would report the residue twice)' % (res, keys), gmod, gmod.tree)
    for key in mapping:
        atom = key.partition('-')[2]
        ctx.ob('C01.R2', 'defining-atom-not-backbone:' + key, atom not in ('N', 'C'),
               'defining atom %s is not captured by the backbone branches that precede the table '
               'look-up' % atom, gmod, gmod.tree)
    # ligand classes: type == residue_type
    fn_lig, rets = G.classifier_returns(prog, 'is_ligand_group_by_groups')
    lig_classes = sorted({c for _r, c in rets if c})
    for cname in lig_classes:
        if cname not in types:
            ctx.ob('C01.R2', 'ligand-class:' + cname, False,
                   'ligand classifier returns unknown class %s' % cname, gmod, fn_lig)
            continue
        tps = G.class_type(types, cname)
        rts = [v for v, _n in types[cname]['residue_type']]
        ctx.ob('C01.R2', 'ligand-class:' + cname, len(tps) == 1 and rts == tps,
               'ligand class %s sets type and residue_type to the same literal (%s / %s), so the '
               'charge row and the model-pKa row address the same key' % (cname, tps, rts),
               gmod, types[cname]['type'][0][1] if types[cname]['type'] else fn_lig)
    ctx.note('ligand_classes', lig_classes)
    # terminal oxygen names agree between the reader and the bond maker
    rl = RecordLoop(prog)
    term_c = [s for s in walk_no_nested(rl.loop) if isinstance(s, ast.Assign)
              and norm(s.targets[0]) == rl.terminal_var and isinstance(s.value, ast.Constant)
              and s.value.value == 'C-']
    benv = eval_init(prog, 'bonds', 'BondMaker')
    bm_names = benv.get('self.terminal_oxygen_names')
    rd_names = None
    if len(term_c) == 1:
        for t, p, _k in guards_of(term_c[0], rl.loop):
            if isinstance(t, ast.Compare) and isinstance(t.ops[0], ast.In) and p:
                try:
                    rd_names = list(literal(t.comparators[0]))
                except FoldError:
                    pass
    ctx.ob('C01.R2', 'terminal-oxygen-names:agree',
           rd_names is not None and isinstance(bm_names, list) and sorted(rd_names) == sorted(bm_names),
           'the PDB reader and the bond maker use the same terminal-oxygen names (%s vs %s)'
           % (rd_names, bm_names), rl.mod, term_c[0] if term_c else rl.fn)
    # SYBYL vocabulary: every type string tested by the ligand classifier can be produced
    lig = prog.mod('ligand')
    produced = set()
    for fn in lig.funcs.values():
        for call in calls_in(fn, nested=False):
            if call_name(call) == 'set_type' and len(call.args) == 2:
                a = call.args[1]
                if isinstance(a, ast.Constant):
                    produced.add(a.value)
                elif isinstance(a, ast.BinOp) and isinstance(a.right, ast.Constant):
                    # element + '.ar' / element + '.1'
                    produced.add('*' + a.right.value)
                elif isinstance(a, ast.Name):
                    produced.add('<element>')
    # set_charge strips '-' from the type
    produced |= {p.replace('-', '') for p in produced}
    tested = {}
    for node in walk_no_nested(fn_lig):
        if isinstance(node, ast.Compare) and 'sybyl_type' in norm(node):
            for c in [node.left] + node.comparators:
                for s in str_consts(c):
                    tested[s] = node
    triaged = {'N.4': 'reader-only string: never produced by assign_sybyl_type, harmless'}
    for s, node in sorted(tested.items()):
        can = s in produced or ('*.' + s.split('.')[-1]) in produced and '.' in s \
            or ('<element>' in produced and '.' not in s)
        if not can and s in triaged:
            ctx.assume('C01.R2 triaged SYBYL string %s: %s' % (s, triaged[s]))
            continue
        ctx.ob('C01.R2', 'sybyl-vocabulary:' + s, can,
               'SYBYL type %r tested by the ligand classifier is one assign_sybyl_type can produce'
               % s, gmod, node)
    ctx.need('C01.R2', 40)

    # ------------------------------------------------------------------ R3
    classes = set(types)
    ctor_sites = []
    # class tables: a module-level tuple/list of group classes used as TABLE[i](atom)
    class_tables = {}
    for st in gmod.tree.body:
        if isinstance(st, (ast.Assign, ast.AnnAssign)) and isinstance(st.value, (ast.Tuple, ast.List)) \
                and st.value.elts and all(isinstance(e, ast.Name) and e.id in classes for e in st.value.elts):
            tgt = st.targets[0] if isinstance(st, ast.Assign) else st.target
            class_tables[norm(tgt)] = [e.id for e in st.value.elts]
        # ... or a dictionary whose values are group classes, used as TABLE[key](atom)
        if isinstance(st, (ast.Assign, ast.AnnAssign)) and isinstance(st.value, ast.Dict) \
                and st.value.values and all(isinstance(e, ast.Name) and e.id in classes
                                            for e in st.value.values):
            tgt = st.targets[0] if isinstance(st, ast.Assign) else st.target
            class_tables[norm(tgt)] = [e.id for e in st.value.values]
    table_sites = []
    for m2, q2, f2 in prog.all_funcs():
        for call in calls_in(f2, nested=False):
            if isinstance(call.func, ast.Subscript) and norm(call.func.value) in class_tables \
                    and m2.name == 'group':
                table_sites.append((m2, q2, f2, call, class_tables[norm(call.func.value)]))
    for m2, q2, f2 in prog.all_funcs():
        for call in calls_in(f2, nested=False):
            cn = call_name(call)
            if cn in classes and m2.name == 'group' or (cn and cn.split('.')[-1] in classes
                                                       and cn.startswith('propka.group')):
                ctor_sites.append((m2, q2, f2, call))
            if cn == 'group_class':
                ctor_sites.append((m2, q2, f2, call))
    allowed_ctor = {'is_protein_group', 'is_ligand_group_by_groups', 'is_ligand_group_by_marvin_pkas',
                    'is_ion_group', 'Group.clone'}
    def returned_local(call, f2):
        """`g = Ctor(atom)` where g is only ever tested against None and returned"""
        par = call._parent
        if not (isinstance(par, ast.Assign) and len(par.targets) == 1 and isinstance(par.targets[0], ast.Name)):
            return False
        g = par.targets[0].id
        loads = [n for n in walk_no_nested(f2) if isinstance(n, ast.Name) and n.id == g
                 and isinstance(n.ctx, ast.Load)]
        for n in loads:
            p_ = n._parent
            if isinstance(p_, ast.Return) and p_.value is n:
                continue
            if isinstance(p_, ast.Compare) and len(p_.ops) == 1 and isinstance(p_.ops[0], (ast.Is, ast.IsNot)) \
                    and isinstance(p_.comparators[0], ast.Constant) and p_.comparators[0].value is None:
                continue
            return False
        return bool(loads)
    for m2, q2, f2, call in ctor_sites:
        in_ret = isinstance(call._parent, ast.Return) or returned_local(call, f2)
        if q2 == 'Group.clone':
            in_ret = True
        if q2.endswith('.__init__') and isinstance(call.func, ast.Attribute):
            continue   # Group.__init__(self, atom) chained constructor
        ctx.ob('C01.R3', 'constructor-site:%s:%s' % (q2, norm(call)),
               q2 in allowed_ctor and in_ret,
               'a group object is created only by a classifier, as the value it returns at once '
               '(first match wins), or by clone', m2, call)
    for m2, q2, f2, call, names_ in table_sites:
        for cname_ in names_:
            ctx.ob('C01.R3', 'constructor-site:%s:%s[%s]' % (q2, norm(call.func.value), cname_),
                   q2 in allowed_ctor and (isinstance(call._parent, ast.Return) or returned_local(call, f2)),
                   'a group object is created only by a classifier, as the value it returns at once '
                   '(here through a table of classes)', m2, call)
    ctx.need('C01.R3', 25)
    # is_group: first non-None classifier result is returned
    isg = gmod.func('is_group')
    seq = [call_name(c) for c in calls_in(isg, nested=False)
           if (call_name(c) or '').startswith('is_')]
    ctx.ob('C01.R3', 'is_group:classifier-order',
           seq[:2] == ['is_protein_group', 'is_ion_group'] and 'is_ligand_group_by_groups' in seq,
           'is_group tries protein, ion, then ligand classification (%s)' % seq, gmod, isg)
    rets_isg = [r for r in walk_no_nested(isg) if isinstance(r, ast.Return)]
    cls_defs = {}
    for s_ in walk_no_nested(isg):
        if isinstance(s_, ast.Assign) and isinstance(s_.targets[0], ast.Name) \
                and isinstance(s_.value, ast.Call) and (call_name(s_.value) or '').startswith('is_'):
            cls_defs.setdefault(s_.targets[0].id, []).append(call_name(s_.value))
    ok_rets = len(rets_isg) >= 3
    for r in rets_isg:
        if isinstance(r.value, ast.Constant) and r.value.value is None:
            continue
        if isinstance(r.value, ast.Name) and r.value.id in cls_defs and any(
                p and t == r.value.id for t, p in fact_texts(r, isg)):
            continue
        # the answer of the last classifier that is asked on this path, handed on as it is
        if isinstance(r.value, ast.Call) and (call_name(r.value) or '').startswith('is_'):
            continue
        ok_rets = False
    ctx.ob('C01.R3', 'is_group:returns-first-match', ok_rets,
           'is_group returns the first classifier result that is not None', gmod, isg)
    # appends to a container's group list
    app_sites = []
    for m2, q2, f2 in prog.all_funcs():
        for call in calls_in(f2, nested=False):
            if last_attr(call) in ('append', 'extend', 'insert') and \
                    norm(call.func.value).endswith('.groups'):
                app_sites.append((m2, q2, call))
    want_sites = {'ConformationContainer.setup_and_add_group',
                  'MolecularContainer.average_of_conformations'}
    ctx.ob('C01.R3', 'groups:append-sites', {q for _m, q, _c in app_sites} == want_sites
           and len(app_sites) == 2,
           'groups enter a container only in setup_and_add_group and in the averaging function '
           '(sites: %s)' % sorted(q for _m, q, _c in app_sites), cc, cc.tree)
    sag = cc.func('ConformationContainer.setup_and_add_group')
    from sa.astutil import is_inert_stmt, effective
    calls_sag = [last_attr(c) for c in calls_in(sag, nested=False)
                 if not (isinstance(c._parent, ast.Expr) and is_inert_stmt(c._parent))]
    sag_param = sag.args.args[1].arg
    app_calls = [c for c in calls_in(sag, nested=False) if last_attr(c) == 'append']
    app_conds = []
    if len(app_calls) == 1:
        for e, pol in facts_at(app_calls[0], sag):
            t = ('' if pol else 'not ') + norm(e)
            if t in (sag_param, 'not not ' + sag_param, '%s is not None' % sag_param,
                     'not %s is None' % sag_param):
                continue        # the classifier found a group at all
            app_conds.append(t)
    ctx.ob('C01.R3', 'setup_and_add_group:init-then-append-once',
           calls_sag == ['init_group', 'append'] and not app_conds,
           'setup_and_add_group initialises the group and appends it exactly once, whenever the '
           'classifier returned a group - under no further condition (calls %s; conditions on the '
           'append: %s)' % (calls_sag, app_conds), cc, app_calls[0] if app_calls else sag)
    eg = cc.func('ConformationContainer.extract_groups')
    loops = [n for n in walk_no_nested(eg) if isinstance(n, ast.For)]
    ok = False
    if len(loops) == 1 and norm(loops[0].iter) == 'self.get_non_hydrogen_atoms()':
        body_calls = [c for c in calls_in(loops[0])]
        n_cls = sum(1 for c in body_calls if call_name(c) == 'is_group')
        n_add = sum(1 for c in body_calls if last_attr(c) == 'setup_and_add_group')
        ok = n_cls == 1 and n_add == 1
    ctx.ob('C01.R3', 'extract_groups:each-heavy-atom-once', ok,
           'extract_groups visits every non-hydrogen atom once, classifies it once (or reuses '
           'atom.group) and adds the result once', cc, eg)
    # every conformation is extracted
    mc = prog.mod('molecular_container')
    meg = mc.func('MolecularContainer.extract_groups')
    mloops = [n for n in walk_no_nested(meg) if isinstance(n, ast.For)
              and norm(n.iter) == 'self.conformation_names' and isinstance(n.target, ast.Name)]
    ok_m = len(mloops) == 1 and any(
        last_attr(c) == 'extract_groups'
        and norm(c.func.value) == 'self.conformations[%s]' % mloops[0].target.id
        for c in calls_in(mloops[0])) and not any(
            isinstance(n, (ast.If, ast.Break, ast.Continue)) for n in ast.walk(mloops[0]))
    ctx.ob('C01.R3', 'extract_groups:every-conformation', ok_m,
           'groups are extracted in every conformation', mc, meg)
    # atom.group back-pointer is set by Group.__init__ only
    gi = gmod.func('Group.__init__')
    ctx.ob('C01.R3', 'atom.group:set-by-constructor',
           any(isinstance(s, ast.Assign) and norm(s.targets[0]) == '%s.group' % gi.args.args[1].arg
               and norm(s.value) == 'self' for s in walk_no_nested(gi)),
           'Group.__init__ records the group on its atom', gmod, gi)

    # ------------------------------------------------------------------ R4
    order = cfg.get('write_out_order')
    for key in sorted(set(pkas) | {'CYS'}):
        ctx.ob('C01.R4', 'write-out:' + key, key in order,
               'reported residue type %s has a write_out_order entry' % key, pmod, anchor)
    ctx.ob('C01.R4', 'write-out:no-duplicates', len(order) == len(set(order)),
           'write_out_order has no duplicate entry', pmod, anchor)
    out = prog.mod('output')
    for qual, meth in (('get_determinant_section', 'get_determinant_string'),
                       ('get_summary_section', 'get_summary_string')):
        f = out.func(qual)
        calls = [c for c in calls_in(f, nested=False) if last_attr(c) == meth]
        ok = False
        if len(calls) == 1:
            lps = enclosing_loops(calls[0], f)
            its = [norm(l.iter) for l in lps]
            facts = fact_texts(calls[0], f)
            order_vars = [norm(l.target) for l in lps if 'write_out_order' in norm(l.iter)]
            group_var = norm(calls[0].func.value)
            eq = any(p and t.replace(' ', '') in ('%s.residue_type==%s' % (group_var, ov),
                                                  '%s==%s.residue_type' % (ov, group_var))
                     for t, p in facts for ov in order_vars)
            # nothing else decides: the equality is the only condition on the way
            # to the call (an early `continue` shows up as a condition) and no
            # loop is left early
            def is_eq(t):
                return any(t.replace(' ', '') in ('%s.residue_type==%s' % (group_var, ov),
                                                  '%s==%s.residue_type' % (ov, group_var))
                           for ov in order_vars)
            only = all(p and (is_eq(t) or t == group_var + '.use_in_calculations()') for t, p in facts)
            ok = any('write_out_order' in i for i in its) and eq and only and \
                not any(isinstance(n, ast.Break) for l in lps for n in ast.walk(l))
        ctx.ob('C01.R4', 'section:' + qual, ok,
               '%s prints every group whose residue type equals the current write-out entry, '
               'once per entry' % qual, out, calls[0] if calls else f)
    common_uic = gmod.func('Group.use_in_calculations')
    r = [x for x in walk_no_nested(common_uic) if isinstance(x, ast.Return)]
    t = norm(r[0].value) if r else ''
    ctx.ob('C01.R4', 'report-filter',
           'self.titratable or' in t and "self.residue_type == 'CYS'" in t
           and 'not self.exclude_cys_from_results' in t,
           'a group is reported iff titratable or an unhidden CYS', gmod, r[0] if r else common_uic)
    add_atom = cc.func('ConformationContainer.add_atom')
    chain_apps = [c for c in calls_in(add_atom, nested=False) if last_attr(c) == 'append'
                  and norm(c.func.value) == 'self.chains']
    ok = len(chain_apps) == 1 and any(
        p and 'not in self.chains' in t for t, p in fact_texts(chain_apps[0], add_atom))
    ctx.ob('C01.R4', 'chains:duplicate-free', ok,
           'the chain list iterated by the determinant section is duplicate-free', cc,
           chain_apps[0] if chain_apps else add_atom)

    common.check_mapped_sidechain_always_created(ctx, 'C01.R3', prog)
    # with a titrate-only list: exactly the listed residues' groups (rules of C14)
    from checks import c14
    c14.demotion_rules(ctx, 'C01.R4', prog)
    # ------------------------------------------------------------------ R5
    common.check_bridge_flag_written(ctx, 'C01.R5', prog)
    common.check_bridge_not_titrated(ctx, 'C01.R5', prog)

    # ------------------------------------------------------------------ R6
    check_terminus_latch(ctx, 'C01.R6', rl)
    from checks.recordloop import check_raw_record_fields
    check_raw_record_fields(ctx, 'C01.R6', rl)

    # a residue tagged N+ by the sequential reader is only a chain start if its
    # nitrogen is not peptide-bonded to a preceding residue: the reader consumes
    # the "next residue" latch on ATOM records only, so a chain that begins with a
    # HETATM residue (MSE, ACE, ...) hands the tag to its second residue
    ipg_f = gmod.func('is_protein_group')
    nterm_rets = [r for r in walk_no_nested(ipg_f) if isinstance(r, ast.Return)
                  and isinstance(r.value, ast.Call) and call_name(r.value) == 'NtermGroup']
    bonded_checked = bool(nterm_rets) and all(
        any(any(isinstance(x, ast.Attribute) and x.attr == 'bonded_atoms' for x in ast.walk(e))
            for e, _pol in facts_at(r, ipg_f)) for r in nterm_rets)
    ctx.ob('C01.R6', 'N+:not-peptide-bonded-to-a-preceding-residue', bonded_checked,
           'an N-terminus group is created for a tagged nitrogen only after looking at its bonds '
           '(no carbonyl carbon of another residue attached); the tag alone is not proof of a '
           'chain start when the first residue of the chain is a HETATM record', gmod,
           nterm_rets[0] if nterm_rets else ipg_f)

    # ------------------------------------------------------------------ R7
    setup = gmod.func('Group.setup')
    reads = {}
    for node in walk_no_nested(setup):
        if isinstance(node, ast.Assign) and isinstance(node.value, ast.Subscript) \
                and norm(node.value.value).startswith('self.parameters.'):
            tbl = norm(node.value.value).split('.')[-1]
            keyt = norm(node.value.slice)
            facts = fact_texts(node, setup)
            guarded = any(p and t.replace(' ', '') in (
                '%sinself.parameters.%s.keys()' % (keyt.replace(' ', ''), tbl),
                '%sinself.parameters.%s' % (keyt.replace(' ', ''), tbl)) for t, p in facts)
            reads[(norm(node.targets[0]), tbl)] = (keyt, guarded, node)
    keydef = [s_ for s_ in walk_no_nested(setup) if isinstance(s_, ast.Assign)
              and isinstance(s_.targets[0], ast.Name) and isinstance(s_.value, ast.Call)
              and last_attr(s_.value) == 'format' and isinstance(s_.value.func.value, ast.Constant)
              and s_.value.func.value.value == '{0:s}-{1:s}']
    key_name = keydef[0].targets[0].id if len(keydef) == 1 else 'key'
    want = {('self.charge', 'charge'): 'self.type', ('self.charge', 'ions'): 'self.residue_type',
            ('self.model_pka', 'model_pkas'): 'self.residue_type',
            ('self.model_pka', 'custom_model_pkas'): key_name}
    for (tgt, tbl), wkey in want.items():
        got = reads.get((tgt, tbl))
        ctx.ob('C01.R7', 'setup-read:%s<-%s' % (tgt, tbl),
               got is not None and got[0] == wkey and got[1],
               'Group.setup reads %s from parameters.%s[%s] under a membership test on that key '
               '(found %s)' % (tgt, tbl, wkey if wkey != key_name else '<custom key>',
                               got[:2] if got else None), gmod, got[2] if got else setup)
    # order: ions override charge; custom overrides model
    def line(tgt, tbl):
        g = reads.get((tgt, tbl))
        return g[2].lineno if g else 0
    ctx.ob('C01.R7', 'setup-order', 0 < line('self.charge', 'charge') < line('self.charge', 'ions')
           and 0 < line('self.model_pka', 'model_pkas') < line('self.model_pka', 'custom_model_pkas'),
           'ion charges override type charges and custom model pKas override the tabulated ones',
           gmod, setup)
    ok = len(keydef) == 1 and [norm(a) for a in keydef[0].value.args] == \
        ['self.atom.res_name.strip()', 'self.atom.name.strip()']
    ctx.ob('C01.R7', 'setup:custom-key', ok,
           'the custom model-pKa key is "<residue name>-<atom name>"', gmod,
           keydef[0] if keydef else setup)
    # model_pka_set writers
    wr = set()
    for m2, q2, f2 in prog.all_funcs():
        for n in walk_no_nested(f2):
            if isinstance(n, ast.Assign) and any(isinstance(t, ast.Attribute)
                                                 and t.attr == 'model_pka_set' for t in n.targets) \
                    and norm(n.value) == 'True':
                wr.add(q2)
    ctx.ob('C01.R7', 'model_pka_set:writers',
           wr <= {'Group.setup', 'TitratableLigandGroup.__init__'} and 'Group.setup' in wr,
           'model_pka_set becomes true only in Group.setup (under the model-pKa membership test) '
           'and in the marvin ligand class (writers %s)' % sorted(wr), gmod, setup)
    # residue_type source
    rt = [s for s in walk_no_nested(gi) if isinstance(s, ast.Assign)
          and norm(s.targets[0]) == 'self.residue_type']
    owners = ['self.atom'] + [a.arg for a in gi.args.args if a.arg != 'self'][:1]
    ok = False
    for o_ in owners:
        # the residue name, replaced by the terminus tag when there is one - as two
        # statements or as one conditional expression
        if len(rt) == 2 and norm(rt[0].value) == o_ + '.res_name' and norm(rt[1].value) == o_ + '.terminal' \
                and any(p and t == o_ + '.terminal' for t, p in fact_texts(rt[1], gi)):
            ok = True
        if len(rt) == 1 and norm(rt[0].value) in (
                '%s.terminal if %s.terminal else %s.res_name' % (o_, o_, o_),
                '%s.res_name if not %s.terminal else %s.terminal' % (o_, o_, o_),
                '%s.terminal or %s.res_name' % (o_, o_)):
            ok = True
    ctx.ob('C01.R7', 'residue_type:source', ok,
           'the residue type is the residue name, replaced by the terminus tag when the atom '
           'carries one', gmod, rt[0] if rt else gi)
    # ------------------------------------------------------------------ R8
    # "exactly once" in the reported (averaged) result: the averaging step
    # enumerates the groups of every conformation and skips one only when the
    # same group (find_group's key) is already in the average container
    from checks import c08
    c08.averaging_rules(ctx, lambda name: 'C01.R8')
    # ------------------------------------------------------------------ R9
    # "once in the reported summary": a group that is covalently coupled to
    # another titratable group is penalised by coupling_effects and, with
    # remove_penalised_group = 1 (shipped), printed as an empty string.  Groups
    # are coupled when their defining atoms are within
    # coupling_max_number_of_bonds bonds and carry the same sybyl type - and
    # every protein atom carries the same (empty) sybyl type.  So a protein site
    # is dropped from the report whenever the residue templates put its
    # defining atom that close to another site's defining atom.
    ccm = prog.mod('conformation_container')
    fcc = ccm.func('ConformationContainer.find_covalently_coupled_groups')
    ccan = canon(fcc)
    couples = [c for c in calls_in(fcc, nested=False) if last_attr(c) == 'couple_covalently']
    cond_texts = []
    protein_excluded = False
    if len(couples) == 1:
        for e, pol in facts_at(couples[0], fcc):
            t = ccan.text(e)
            cond_texts.append(('' if pol else 'not ') + t)
            # a conjunct that can only hold for typed (hetero) atoms
            if pol and ((isinstance(e, ast.Attribute) and e.attr == 'sybyl_type')
                        or (isinstance(e, ast.Compare) and ".atom.type == 'hetatm'" in t)
                        or (isinstance(e, ast.Compare) and t.endswith(".sybyl_type != ''"))):
                protein_excluded = True
    sybyl_writers = sorted({'%s.%s' % (m2.name, q2) for m2, q2, f2 in prog.all_funcs()
                            for n in walk_no_nested(f2) if isinstance(n, (ast.Assign, ast.AugAssign))
                            for t in (n.targets if isinstance(n, ast.Assign) else [n.target])
                            if isinstance(t, ast.Attribute) and t.attr == 'sybyl_type'})
    typed_only_ligands = all(w.startswith(('ligand.', 'protonate.', 'atom.')) for w in sybyl_writers)
    drop = gmod.func('Group.get_summary_string')
    drops = any(isinstance(n, ast.If) and 'coupled_titrating_group' in norm(n.test)
                and any(isinstance(r, ast.Return) for r in n.body) for n in walk_no_nested(drop))
    max_bonds = cfg.num('coupling_max_number_of_bonds')
    removes = cfg.num('remove_penalised_group')
    ctx.note('covalent_coupling', {'conditions': cond_texts, 'sybyl_type_writers': sybyl_writers,
                                   'max_bonds': max_bonds, 'remove_penalised_group': removes,
                                   'protein_groups_excluded': protein_excluded})
    bonds_tpl = prog.protein_bonds()
    bb = eval_init(prog, 'bonds', 'BondMaker').get('self.intra_residue_backbone_bonds') or {}

    def template_distance(res, a, b):
        graph = {}
        for x, ns in list(bonds_tpl.get(res, {}).items()) + list(bb.items()):
            for y in ns:
                graph.setdefault(x, set()).add(y)
                graph.setdefault(y, set()).add(x)
        seen, frontier, d = {a}, {a}, 0
        while frontier and b not in seen:
            d += 1
            frontier = {y for x in frontier for y in graph.get(x, ()) if y not in seen}
            seen |= frontier
        return d if b in seen else None
    n_r9 = 0
    for key in sorted(mapping):
        res, atom = key.split('-')
        if res not in bonds_tpl or mapping[key] not in pkas and res not in pkas:
            continue
        for term, tatom in (('N+', 'N'), ('C-', 'O')):
            d = template_distance(res, tatom, atom)
            if d is None:
                continue
            n_r9 += 1
            coupled = d <= max_bonds and not protein_excluded and typed_only_ligands and drops \
                and removes
            ctx.ob('C01.R9', 'terminal-site-not-coupled:%s/%s' % (term, key), not coupled,
                   'the %s group of a terminal %s and its side-chain site %s are %d bonds apart '
                   '(limit for covalent coupling: %d, same sybyl type required - all protein atoms '
                   'have the empty type): %s' % (
                       term, res, key, d, max_bonds,
                       'they are coupled, one of the two is penalised and printed as an empty '
                       'row, so the site is missing from the determinant table and the summary'
                       if coupled else 'not coupled'), ccm, couples[0] if couples else fcc)
    # the two termini of a chain that consists of a single residue
    d_nc = template_distance('ALA', 'N', 'O')
    if d_nc is not None:
        coupled = d_nc <= max_bonds and not protein_excluded and typed_only_ligands and drops and removes
        ctx.ob('C01.R9', 'terminal-site-not-coupled:N+/C-', not coupled,
               'the N+ and C- groups of a one-residue chain are %d bonds apart (N-CA-C-O; limit %d): %s'
               % (d_nc, max_bonds, 'they are coupled and one of them is dropped from the report'
                  if coupled else 'not coupled'), ccm, couples[0] if couples else fcc)
    ctx.need('C01.R9', 8)
    ctx.assume('the terminus tagger is checked for re-arming events and key completeness only, '
               'not as a transducer over all record sequences')
