"""C04 - predictions do not depend on where the structure sits in space.

R1 raw coordinates enter only through affine idioms (differences, centroids,
copies, constructed positions), R2 axis uniformity of the three-axis
formulas, R3 frame-dependent primitives are fenced off protein atoms.
"""
import ast

from sa import callgraph
from sa.astutil import (anorm, stores_in, call_name, calls_in, dotted, norm, walk_no_nested, last_attr,
                        names_in, fact_texts, try_fold, enclosing_stmt, ancestors,
                        func_params, enclosing_loops, facts_at)
from sa.loader import AnalysisError
from sa.flow import Analysis
from sa.canon import canon as canon_of
from checks.c06 import walk_with_lambdas
from checks import common

AXES = ('x', 'y', 'z')
SCALAR_FUNCS = ('math.sqrt', 'abs', 'float', 'len', 'math.pow', 'int')


class Affine:
    """Affine typing of an arithmetic expression over one coordinate axis.
    Result: ('scalar',) | ('aff', axis, coef) | ('err', reason)."""

    def __init__(self, names):
        self.names = names     # local name -> ('aff', axis, coef) | ('scalar',)

    def ty(self, node):
        if isinstance(node, ast.Constant) and isinstance(node.value, (int, float)):
            return ('const', float(node.value))
        if isinstance(node, ast.Attribute) and node.attr in AXES:
            return ('aff', node.attr, 1.0)
        if isinstance(node, ast.Subscript) and isinstance(node.slice, ast.Constant) \
                and node.slice.value in (0, 1, 2) and isinstance(node.value, ast.Name) \
                and self.names.get(node.value.id) == ('triple',):
            return ('aff', AXES[node.slice.value], 1.0)
        if isinstance(node, ast.Name):
            return self.names.get(node.id, ('scalar',))
        if isinstance(node, ast.UnaryOp) and isinstance(node.op, (ast.USub, ast.UAdd)):
            t = self.ty(node.operand)
            if t[0] == 'aff':
                return ('aff', t[1], -t[2] if isinstance(node.op, ast.USub) else t[2])
            if t[0] == 'const':
                return ('const', -t[1] if isinstance(node.op, ast.USub) else t[1])
            return t
        if isinstance(node, ast.BinOp):
            a, b = self.ty(node.left), self.ty(node.right)
            if a[0] == 'err':
                return a
            if b[0] == 'err':
                return b
            if isinstance(node.op, (ast.Add, ast.Sub)):
                sgn = 1.0 if isinstance(node.op, ast.Add) else -1.0
                if a[0] == 'aff' and b[0] == 'aff':
                    if a[1] != b[1]:
                        return ('err', 'mixes the %s and %s axes in a sum' % (a[1], b[1]))
                    return ('aff', a[1], a[2] + sgn * b[2])
                if a[0] == 'aff' or b[0] == 'aff':
                    other = b if a[0] == 'aff' else a
                    me = a if a[0] == 'aff' else b
                    if other[0] == 'const' and other[1] == 0:
                        return me
                    if abs(me[2]) > 1e-12 or other[0] == 'const':
                        return ('err', 'adds a frame-fixed offset to a coordinate')
                    return ('scalar',)
                if a[0] == 'const' and b[0] == 'const':
                    return ('const', a[1] + sgn * b[1])
                return ('scalar',)
            if isinstance(node.op, (ast.Mult, ast.Div)):
                if a[0] == 'aff' and b[0] == 'aff':
                    if abs(a[2]) < 1e-12 and abs(b[2]) < 1e-12:
                        return ('scalar',)     # product of displacement components
                    return ('err', 'multiplies raw coordinates')
                if a[0] == 'aff' or b[0] == 'aff':
                    me, other = (a, b) if a[0] == 'aff' else (b, a)
                    if isinstance(node.op, ast.Div) and me is b:
                        return ('err', 'divides by a coordinate')
                    if other[0] == 'const':
                        c = other[1]
                        return ('aff', me[1], me[2] * c if isinstance(node.op, ast.Mult)
                                else (me[2] / c if c else 0.0))
                    if abs(me[2]) < 1e-12:
                        return ('aff', me[1], 0.0)
                    return ('err', 'scales a raw coordinate by a variable')
                if a[0] == 'const' and b[0] == 'const' and (isinstance(node.op, ast.Mult) or b[1]):
                    return ('const', a[1] * b[1] if isinstance(node.op, ast.Mult) else a[1] / b[1])
                return ('scalar',)
            if isinstance(node.op, ast.Pow):
                if a[0] == 'aff' and abs(a[2]) < 1e-12:
                    return ('scalar',)
                if a[0] == 'aff':
                    return ('err', 'power of a raw coordinate')
                return ('scalar',)
            return ('scalar',)
        if isinstance(node, ast.Call):
            name = call_name(node) or ''
            if name == 'round' and node.args:
                return self.ty(node.args[0])
            if name in SCALAR_FUNCS:
                for a in node.args:
                    t = self.ty(a)
                    if t[0] == 'err':
                        return t
                    if t[0] == 'aff' and abs(t[2]) > 1e-12 and name != 'float':
                        return ('err', '%s() of a raw coordinate' % name)
                    if t[0] == 'aff' and name == 'float':
                        return t
                return ('scalar',)
            return ('scalar',)
        return ('scalar',)


def coordinate_reads(fn):
    return [n for n in walk_with_lambdas(fn) if isinstance(n, ast.Attribute)
            and n.attr in AXES and isinstance(n.ctx, ast.Load)]


def maximal_expr(node):
    """Largest arithmetic expression around a coordinate read."""
    cur = node
    while True:
        par = cur._parent
        if isinstance(par, (ast.BinOp, ast.UnaryOp)):
            cur = par
        elif isinstance(par, ast.Call) and (call_name(par) in SCALAR_FUNCS + ('round',)):
            cur = par
        else:
            return cur


def centroid_accumulators(fn):
    """Locals that add up one coordinate of every element of a list and are
    used only divided by the length of that list, the quotient standing where
    that coordinate belongs: {name: (axis, statements that feed it)}.

        h, *r = S            |   s = 0
        s = h.x              |   for o in S: s += o.x
        for o in r: s += o.x |
        ... s / len(S) ...

    The weight of s is 1 + len(r) = len(S) (resp. len(S)) coordinates, so the
    quotient is a position: the mean.  Both spellings of the accumulation
    (`s += e`, `s = s + e`) count."""
    from sa.canon import canon as fcanon
    can = fcanon(fn)
    res = {}
    stores = {}
    for st, tgt in stores_in(fn):
        if isinstance(tgt, ast.Name):
            stores.setdefault(tgt.id, []).append(st)
    unpacks = [st for st in walk_no_nested(fn) if isinstance(st, ast.Assign)
               and isinstance(st.targets[0], (ast.Tuple, ast.List)) and len(st.targets[0].elts) == 2
               and isinstance(st.targets[0].elts[0], ast.Name)
               and isinstance(st.targets[0].elts[1], ast.Starred)
               and isinstance(st.targets[0].elts[1].value, ast.Name)]
    for name, sts in stores.items():
        if len(sts) != 2:
            continue
        init = [st for st in sts if isinstance(st, ast.Assign)
                and not any(isinstance(n, ast.Name) and n.id == name for n in ast.walk(st.value))]
        accs = [st for st in sts if st not in init]
        if len(init) != 1 or len(accs) != 1:
            continue
        init, acc = init[0], accs[0]
        # the added term
        if isinstance(acc, ast.AugAssign) and isinstance(acc.op, ast.Add):
            term = acc.value
        elif isinstance(acc, ast.Assign) and isinstance(acc.value, ast.BinOp) and isinstance(acc.value.op, ast.Add) \
                and any(isinstance(x, ast.Name) and x.id == name for x in (acc.value.left, acc.value.right)):
            term = acc.value.right if isinstance(acc.value.left, ast.Name) and acc.value.left.id == name \
                else acc.value.left
        else:
            continue
        loop = acc._parent
        if not (isinstance(loop, ast.For) and isinstance(loop.target, ast.Name) and isinstance(loop.iter, ast.Name)
                and isinstance(term, ast.Attribute) and term.attr in AXES
                and isinstance(term.value, ast.Name) and term.value.id == loop.target.id
                and not loop.orelse):
            continue
        axis = term.attr
        blk = getattr(loop._parent, 'body', None)
        if not isinstance(blk, list) or loop not in blk or init not in blk or blk.index(init) > blk.index(loop):
            continue
        whole = None
        if try_fold(init.value) == 0:
            whole = loop.iter                      # from nothing, over the whole list
        elif isinstance(init.value, ast.Attribute) and init.value.attr == axis \
                and isinstance(init.value.value, ast.Name):
            for u in unpacks:
                if u in blk and blk.index(u) < blk.index(init) \
                        and u.targets[0].elts[0].id == init.value.value.id \
                        and u.targets[0].elts[1].value.id == loop.iter.id:
                    whole = u.value                # the first element, then the rest
        if whole is None:
            continue
        # no jump out of the loop, nothing else stores the list or the parts
        if any(isinstance(n, (ast.Break, ast.Continue, ast.Return)) for n in ast.walk(loop)):
            continue
        want = 'len(%s)' % can.text(whole).replace(' ', '')
        uses = [n for n in walk_no_nested(fn) if isinstance(n, ast.Name) and n.id == name
                and isinstance(n.ctx, ast.Load) and not any(n is x for x in ast.walk(acc))]
        ok = bool(uses)
        for u in uses:
            q = u._parent
            if not (isinstance(q, ast.BinOp) and isinstance(q.op, ast.Div) and q.left is u
                    and can.text(q.right).replace(' ', '') == want):
                ok = False
                break
            qp = q._parent
            st = enclosing_stmt(q)
            in_triple = isinstance(qp, (ast.Tuple, ast.List)) and len(qp.elts) == 3 \
                and qp.elts.index(q) == AXES.index(axis)
            to_attr = isinstance(st, ast.Assign) and st.value is q and \
                isinstance(st.targets[0], ast.Attribute) and st.targets[0].attr == axis
            if not (in_triple or to_attr):
                ok = False
                break
        if ok:
            res[name] = (axis, {id(init), id(acc)})
    return res


def check_function_affine(ctx, mod, qual, fn):
    """R1 for one function outside vector_algebra."""
    names = {}
    accumulators = centroid_accumulators(fn)
    feeding = {sid: (nm, ax) for nm, (ax, ids) in accumulators.items() for sid in ids}
    # pre-pass: triples and displacement/point locals (two rounds for chains)
    for _ in range(3):
        aff = Affine(names)
        for s in walk_with_lambdas(fn):
            if isinstance(s, ast.Assign) and isinstance(s.targets[0], ast.Name):
                v = s.value
                if isinstance(v, (ast.List, ast.Tuple)) and len(v.elts) == 3 and \
                        [getattr(e, 'attr', None) for e in v.elts] == list(AXES):
                    names[s.targets[0].id] = ('triple',)
                elif any(isinstance(n, ast.Attribute) and n.attr in AXES for n in ast.walk(v)) or \
                        any(isinstance(n, ast.Name) and names.get(n.id, ('',))[0] == 'aff'
                            for n in ast.walk(v)):
                    t = aff.ty(v)
                    if t[0] == 'aff':
                        prev = names.get(s.targets[0].id)
                        names[s.targets[0].id] = t if prev is None or prev == t or prev[0] != 'aff' \
                            else ('aff', t[1], t[2] if abs(t[2] - prev[2]) < 1e-12 else float('nan'))
        for a in fn.args.args:
            if a.arg == 'center':
                names['center'] = ('triple',)
    aff = Affine(names)
    seen = set()
    results = []
    for read in coordinate_reads(fn):
        top = maximal_expr(read)
        if id(top) in seen:
            continue
        seen.add(id(top))
        if isinstance(top._parent, ast.Call) and call_name(top._parent) == 'math.floor' and \
                isinstance(top, ast.BinOp) and isinstance(top.op, ast.Div) and \
                isinstance(top.left, ast.Attribute):
            results.append((top, True, 'cell index floor(coordinate / edge) (owned by C11.R3)'))
            continue
        t = aff.ty(top)
        par = top._parent
        stmt = enclosing_stmt(top)
        ok, how = False, ''
        if id(stmt) in feeding and {n.attr for n in ast.walk(top) if isinstance(n, ast.Attribute)
                                    and n.attr in AXES} == {feeding[id(stmt)][1]}:
            results.append((top, True, 'centroid: %s adds up the %s coordinate of every element and is '
                            'used only divided by their number, as the %s coordinate'
                            % (feeding[id(stmt)][0], feeding[id(stmt)][1], feeding[id(stmt)][1])))
            continue
        if t[0] == 'err':
            ok, how = False, t[1]
        elif t[0] == 'scalar':
            ok, how = True, 'frame-independent scalar (product/length of displacements)'
        elif t[0] == 'aff':
            axis, coef = t[1], t[2]
            if abs(coef) < 1e-9:
                ok, how = True, 'difference of %s coordinates (displacement)' % axis
            elif abs(coef - 1.0) < 1e-9:
                # a position: allowed as copy / construct / accumulate / triple / cell index
                if isinstance(par, (ast.List, ast.Tuple)) and len(par.elts) == 3 and \
                        par.elts.index(top) == AXES.index(axis):
                    ok, how = True, 'element %d of a coordinate triple' % AXES.index(axis)
                elif isinstance(par, ast.keyword) and par.arg in (axis, axis + 'i'):
                    ok, how = True, 'passed as the %s coordinate of a new position' % axis
                elif isinstance(par, ast.Call) and top in par.args and len(par.args) >= 4 \
                        and par.args.index(top) == 1 + AXES.index(axis):
                    ok, how = True, 'constructed position handed on as the %s coordinate' % axis
                elif isinstance(stmt, ast.Assign) and stmt.value is top and \
                        isinstance(stmt.targets[0], ast.Attribute) and stmt.targets[0].attr == axis:
                    ok, how = True, 'copied into the %s coordinate of another object' % axis
                elif isinstance(stmt, ast.Assign) and stmt.value is top and \
                        isinstance(stmt.targets[0], ast.Name):
                    nm = stmt.targets[0].id
                    # constructed position: must be handed on as that coordinate
                    uses = [n for n in walk_with_lambdas(fn) if isinstance(n, ast.Name)
                            and n.id == nm and isinstance(n.ctx, ast.Load)]
                    good = bool(uses)
                    for u in uses:
                        up = u._parent
                        if isinstance(up, ast.Call) and u in up.args and len(up.args) >= 4 \
                                and up.args.index(u) == 1 + AXES.index(axis):
                            continue
                        if isinstance(up, ast.keyword) and up.arg == axis:
                            continue
                        good = False
                    ok, how = good, 'constructed position handed on as the %s coordinate' % axis
                elif isinstance(stmt, ast.AugAssign) and stmt.value is top and \
                        isinstance(stmt.op, ast.Add) and isinstance(stmt.target, ast.Attribute) \
                        and stmt.target.attr == axis:
                    divs = [s for s in walk_no_nested(fn) if isinstance(s, ast.AugAssign)
                            and isinstance(s.op, ast.Div) and norm(s.target) == norm(stmt.target)
                            and 'len(' in norm(s.value)]
                    zero = [s for s in walk_no_nested(fn) if isinstance(s, ast.Assign)
                            and norm(s.targets[0]) == norm(stmt.target) and try_fold(s.value) == 0]
                    ok = len(divs) == 1 and len(zero) == 1
                    how = 'centroid: accumulated from 0 over a list and divided by its length'
                elif isinstance(par, ast.Call) and call_name(par) in ('str', 'format') or \
                        (isinstance(par, ast.Call) and last_attr(par) == 'format'):
                    ok, how = True, 'text'
                else:
                    ok, how = False, 'a raw %s coordinate is used as a value here' % axis
            else:
                # cell index: floor(coord / edge)
                if isinstance(par, ast.Call) and call_name(par) == 'math.floor':
                    ok, how = True, 'cell index floor(coordinate / edge) (owned by C11)'
                elif coef != coef:
                    ok, how = False, 'one local holds different affine kinds'
                else:
                    ok, how = False, ('coordinates of weight %.3g: neither a displacement (0) nor '
                                      'a position (1)' % coef)
        # comparisons of anything affine
        for anc in ancestors(top):
            if isinstance(anc, ast.stmt):
                break
            if isinstance(anc, ast.Compare) and t[0] == 'aff':
                ok, how = False, 'a coordinate (component) decides a branch: frame dependent'
        results.append((top, ok, how))
    return results


class VecKinds:
    """Point / displacement typing of Vector-valued locals."""

    def __init__(self, fn):
        self.fn = fn
        self.kinds = {}
        self.problems = []
        for _ in range(4):
            for s in walk_no_nested(fn):
                if isinstance(s, ast.Assign) and isinstance(s.targets[0], ast.Name):
                    k = self.kind(s.value)
                    if k is not None:
                        prev = self.kinds.get(s.targets[0].id)
                        self.kinds[s.targets[0].id] = k if prev in (None, k) else 'mixed'

    def kind(self, node):
        if isinstance(node, ast.Call):
            name = call_name(node) or ''
            base = name.split('.')[-1]
            if base == 'Vector':
                kws = {k.arg for k in node.keywords}
                if 'atom2' in kws:
                    return 'disp'
                if 'atom1' in kws:
                    return 'point'
                return 'disp'
            if base in ('rescale', 'cross', 'orthogonal') and isinstance(node.func, ast.Attribute):
                return 'disp'
            if base in ('set_bond_distance', 'rotate_vector_around_an_axis'):
                return 'disp'
            return None
        if isinstance(node, ast.Name):
            return self.kinds.get(node.id)
        if isinstance(node, ast.UnaryOp) and isinstance(node.op, ast.USub):
            return self.kind(node.operand)
        if isinstance(node, ast.BinOp) and isinstance(node.op, (ast.Add, ast.Sub)):
            a, b = self.kind(node.left), self.kind(node.right)
            if a is None or b is None:
                return None
            if a == 'disp' and b == 'disp':
                return 'disp'
            if isinstance(node.op, ast.Add) and {a, b} == {'point', 'disp'}:
                return 'point'
            if isinstance(node.op, ast.Sub) and a == 'point' and b == 'disp':
                return 'point'
            if isinstance(node.op, ast.Sub) and a == 'point' and b == 'point':
                return 'disp'
            return 'bad:%s%s%s' % (a, '+' if isinstance(node.op, ast.Add) else '-', b)
        return None


def rename_axes(text_node):
    """Cyclic renaming x->y->z->x of coordinate attributes, coordinate keyword
    names and 0/1/2 subscripts on a structural copy of a node.  Locals are not
    touched: they are inlined beforehand (see inline_locals)."""
    from sa.symexpand import clone
    node = clone(text_node)
    nxt = {'x': 'y', 'y': 'z', 'z': 'x', 'xi': 'yi', 'yi': 'zi', 'zi': 'xi'}
    idx = {0: 1, 1: 2, 2: 0}
    for n in ast.walk(node):
        if isinstance(n, ast.Attribute) and n.attr in ('x', 'y', 'z'):
            n.attr = nxt[n.attr]
        elif isinstance(n, ast.keyword) and n.arg in nxt:
            n.arg = nxt[n.arg]
        elif isinstance(n, ast.Name) and n.id in nxt:
            # only parameters keep these names after inlining (API names)
            n.id = nxt[n.id]
        elif isinstance(n, ast.Subscript) and isinstance(n.slice, ast.Constant) \
                and n.slice.value in idx and isinstance(n.value, ast.Name) \
                and 'cutoff' not in n.value.id:
            n.slice = ast.Constant(idx[n.slice.value])
    return node


def inline_locals(fn):
    """Output statements of ``fn`` (returns, attribute/subscript stores,
    augmented stores, expression statements) with every local replaced by its
    latest preceding definition, in source order.  Loop targets and parameters
    stay symbolic.  This makes the axis-uniformity comparison independent of
    how locals are named."""
    from sa.symexpand import substitute, clone
    env = {}
    outs = []
    params = set(func_params(fn))

    def visit(stmts):
        for s in stmts:
            if isinstance(s, ast.Assign) and len(s.targets) == 1:
                val = substitute(s.value, env)
                tgt = s.targets[0]
                if isinstance(tgt, ast.Name) and tgt.id not in params:
                    env[tgt.id] = val
                elif isinstance(tgt, (ast.Tuple, ast.List)) and all(isinstance(e, ast.Name) for e in tgt.elts):
                    for i, e in enumerate(tgt.elts):
                        if isinstance(val, (ast.Tuple, ast.List)) and len(val.elts) == len(tgt.elts):
                            env[e.id] = val.elts[i]
                        else:
                            env[e.id] = ast.Subscript(value=clone(val), slice=ast.Constant(i), ctx=ast.Load())
                else:
                    outs.append(ast.Assign(targets=[substitute(tgt, env)], value=val))
            elif isinstance(s, ast.AugAssign):
                val = substitute(s.value, env)
                if isinstance(s.target, ast.Name) and s.target.id not in params:
                    cur = env.get(s.target.id, ast.Name(id=s.target.id, ctx=ast.Load()))
                    env[s.target.id] = ast.BinOp(left=clone(cur), op=s.op, right=val)
                else:
                    outs.append(ast.AugAssign(target=substitute(s.target, env), op=s.op, value=val))
            elif isinstance(s, ast.Return) and s.value is not None:
                outs.append(ast.Return(value=substitute(s.value, env)))
            elif isinstance(s, ast.Expr) and not isinstance(s.value, ast.Constant):
                outs.append(ast.Expr(value=substitute(s.value, env)))
            elif isinstance(s, (ast.For, ast.While)):
                if isinstance(s, ast.For):
                    for n in ast.walk(s.target):
                        if isinstance(n, ast.Name):
                            env.pop(n.id, None)
                visit(s.body)
                visit(s.orelse)
            elif isinstance(s, ast.If):
                visit(s.body)
                visit(s.orelse)
            elif isinstance(s, ast.With):
                visit(s.body)
            elif isinstance(s, ast.Try):
                visit(s.body)
                for h in s.handlers:
                    visit(h.body)
                visit(s.orelse)
                visit(s.finalbody)
    visit(fn.body)
    return outs


def canon(node):
    """Text of a statement with commutative structure normalised: +/* operand
    chains sorted, and every window of three consecutive positional arguments
    / list elements that the cyclic renaming maps onto itself (a0->a1->a2->a0)
    sorted (position = axis)."""
    def flat(n, op):
        if isinstance(n, ast.BinOp) and isinstance(n.op, op):
            return flat(n.left, op) + flat(n.right, op)
        return [n]

    def triples(items):
        texts = [tx(a) for a in items]
        i = 0
        while i + 2 < len(items) + 0 and i + 2 <= len(items) - 1:
            r = [tx(rename_axes(a)) for a in items[i:i + 3]]
            if r[0] == texts[i + 1] and r[1] == texts[i + 2] and r[2] == texts[i] \
                    and len({texts[i], texts[i + 1], texts[i + 2]}) == 3:
                texts[i:i + 3] = sorted(texts[i:i + 3])
                i += 3
            else:
                i += 1
        return texts

    def tx(n):
        if isinstance(n, ast.BinOp) and isinstance(n.op, (ast.Add, ast.Mult)):
            parts = sorted(tx(p) for p in flat(n, type(n.op)))
            return '(' + (' + ' if isinstance(n.op, ast.Add) else ' * ').join(parts) + ')'
        if isinstance(n, ast.BinOp):
            return '(%s %s %s)' % (tx(n.left), type(n.op).__name__, tx(n.right))
        if isinstance(n, ast.Lambda):
            return 'lambda: ' + tx(n.body)
        if isinstance(n, ast.Subscript) and isinstance(n.slice, ast.Tuple):
            return '%s[%s]' % (tx(n.value), ', '.join(triples(list(n.slice.elts))))
        if isinstance(n, ast.Subscript):
            return '%s[%s]' % (tx(n.value), tx(n.slice))
        if isinstance(n, ast.Attribute):
            return '%s.%s' % (tx(n.value), n.attr)
        if isinstance(n, ast.Compare):
            return '(%s %s)' % (tx(n.left), ' '.join(
                '%s %s' % (type(o).__name__, tx(c)) for o, c in zip(n.ops, n.comparators)))
        if isinstance(n, ast.BoolOp):
            return '(%s)' % (' %s ' % type(n.op).__name__).join(tx(v) for v in n.values)
        if isinstance(n, ast.IfExp):
            return '(%s if %s else %s)' % (tx(n.body), tx(n.test), tx(n.orelse))
        if isinstance(n, ast.Call):
            args = triples(list(n.args))
            kws = sorted('%s=%s' % (k.arg, tx(k.value)) for k in n.keywords)
            return '%s(%s)' % (tx(n.func), ', '.join(args + kws))
        if isinstance(n, (ast.List, ast.Tuple)):
            return '[' + ', '.join(triples(list(n.elts))) + ']'
        if isinstance(n, ast.UnaryOp):
            return '(%s%s)' % (type(n.op).__name__, tx(n.operand))
        if isinstance(n, (ast.ListComp, ast.GeneratorExp, ast.SetComp)):
            return '<%s %s>' % (tx(n.elt), ' '.join(
                'for %s in %s%s' % (tx(g.target), tx(g.iter), ''.join(' if ' + tx(c) for c in g.ifs))
                for g in n.generators))
        if isinstance(n, ast.Return):
            return 'return ' + (tx(n.value) if n.value is not None else '')
        if isinstance(n, ast.Assign):
            return '%s = %s' % (', '.join(tx(t) for t in n.targets), tx(n.value))
        if isinstance(n, ast.AugAssign):
            return '%s %s= %s' % (tx(n.target), type(n.op).__name__, tx(n.value))
        if isinstance(n, ast.Expr):
            return tx(n.value)
        return norm(n)
    return tx(node)


def axis_uniform(fn):
    """Is the multiset of (inlined) output statements invariant under the
    cyclic renaming x->y->z->x?"""
    def has_axis(s):
        return any((isinstance(n, ast.Attribute) and n.attr in AXES) or
                   (isinstance(n, ast.keyword) and n.arg in ('x', 'y', 'z', 'xi', 'yi', 'zi'))
                   for n in ast.walk(s))
    stmts = [s for s in inline_locals(fn) if has_axis(s)]
    orig = sorted(canon(s) for s in stmts)
    ren = sorted(canon(rename_axes(s)) for s in stmts)
    return orig == ren, len(stmts), [a[:150] for a in orig if a not in ren][:3]


class _CentreSet(Analysis):
    """must-analysis: has ``self.set_center(...)`` been called on every path?"""
    def initial(self):
        return False

    def join(self, a, b):
        return a and b

    def transfer(self, stmt, state):
        return state or any(last_attr(c) == 'set_center' and norm(c.func.value) == 'self'
                            for c in calls_in(stmt))

    def eval_test(self, expr, state):
        return self.transfer(expr, state)


def check_group_centres(ctx, rule, prog):
    """The group centre starts at the coordinate origin (Group.__init__) - a
    position that does not move with the structure.  Every set-up routine must
    therefore replace it, on every path, by a mean of atom positions."""
    gmod = prog.mod('group')
    init = gmod.func('Group.__init__')
    origin = [n for n in walk_no_nested(init) if isinstance(n, ast.Assign)
              and norm(n.targets[0]) in ('self.x', 'self.y', 'self.z') and try_fold(n.value) is not None]
    n = 0
    for qual, fn in sorted(gmod.funcs.items()):
        if not qual.endswith('.setup_atoms'):
            continue
        n += 1
        exits = _CentreSet().exit_states(fn)
        bad = [st for st, state in exits if not state]
        ctx.ob(rule, 'centre:set-on-every-path:' + qual, not bad,
               '%s replaces the origin default of the group centre by self.set_center(...) on every '
               'path to a normal exit (%d exits, %d without): a centre left at (0, 0, 0) makes the '
               'buried count, desolvation and Coulomb partners depend on where the structure sits'
               % (qual, len(exits), len(bad)), gmod, bad[0] if bad and bad[0] is not None else fn)
    ctx.note('group_centre_origin_defaults', len(origin))
    setup = gmod.func('Group.setup')
    calls = [c for c in calls_in(setup, nested=False) if last_attr(c) == 'setup_atoms'
             and norm(c.func.value) == 'self']
    ctx.ob(rule, 'centre:setup-calls-setup_atoms',
           len(calls) == 1 and enclosing_stmt(calls[0]) in setup.body,
           'Group.setup calls self.setup_atoms() unconditionally', gmod, calls[0] if calls else setup)
    sc = gmod.func('Group.set_center')
    # the centre is the mean: sum of atom coordinates divided by their number
    lst = [a.arg for a in sc.args.args if a.arg != 'self'][0]
    loops = [n for n in walk_no_nested(sc) if isinstance(n, ast.For) and norm(n.iter) == lst
             and isinstance(n.target, ast.Name)]
    per_axis = False
    if len(loops) == 1:
        var = loops[0].target.id
        txt = [norm(x).replace(' ', '') for x in walk_no_nested(sc) if isinstance(x, (ast.Assign, ast.AugAssign))]
        summed = [norm(x).replace(' ', '') for x in walk_no_nested(loops[0]) if isinstance(x, ast.AugAssign)]
        per_axis = all(('self.%s+=%s.%s' % (a, var, a)) in summed and
                       any(t.startswith('self.%s/=' % a) and 'len(%s)' % lst in t for t in txt)
                       and any(t.startswith('self.%s=0' % a) for t in txt) for a in 'xyz')
    ctx.ob(rule, 'centre:mean-of-atom-positions', per_axis,
           'Group.set_center sets each axis to the sum of the atoms\' coordinate divided by '
           'len(atoms)', gmod, sc)
    if n < 20:
        raise AnalysisError('only %d setup_atoms routines found in group.py' % n)


def run(ctx):
    prog = ctx.prog
    cg = callgraph.build(prog)
    reach = cg.reachable(callgraph.ENTRY_POINTS, callgraph.versionA_exclude)

    # ------------------------------------------------------------------ R4
    # every translate of a structure inside the PDB coordinate range must parse:
    # coordinates are fixed-width fields that may touch each other
    common.check_fixed_columns(ctx, 'C04.R4', prog, ['x', 'y', 'z'])

    # ------------------------------------------------------------------ R5
    # the spatial hashing of the bond search: a pair within bonding distance is
    # examined wherever the cell boundaries fall (same rules as C11.R1-R3)
    from checks import c11
    shared11 = c11.cell_list(ctx, lambda name: 'C04.R5')
    # ... and is judged by a criterion that does not depend on which of the two
    # atoms the search happens to hand over first (that order follows the cells)
    c11.criterion_rules(ctx, 'C04.R5', shared11)

    # ------------------------------------------------------------------ R1
    n_reads = 0
    n_funcs = 0
    for mod in prog.modules.values():
        if mod.name == 'vector_algebra':
            continue
        for qual, fn in sorted(mod.funcs.items()):
            reads = coordinate_reads(fn)
            if not reads:
                continue
            n_funcs += 1
            n_reads += len(reads)
            for top, ok, how in check_function_affine(ctx, mod, qual, fn):
                key = 'coordinate-use:%s.%s:%s' % (mod.name, qual, anorm(top, fn)[:60])
                dup = sum(1 for o in ctx.obligations if o['key'].split('#')[0] == key)
                if dup:
                    key += '#%d' % (dup + 1)
                ctx.ob('C04.R1', key, ok,
                       'coordinates in %s.%s: %s' % (mod.name, qual, how), mod, top)
    ctx.note('coordinate_reads_outside_vector_algebra', {'functions': n_funcs, 'reads': n_reads})
    ctx.need('C04.R1', 30)
    check_group_centres(ctx, 'C04.R1', prog)
    # Vector kinds in the hydrogen builder and the planarity test
    for mname, quals in (('protonate', ('Protonate.trigonal', 'Protonate.tetrahedral')),
                         ('ligand', ('are_atoms_planar',))):
        mod = prog.mod(mname)
        for qual in quals:
            fn = mod.func(qual)
            vk = VecKinds(fn)
            bad = {k: v for k, v in vk.kinds.items() if v.startswith('bad') or v == 'mixed'}
            ctx.ob('C04.R1', 'vector-kinds:%s.%s' % (mname, qual), not bad,
                   'Vector locals are consistently positions or displacements and are combined '
                   'affinely (%s)' % (bad or sorted(vk.kinds.items())), mod, fn)
            for c in calls_in(fn, nested=False):
                base = (call_name(c) or '').split('.')[-1]
                if base == 'add_proton' and len(c.args) == 2:
                    k = vk.kind(c.args[1])
                    ctx.ob('C04.R1', 'proton-position:%s.%s:%s' % (mname, qual, anorm(c.args[1], fn)),
                           k == 'point',
                           'a proton is placed at position + displacement (kind %s)' % k, mod, c)
                if base in ('rescale', 'cross', 'dot', 'orthogonal') and isinstance(c.func, ast.Attribute):
                    k = vk.kind(c.func.value)
                    ka = [vk.kind(a) for a in c.args] if base in ('cross', 'dot') else []
                    ok = k in ('disp', None) and all(x in ('disp', None) for x in ka)
                    if not ok:
                        ctx.ob('C04.R1', 'vector-op:%s.%s:%s' % (mname, qual, anorm(c, fn)[:50]), False,
                               '%s applied to a position vector (kinds %s %s)' % (base, k, ka), mod, c)
                if base == 'rotate_vector_around_an_axis' and len(c.args) == 3:
                    ks = [vk.kind(c.args[1]), vk.kind(c.args[2])]
                    ctx.ob('C04.R1', 'rotation-args:%s.%s:%s' % (mname, qual, anorm(c, fn)[:50]),
                           all(k == 'disp' for k in ks),
                           'axis and vector of a rotation are displacements (%s)' % ks, mod, c)

    # ------------------------------------------------------------------ R2
    exempt = ctx.triage_table('c04_axis_exempt')
    n_uni = 0
    for mod in prog.modules.values():
        for qual, fn in sorted(mod.funcs.items()):
            axes_used = {n.attr for n in walk_with_lambdas(fn) if isinstance(n, ast.Attribute)
                         and n.attr in AXES}
            if len(axes_used) < 2:
                continue
            key = '%s.%s' % (mod.name, qual)
            if qual.split('.')[-1] in ('__str__', '__repr__'):
                continue        # text rendering of a vector: order of the axes is the point
            if key in exempt:
                ctx.triage('c04_axis_exempt', key)
                ctx.assume('C04.R2 exempt %s: %s' % (key, exempt[key]))
                continue
            ok, n, diff = axis_uniform(fn)
            n_uni += 1
            ctx.ob('C04.R2', 'axis-uniform:' + key, ok and n >= 1,
                   '%s treats the three axes alike: its %d coordinate statements are invariant '
                   'under the cyclic renaming x->y->z->x%s' % (
                       key, n, '' if ok else ' - not matched: %s' % diff), mod, fn)
    ctx.need('C04.R2', 12)

    # ------------------------------------------------------------------ R3
    va = prog.mod('vector_algebra')
    orth = va.func('Vector.orthogonal')
    ok_u, _n, _d = axis_uniform(orth)
    tests = [n for n in walk_no_nested(orth) if isinstance(n, ast.Compare)]
    ctx.ob('C04.R3', 'primitive:orthogonal-is-frame-dependent', (not ok_u) and bool(tests),
           'control instance: Vector.orthogonal is recognised as frame dependent (it is not axis '
           'uniform and compares components)', va, orth)
    pmod = prog.mod('protonate')
    n_sites = 0
    for m2, q2, f2 in prog.all_funcs():
        for c in calls_in(f2, nested=False):
            if last_attr(c) != 'orthogonal' or m2.name == 'vector_algebra':
                continue
            n_sites += 1
            facts = fact_texts(c, f2)
            fenced = any(p and ("type == 'hetatm'" in t) for t, p in facts) or \
                any((not p) and ("type == 'atom'" in t) for t, p in facts)
            reachable_for_protein = (m2.name, q2) in reach
            key = 'frame-dependent-site:%s.%s:%s' % (m2.name, q2, canon_of(f2).key(c))
            ctx.ob('C04.R3', key, fenced or not reachable_for_protein,
                   '%s.%s picks an arbitrary perpendicular with Vector.orthogonal(), whose result '
                   'depends on the orientation of the frame; the property allows that for hetero '
                   'groups only, but the call is not under a test on atom.type: a protein atom '
                   'with a single bonded neighbour (e.g. a backbone N after a chain gap) gets a '
                   'frame-dependent hydrogen' % (m2.name, q2), m2, c)
    ctx.ob('C04.R3', 'frame-dependent-sites:count', n_sites >= 1,
           '%d call sites of Vector.orthogonal() examined' % n_sites, pmod, pmod.tree)
    # the order of every atom's bond list: the cell sweep appends bonds in the
    # order the cells are visited, which depends on where the structure sits.
    # Single entries of bond lists are used all over the package
    # (the_carbons[0], bonded_atoms[0], get_bonded_elements(..)[0]), so the
    # lists must be brought into a frame-independent order after the sweep.
    box_fn = shared11['fn']
    sorts = [c for c in calls_in(box_fn, nested=False) if last_attr(c) == 'sort'
             and norm(c.func.value).endswith('.bonded_atoms')]
    coord_free = all(not any(isinstance(x, ast.Attribute) and x.attr in ('x', 'y', 'z')
                             for k in c.keywords for x in ast.walk(k.value)) for c in sorts)
    ctx.ob('C04.R3', 'bond-lists:frame-independent-order', bool(sorts) and coord_free,
           'after the cell sweep every bond list is sorted by a key that does not involve '
           'coordinates (e.g. the position of the atom in the input); found %s'
           % [norm(c)[:70] for c in sorts], shared11['mod'], sorts[0] if sorts else box_fn)
    # order-sensitive use of single bond-list entries
    tri = ctx.triage_table('c04_bond_order')
    for qual in ('Protonate.trigonal', 'Protonate.tetrahedral'):
        fn = pmod.func(qual)
        for node in walk_no_nested(fn):
            if isinstance(node, ast.If) and 'len(atom.bonded_atoms) ==' in norm(node.test):
                n_b = try_fold(node.test.values[0].comparators[0]) if isinstance(node.test, ast.BoolOp) \
                    else try_fold(node.test.comparators[0])
                if not n_b or n_b < 2:
                    continue
                # the new direction must be symmetric in avec1..avecN
                news = [s for s in node.body if isinstance(s, ast.Assign)
                        and norm(s.targets[0]) in ('new_a', 'axis')]
                for s in news:
                    t = norm(s.value)
                    if t.startswith('self.set_bond_distance('):
                        continue
                    vars_ = ['avec%d' % (i + 1) for i in range(int(n_b))]

                    def lin(e):
                        """coefficients of the avec variables in a linear form, or None"""
                        if isinstance(e, ast.Name):
                            return {e.id: 1.0} if e.id in vars_ else None
                        if isinstance(e, ast.UnaryOp) and isinstance(e.op, ast.USub):
                            r = lin(e.operand)
                            return None if r is None else {k: -v for k, v in r.items()}
                        if isinstance(e, ast.BinOp) and isinstance(e.op, (ast.Add, ast.Sub)):
                            a, b = lin(e.left), lin(e.right)
                            if a is None or b is None:
                                return None
                            sg = 1.0 if isinstance(e.op, ast.Add) else -1.0
                            out = dict(a)
                            for k, v in b.items():
                                out[k] = out.get(k, 0.0) + sg * v
                            return out
                        if isinstance(e, ast.BinOp) and isinstance(e.op, ast.Mult):
                            c = try_fold(e.left)
                            other = e.right
                            if c is None:
                                c, other = try_fold(e.right), e.left
                            r = lin(other)
                            return None if c is None or r is None else {k: v * c for k, v in r.items()}
                        return None
                    coefs = lin(s.value)
                    sym = coefs is not None and sorted(coefs) == vars_ and \
                        len({round(v, 12) for v in coefs.values()}) == 1 and \
                        abs(next(iter(coefs.values()))) > 0
                    if 'rotate_vector_around_an_axis' in t:
                        sym = False
                    key = 'bond-order:%s:%d-bonds:%s' % (qual, n_b, t[:60])
                    reason = tri.get(key)
                    if reason:
                        ctx.triage('c04_bond_order', key)
                    ctx.ob('C04.R3', key, sym or reason is not None,
                           'with %d neighbours the new direction is %s' % (
                               n_b, 'a symmetric function of all bond vectors' if sym else
                               ('order dependent, reviewed: ' + reason if reason else
                                'NOT symmetric in the bond vectors: it depends on the order of '
                                'the bond list, which is frame dependent')), pmod, s)
    # the rotation helper's callers (bounds the impact of C20)
    ctx.assume('invariance of the cell list (C11) and of the rotation helper (C20) are decided '
               'there and imported as premises')
    ctx.assume('the numeric bound "no more than coordinate rounding" is not decided')
