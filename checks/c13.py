"""C13 - selecting chains equals deleting the other chains from the file.

R1 chain filter precedes every write to loop-carried parser state,
R2 the filter is a pure function of the chain column and the option,
R3 option plumbing (-c append -> options.chains -> chains=).
"""
import ast

from sa.astutil import norm, walk_no_nested, names_in, call_name, calls_in, dotted, call_arg
from sa.loader import AnalysisError
from checks import common
from checks.recordloop import RecordLoop


def chain_filter(rl):
    """(index, stmt) of the top-level filter whose test reads ``chains``."""
    hits = [(i, s) for i, s in rl.filters() if 'chains' in names_in(s.test)]
    return hits


def filter_rules(ctx, rule, rule_raw, rl, flt):
    """The chain selection compares the raw chain column of the record with the
    raw strings of the option (shared with C06: renaming a chain together with
    the option that names it selects the same atoms - also to and from the blank
    identifier, which only the raw column represents as it is given)."""
    mod = rl.mod
    # R2: purity of the filter test
    names = names_in(flt.test)
    cols = rl.columns_in(flt.test)
    allowed_names = {'chains', rl.line} | {n for n in names if n in rl.aliases}
    ctx.ob(rule, 'filter:reads-only-option-and-chain-column',
           names <= allowed_names and cols == ['chain'],
           'the filter test reads only `chains` and the chain column of the record '
           '(names %s, columns %s)' % (sorted(names), cols), mod, flt)
    # shape: skip iff chains given and column not in chains
    txt = norm(flt.test)
    col_expr = None
    for node in ast.walk(flt.test):
        if isinstance(node, ast.Compare) and isinstance(node.ops[0], ast.NotIn) \
                and norm(node.comparators[0]) == 'chains':
            col_expr = node.left
    shape_ok = isinstance(flt.test, ast.BoolOp) and isinstance(flt.test.op, ast.And) \
        and norm(flt.test.values[0]) in ('chains', 'chains is not None') \
        and col_expr is not None and rl.slice_of(col_expr) == (21, 22)
    ctx.ob(rule, 'filter:shape', shape_ok,
           'a record is skipped exactly when a selection is given and its raw chain '
           'character (column 22) is not in it: ' + txt, mod, flt)
    # the chain test uses the raw column (a blank id is selectable with " "),
    # not the "_"-normalised Atom.chain_id
    ctx.ob(rule_raw, 'filter:raw-column', 'chain_id' not in txt,
           'the comparison is on the raw column character, not on Atom.chain_id', mod, flt)



def run(ctx):
    prog = ctx.prog
    rl = RecordLoop(prog)
    from checks.recordloop import check_raw_record_fields
    check_raw_record_fields(ctx, 'C13.R1', rl)
    from checks.recordloop import check_membership_params_materialised
    check_membership_params_materialised(ctx, 'C13.R2', rl)
    mod, fn = rl.mod, rl.fn
    if 'chains' not in rl.params:
        raise AnalysisError('C13: record generator has no `chains` parameter')
    ctx.note('state_vars', rl.state_vars)
    hits = chain_filter(rl)
    # any test reading `chains` that is not a top-level filter of the atom block
    other = []
    for node in walk_no_nested(rl.loop):
        if isinstance(node, (ast.If, ast.IfExp, ast.While)) and 'chains' in names_in(node.test) \
                and not any(node is s for _i, s in hits):
            other.append(node)
    ctx.ob('C13.R1', 'filter:single-top-level', len(hits) == 1 and not other,
           'the chain selection is one top-level `if ...: continue` of the atom-record block '
           '(found %d, plus %d other tests on the option)' % (len(hits), len(other)),
           mod, hits[0][1] if hits else (other[0] if other else rl.atom_block))
    if len(hits) != 1:
        ctx.need('C13.R1', 1)
        return
    idx, flt = hits[0]
    # R1: nothing before the filter writes loop-carried state or yields
    before = rl.atom_block.body[:idx]
    early = []
    for stmt in before:
        early.extend(rl.state_writes(stmt))
        for node in walk_no_nested(stmt):
            if isinstance(node, (ast.Yield, ast.YieldFrom)):
                early.append((node, '<yield>'))
            if isinstance(node, ast.Call) and call_name(node) not in (
                    None, 'int', 'float', 'str', 'len', 'ord', 'chr') \
                    and not (isinstance(node.func, ast.Attribute)
                             and node.func.attr in ('strip', 'format', 'lower', 'upper')):
                early.append((node, '<call %s>' % call_name(node)))
    ctx.ob('C13.R1', 'filter:before-state-writes', not early,
           'no statement of the atom block before the chain filter writes loop-carried '
           'state %s, yields or calls out (offending: %s)' % (
               rl.state_vars, [w for _n, w in early]), mod, early[0][0] if early else flt)
    after = []
    for stmt in rl.atom_block.body[idx + 1:]:
        after.extend(rl.state_writes(stmt))
    ctx.ob('C13.R1', 'state-writes-after-filter:count', len(after) >= 1,
           '%d writes to loop-carried state follow the filter in the atom block' % len(after),
           mod, flt)
    # temporaries assigned before the filter are assigned unconditionally
    # in every iteration before use (defined at the top level of the block)
    temps_ok = all(isinstance(s, (ast.Assign, ast.If, ast.Expr)) for s in before)
    ctx.ob('C13.R1', 'pre-filter:only-temporaries', temps_ok,
           'statements before the filter only define per-record temporaries or filter',
           mod, before[0] if before else flt)
    # state writes outside the atom block (MODEL/TER handling) must not depend
    # on the option or on the chain column
    outside = [(n, v) for n, v in rl.state_writes(rl.loop)
               if not any(n is x for x in ast.walk(rl.atom_block))]
    for node, var in outside:
        from sa.astutil import guards_of
        gs = guards_of(node, rl.loop)
        bad = [g for g in gs if 'chains' in names_in(g[0]) or 'chain' in rl.columns_in(g[0])]
        ctx.ob('C13.R2', 'non-atom-state-write:%s:%s' % (var, norm(node)), not bad,
               'MODEL/TER bookkeeping (%s) does not depend on the chain option or column'
               % norm(node), mod, node)

    common.check_options_readonly(ctx, 'C13.R2', prog)

    filter_rules(ctx, 'C13.R2', 'C13.R3', rl, flt)

    # R3: wiring
    opts = common.parser_options(prog)
    copt = [o for o in opts if '-c' in o['flags'] or '--chain' in o['flags']]
    ok = len(copt) == 1 and copt[0].get('dest') == 'chains' and copt[0].get('action') == 'append' \
        and 'type' not in copt[0]
    ctx.ob('C13.R3', 'option:-c-append-chains', ok,
           '-c/--chain appends raw strings to options.chains (found %s)' % [
               {k: v for k, v in o.items() if k != 'node'} for o in copt],
           prog.mod('lib'), copt[0]['node'] if copt else prog.mod('lib').func('build_parser'))
    # caller passes options.chains as chains=
    callers = []
    for m2, q2, f2 in prog.all_funcs():
        for c in calls_in(f2, nested=False):
            if (call_name(c) or '').split('.')[-1] == fn.name:
                callers.append((m2, q2, c))
    for m2, q2, c in callers:
        arg = call_arg(c, fn, 'chains')
        ok = arg is not None and norm(arg).endswith('options.chains')
        ctx.ob('C13.R3', 'caller-passes-chains:%s.%s' % (m2.name, q2), ok,
               'the record generator is called with chains=<options>.chains (got %s)'
               % (norm(arg) if arg is not None else None), m2, c)
    ctx.need('C13.R3', 3)
    # nobody rewrites options.chains
    wr = []
    for m2, q2, f2 in prog.all_funcs():
        for node in walk_no_nested(f2):
            if isinstance(node, (ast.Assign, ast.AugAssign)):
                tgts = node.targets if isinstance(node, ast.Assign) else [node.target]
                for t in tgts:
                    if isinstance(t, ast.Attribute) and t.attr == 'chains' \
                            and 'options' in norm(t.value):
                        wr.append((m2, q2, node))
    ctx.ob('C13.R3', 'option:chains-not-rewritten', not wr,
           'options.chains is not modified after parsing', wr[0][0] if wr else mod,
           wr[0][2] if wr else fn)
    # downstream code never looks at the selection again
    later = [(m, q, n) for m, q, n in common.option_reads(prog).get('chains', [])
             if not (m.name == 'input' and q == 'read_pdb')]
    ctx.ob('C13.R3', 'option:single-reader', not later,
           'the selection is consumed only by the PDB reader (other readers: %s)'
           % [m.name + '.' + q for m, q, _ in later], later[0][0] if later else mod,
           later[0][2] if later else fn)
