"""C16 - every contribution has the physically required sign and stays in bounds.

Interval abstract interpretation of the numeric kernels with call summaries
and facts from the shipped propka.cfg.
"""
import ast

from sa import callgraph, absflow
from sa.absflow import AbsInterp, TupleV, TableV, NONE, hull, run_function
from sa.absint import AV, TOP, INF, const
from sa.astutil import (facts_at, effective, call_name, calls_in, dotted, norm, walk_no_nested, last_attr,
                        func_params, fact_texts, names_in, try_fold)
from sa.loader import AnalysisError
from sa.canon import canon
from sa.tables import Cfg, module_constants
from sa import typestate

EPS = 1e-9

# Parameters whose shipped value makes a clamp in the code a no-op: they are
# taken as *any* admissible value, so that the sign rules also cover parameter
# files that switch the mechanism on (the admissible range is itself an
# obligation: cfg:allowance-nonnegative).
ABSTRACTED_PARAMETERS = {'desolvationAllowance': AV(0, INF)}


class Kernel:
    """Function summaries by abstract interpretation, resolved by callee name."""

    def __init__(self, prog, cfg, cg):
        self.prog, self.cfg, self.cg = prog, cfg, cg
        self.memo = {}
        self.active = set()
        self.by_name = {}
        for fid, fn in cg.funcs.items():
            if callgraph.versionA_exclude(fid):
                continue
            self.by_name.setdefault(fn.name, []).append(fid)
        self.field_targets = {}
        for key, tbl in cg.field_funcs.items():
            if key[1] in callgraph.DEAD_VERSION_CLASSES:
                continue
            for fld, tg in tbl.items():
                self.field_targets.setdefault(fld, set()).update(
                    t for t in tg if not callgraph.versionA_exclude(t))
        self.consts = {}
        for mod in prog.modules.values():
            for k, v in module_constants(mod, True).items():
                self.consts.setdefault(k, v)
        self.overrides = {}     # fid -> value (recognised idioms)
        self.unknown_calls = set()

    # parameters.<field> from the shipped file
    def attr_hook(self, name, node):
        parts = name.split('.')
        if 'parameters' in parts:
            tail = name.split('parameters.', 1)[1] if 'parameters.' in name else ''
            fld = tail.split('[')[0].split('.')[0]
            if fld.endswith('_squared') and fld[:-8] in self.cfg.values:
                v = self.cfg.values[fld[:-8]]
                if isinstance(v, (int, float)):
                    return const(float(v) ** 2)
            if fld in self.cfg.values:
                v = self.cfg.values[fld]
                if fld in ABSTRACTED_PARAMETERS and tail == fld:
                    return ABSTRACTED_PARAMETERS[fld]
                if isinstance(v, (int, float)) and tail == fld:
                    return const(float(v))
                kind = self.cfg.fields[fld][0]
                row = None
                if kind == 'numdict' and v:
                    row = AV(min(v.values()), max(v.values()))
                if kind == 'listdict' and v:
                    rows = list(v.values())
                    n = len(rows[0])
                    if all(len(r) == n for r in rows):
                        row = TupleV([AV(min(r[i] for r in rows), max(r[i] for r in rows))
                                      for i in range(n)])
                if row is not None and '[' in tail:
                    return row
                if row is not None and tail == fld:
                    return TableV(row)      # the table itself, bound to a local and subscripted later
        return None

    def value(self, fid, args, kwargs=None):
        kwargs = kwargs or {}
        if fid in self.overrides:
            return self.overrides[fid]
        key = (fid, repr(args), repr(sorted(kwargs.items())))
        if key in self.memo:
            return self.memo[key]
        if fid in self.active:
            return TOP
        self.active.add(fid)
        try:
            fn = self.cg.funcs[fid]
            params = func_params(fn)
            is_static = any(dotted(d) == 'staticmethod' for d in fn.decorator_list)
            if params[:1] == ['self'] and not is_static:
                params = params[1:]
            env = {}
            for p, a in zip(params, args):
                env[p] = a
            for k, v in kwargs.items():
                if k in params:
                    env[k] = v
            for p in params:
                if p not in env:
                    from sa.astutil import param_default
                    d = param_default(fn, p)
                    if d is not None:
                        c = try_fold(d, self.consts)
                        if c is not None:
                            env[p] = const(c)
            interp = AbsInterp(env, self.consts, self.call_hook, self.attr_hook)
            interp.fid = fid
            res = run_function(fn, interp)
        finally:
            self.active.discard(fid)
        self.memo[key] = res
        return res

    def call_hook(self, name, node, args, kwargs, interp):
        base = name.split('.')[-1]
        cands = list(self.by_name.get(base, []))
        if not cands and base in self.field_targets:
            cands = sorted(self.field_targets[base])
        # prefer module-level function when called by bare name
        if '.' not in name:
            plain = [c for c in cands if '.' not in c[1]]
            cands = plain or cands
        cands = [c for c in cands if self.cg._arity_ok(
            self.cg.funcs[c], node, bound=('.' in name and '.' in c[1]))]
        if base == 'get' and isinstance(node.func, ast.Attribute):
            tbl = self.attr_hook(norm(node.func.value) + '[k]', node)
            if isinstance(tbl, AV) and len(args) == 2 and isinstance(args[1], AV):
                return hull(tbl, args[1])
        if not cands and '.' not in name and getattr(interp, 'fid', None) is not None:
            # a function taken out of a module-level table into a local
            dyn = self.cg._dynamic_local(self.cg.mod_of[interp.fid], self.cg.funcs[interp.fid], name)
            cands = [c for c in (dyn or []) if not callgraph.versionA_exclude(c)]
        if not cands:
            self.unknown_calls.add(name)
            return None
        res = NONE
        for c in cands:
            res = hull(res, self.value(c, args, kwargs))
        return res


def _within(v, lo, hi):
    return isinstance(v, AV) and v.lo >= lo - EPS and v.hi <= hi + EPS


def unit_dot_idiom(fn):
    """angle_distance_factors: the middle return value is the dot product of
    two vectors each divided by its own Euclidean length -> [-1, 1] (Cauchy-
    Schwarz); the outer two are those lengths.  Checked on the expanded
    (canonical) return expressions, one alternative of the branch at a time,
    so it does not matter through which locals or helpers the code gets there."""
    import copy
    rets = [r for r in walk_no_nested(fn) if isinstance(r, ast.Return)]
    if len(rets) != 1 or not isinstance(rets[0].value, ast.Tuple) or len(rets[0].value.elts) != 3:
        return False
    can = canon(fn)
    exps = [can.expr(e) for e in rets[0].value.elts]
    arities = {len(n.args) for e in exps for n in ast.walk(e)
               if isinstance(n, ast.Call) and isinstance(n.func, ast.Name) and n.func.id == 'alt'}
    if len(arities) > 1:
        return False
    n_alt = arities.pop() if arities else 1

    class Pick(ast.NodeTransformer):
        def __init__(self, k):
            self.k = k

        def visit_Call(self, node):
            self.generic_visit(node)
            if isinstance(node.func, ast.Name) and node.func.id == 'alt':
                return node.args[self.k]
            return node

    def txt(e):
        return norm(e).replace(' ', '')

    def addends(e):
        if isinstance(e, ast.BinOp) and isinstance(e.op, ast.Add):
            return addends(e.left) + addends(e.right)
        return [e]

    def is_length_of(length, comps):
        if not (isinstance(length, ast.Call) and call_name(length) == 'math.sqrt' and len(length.args) == 1):
            return False
        sq = addends(length.args[0])
        if len(sq) != 3 or not all(isinstance(t, ast.BinOp) and isinstance(t.op, ast.Mult)
                                   and txt(t.left) == txt(t.right) for t in sq):
            return False
        return sorted(txt(t.left) for t in sq) == sorted(txt(c) for c in comps)
    for k in range(n_alt):
        d1, f, d2 = [Pick(k).visit(copy.deepcopy(e)) for e in exps]
        terms = addends(f)
        if len(terms) != 3:
            return False
        va, la, vb, lb = [], set(), [], set()
        for t in terms:
            if not (isinstance(t, ast.BinOp) and isinstance(t.op, ast.Mult)
                    and all(isinstance(x, ast.BinOp) and isinstance(x.op, ast.Div) for x in (t.left, t.right))):
                return False
            va.append(t.left.left)
            la.add(txt(t.left.right))
            vb.append(t.right.left)
            lb.add(txt(t.right.right))
        if len(la) != 1 or len(lb) != 1:
            return False
        la_node, lb_node = terms[0].left.right, terms[0].right.right
        if not (is_length_of(la_node, va) and is_length_of(lb_node, vb)):
            return False
        if {txt(d1), txt(d2)} != {txt(la_node), txt(lb_node)}:
            return False
    return True


def ramp_idiom(fn):
    """hydrogen_bond_energy: value = 1 below cutoffs[0], 0 above cutoffs[1],
    else 1 - (d - c0)/(c1 - c0): in [0, 1] whenever c0 < c1 (C18.R7).  Returns
    the name of the variable that holds it, or None."""
    def _ordered(test):
        """(small, large) texts of an ordering comparison; the loader has
        already turned every '>' into '<'."""
        if isinstance(test, ast.Compare) and len(test.ops) == 1 and isinstance(test.ops[0], (ast.Lt, ast.LtE)):
            return norm(test.left).replace(' ', ''), norm(test.comparators[0]).replace(' ', '')
        return None
    for node in walk_no_nested(fn):
        if isinstance(node, ast.If) and len(node.orelse) == 1 and isinstance(node.orelse[0], ast.If):
            inner = node.orelse[0]
            o1, o2 = _ordered(node.test), _ordered(inner.test)
            if o1 is None or o2 is None:
                continue
            d, c0 = o1          # d < c0
            c1, d2 = o2         # c1 < d
            if d != d2 or len(effective(node.body)) != 1 or len(effective(inner.body)) != 1 \
                    or len(effective(inner.orelse)) != 1:
                continue
            a, b, c = effective(node.body)[0], effective(inner.body)[0], effective(inner.orelse)[0]
            if not all(isinstance(x, ast.Assign) for x in (a, b, c)):
                continue
            var = norm(a.targets[0])
            if try_fold(a.value) == 1 and try_fold(b.value) == 0 and \
                    norm(c.value).replace(' ', '') == '1.0-(%s-%s)/(%s-%s)' % (d, c0, c1, c0) \
                    and norm(b.targets[0]) == var and norm(c.targets[0]) == var:
                return var, node
    return None


def run(ctx):
    prog = ctx.prog
    cfg = Cfg(prog)
    cg = callgraph.build(prog)
    reach = cg.reachable(callgraph.ENTRY_POINTS, callgraph.versionA_exclude)
    K = Kernel(prog, cfg, cg)
    emod = prog.mod('energy')
    dmod = prog.mod('determinants')
    imod = prog.mod('iterative')
    pmod = prog.mod('parameters')
    anchor = pmod.cls('Parameters')

    # ---------------------------------------------------------- cfg facts
    pre = cfg.num('desolvationPrefactor')
    ssf = cfg.num('desolvationSurfaceScalingFactor')
    ctx.ob('C16.R1', 'cfg:desolvation-prefactor-negative', pre < 0,
           'desolvationPrefactor (%g) is negative' % pre, pmod, anchor)
    ctx.ob('C16.R1', 'cfg:surface-scaling-in-[0,1]', 0 <= ssf <= 1,
           'desolvationSurfaceScalingFactor (%g) lies in [0, 1]' % ssf, pmod, anchor)
    ctx.ob('C16.R1', 'cfg:allowance-nonnegative', cfg.num('desolvationAllowance') >= 0,
           'desolvationAllowance is non-negative', pmod, anchor)
    vdw = cfg.get('VanDerWaalsVolume')
    ctx.ob('C16.R1', 'cfg:vdw-volumes-positive', bool(vdw) and min(vdw.values()) > 0 and 'C4' in vdw,
           'all relative Van der Waals volumes are positive and the C4 key exists', pmod, anchor)
    sci = cfg.num('sidechain_interaction')
    ctx.ob('C16.R4', 'cfg:sidechain-maximum-positive', sci > 0,
           'sidechain_interaction (%g) is positive' % sci, pmod, anchor)

    # ---------------------------------------------------------- idioms
    adf = emod.func('angle_distance_factors')
    ok = unit_dot_idiom(adf)
    ctx.ob('C16.R2', 'idiom:unit-vector-dot-product', ok,
           'angle_distance_factors returns (length, dot product of two vectors each divided by '
           'its own length, length): the angle factor lies in [-1, 1]', emod, adf)
    if ok:
        K.overrides[('energy', 'angle_distance_factors')] = TupleV(
            [AV(0, INF), AV(-1, 1), AV(0, INF)])
    hbe = emod.func('hydrogen_bond_energy')
    ramp = ramp_idiom(hbe)
    ctx.ob('C16.R4', 'idiom:distance-ramp', ramp is not None,
           'hydrogen_bond_energy scales by 1 inside the inner cut-off, 0 outside the outer one '
           'and the linear ramp 1 - (d - c0)/(c1 - c0) in between: a factor in [0, 1]', emod,
           ramp[1] if ramp else hbe)

    hbe_params = func_params(hbe)

    def hbe_value(args, kwargs):
        """abs(dpka_max * ramp * f_angle) with ramp in [0,1] (idiom)."""
        dp = args[1] if len(args) > 1 else kwargs.get(hbe_params[1], TOP)
        fa = args[3] if len(args) > 3 else kwargs.get(hbe_params[3], const(1.0))
        if not isinstance(dp, AV) or not isinstance(fa, AV):
            return AV(0, INF)
        m = max(abs(dp.lo), abs(dp.hi)) * max(abs(fa.lo), abs(fa.hi))
        return AV(0, m)
    # the function body must be exactly abs(dpka_max * value * f_angle)
    rets = [r for r in walk_no_nested(hbe) if isinstance(r, ast.Return)]
    body_ok = False
    if ramp and len(rets) == 1 and isinstance(rets[0].value, ast.Call) and call_name(rets[0].value) == 'abs':
        inner = norm(rets[0].value.args[0])
        defs = {norm(s.targets[0]): norm(s.value) for s in walk_no_nested(hbe)
                if isinstance(s, ast.Assign)}
        expr = defs.get(inner, inner).replace(' ', '')
        body_ok = sorted(expr.split('*')) == sorted([hbe_params[1], ramp[0], hbe_params[3]])
    ctx.ob('C16.R2', 'kernel:hydrogen_bond_energy-is-abs', body_ok,
           'hydrogen_bond_energy returns abs(dpka_max * ramp * f_angle): non-negative, the sign '
           'is applied by the caller', emod, rets[0] if rets else hbe)
    if body_ok:
        orig_value = K.value

        def value_with_hbe(fid, args, kwargs=None):
            if fid == ('energy', 'hydrogen_bond_energy'):
                return hbe_value(args, kwargs or {})
            return orig_value(fid, args, kwargs)
        K.value = value_with_hbe

    # ---------------------------------------------------------- R1 desolvation
    w = K.value(('energy', 'calculate_weight'), [TOP, TOP])
    ctx.ob('C16.R1', 'weight-clamped', _within(w, 0, 1),
           'calculate_weight returns a value in [0, 1] for any atom count (abstract value %r)' % (w,),
           emod, emod.func('calculate_weight'))
    pw = K.value(('energy', 'calculate_pair_weight'), [TOP, TOP, TOP])
    ctx.ob('C16.R1', 'pair-weight-clamped', _within(pw, 0, 1),
           'calculate_pair_weight returns a value in [0, 1] (abstract value %r)' % (pw,),
           emod, emod.func('calculate_pair_weight'))
    sf = K.value(('energy', 'calculate_scale_factor'), [TOP, AV(0, 1)])
    ctx.ob('C16.R1', 'scale-factor-range', _within(sf, min(ssf, 1.0) - EPS, 1.0),
           'calculate_scale_factor maps a weight in [0, 1] into [%g, 1] (abstract value %r)'
           % (ssf, sf), emod, emod.func('calculate_scale_factor'))
    rvd = emod.func('radial_volume_desolvation')
    gparam = func_params(rvd)[1]
    for q, want in ((-1.0, 'lo'), (1.0, 'hi')):
        interp = AbsInterp({gparam + '.charge': const(q)}, K.consts, K.call_hook, K.attr_hook)
        exits = interp.exit_states(rvd)
        ev = NONE
        bur = NONE
        for _s, st in exits:
            d = dict(st)
            ev = hull(ev, d.get(gparam + '.energy_volume', TOP))
            bur = hull(bur, d.get(gparam + '.buried', TOP))
        if q < 0:
            ok = isinstance(ev, AV) and ev.lo >= -EPS
            msg = 'for an acid (charge -1) the desolvation term is >= 0: it never lowers the pKa'
        else:
            ok = isinstance(ev, AV) and ev.hi <= EPS
            msg = 'for a base (charge +1) the desolvation term is <= 0: it never raises the pKa'
        ctx.ob('C16.R1', 'desolvation-sign:q=%+d' % q, ok, msg + ' (abstract value %r)' % (ev,),
               emod, rvd)
        if q < 0:
            ctx.ob('C16.R1', 'buried-fraction-range', _within(bur, 0, 1),
                   'the buried fraction stored on the group lies in [0, 1], i.e. 0-100 %% '
                   '(abstract value %r)' % (bur,), emod, rvd)
    # writers of .buried
    bw = set()
    for m2, q2, f2 in prog.all_funcs():
        for n in walk_no_nested(f2):
            if isinstance(n, (ast.Assign, ast.AugAssign)):
                tg = n.targets if isinstance(n, ast.Assign) else [n.target]
                if any(isinstance(t, ast.Attribute) and t.attr == 'buried' for t in tg):
                    bw.add((m2.name, q2))
    ctx.ob('C16.R1', 'buried:writers',
           bw <= {('energy', 'radial_volume_desolvation'), ('group', 'Group.__init__'),
                  ('group', 'Group.__iadd__'), ('group', 'Group.__truediv__')},
           'the buried fraction is written only by the desolvation routine (and by the '
           'averaging operators / the zero initialisation): %s' % sorted(bw), emod, rvd)
    bre = emod.func('backbone_reorganization')

    def hook_with(facts):
        def hook(name, node):
            for suffix, val in facts.items():
                if name.endswith(suffix):
                    return val
            return K.attr_hook(name, node)
        return hook
    el_stmts = [s for s in walk_no_nested(bre) if isinstance(s, ast.Assign)
                and norm(s.targets[0]).endswith('.energy_local')]
    interp = AbsInterp({}, K.consts, K.call_hook, hook_with({'.buried': AV(0, 1)}))
    for s_ in el_stmts:
        interp.watch.add(id(s_))
    interp.exit_states(bre)
    el = NONE
    for s_ in el_stmts:
        for env in interp.probes.get(id(s_), []):
            el = hull(el, interp.ev(s_.value, env))
    ctx.ob('C16.R1', 'local-desolvation-nonnegative', isinstance(el, AV) and el.lo >= -EPS,
           'the backbone reorganisation term is >= 0 (abstract value %r)' % (el,), emod, bre)
    reorg, acids = cfg.get('backbone_reorganisation_list'), cfg.get('acid_list')
    ctx.ob('C16.R1', 'local-desolvation-acids-only', set(reorg) <= set(acids),
           'the (non-negative) reorganisation term is applied to acids only: %s' % reorg, pmod, anchor)

    # ---------------------------------------------------------- R3 coulomb kernel
    c1 = cfg.num('coulomb_cutoff1')
    consts_e = module_constants(emod, True)
    cap = consts_e.get('UNK_PKA_SCALING1', 0) / (consts_e.get('UNK_DIELECTRIC2', 1) * c1)
    ce = K.value(('energy', 'coulomb_energy'), [AV(0, INF), AV(0, 1), TOP])
    ctx.ob('C16.R3', 'coulomb-energy:nonnegative-and-capped', _within(ce, 0, cap),
           'coulomb_energy lies in [0, %.4f] = [0, %g/(%g*%g)] for any distance and weight in '
           '[0, 1] (abstract value %r)' % (cap, consts_e.get('UNK_PKA_SCALING1', 0),
                                          consts_e.get('UNK_DIELECTRIC2', 0), c1, ce),
           emod, emod.func('coulomb_energy'))
    ctx.note('coulomb_cap', cap)
    ei = K.value(('energy', 'electrostatic_interaction'), [TOP, TOP, AV(0, INF), TOP])
    ctx.ob('C16.R3', 'electrostatic-interaction:range', ei is NONE or _within(ei, 0, cap),
           'electrostatic_interaction returns None or a value in [0, cap] (abstract value %r)' % (ei,),
           emod, emod.func('electrostatic_interaction'))

    # ---------------------------------------------------------- R4 side-chain
    exc = [cfg.num(k) for k in ('COO_HIS_exception', 'OCO_HIS_exception', 'CYS_HIS_exception',
                                'CYS_CYS_exception')]
    for fname, bound, what in (
            ('check_coo_coo_exception', 2 * sci, 'COO-COO: value * (1 + weight) <= 2 * maximum'),
            ('check_coo_arg_exception', 2 * sci, 'COO-ARG: sum of two hydrogen bonds <= 2 * maximum')):
        v = K.value(('energy', fname), [TOP, TOP, TOP])
        val = v.items[1] if isinstance(v, TupleV) and len(v.items) == 2 else TOP
        ctx.ob('C16.R4', 'magnitude:' + fname, _within(val, 0, bound),
               '%s (abstract value %r, bound %g)' % (what, val, bound), emod, emod.func(fname))
    for fname in ('check_coo_his_exception', 'check_oco_his_exception', 'check_cys_his_exception',
                  'check_cys_cys_exception'):
        v = K.value(('energy', fname), [TOP, TOP, TOP])
        val = v.items[1] if isinstance(v, TupleV) and len(v.items) == 2 else TOP
        ctx.ob('C16.R4', 'exception-value:' + fname,
               isinstance(val, AV) and val.lo == val.hi and val.lo in exc,
               '%s returns its configured exception value unchanged (abstract value %r)' % (fname, val),
               emod, emod.func(fname))
    hb = K.value(('energy', 'hydrogen_bond_interaction'), [TOP, TOP, TOP])
    hi_bound = max([2 * sci] + exc)
    ctx.ob('C16.R4', 'side-chain-interaction:range', hb is NONE or _within(hb, 0, hi_bound),
           'hydrogen_bond_interaction returns None or a value in [0, max(2 * %g, exception '
           'values) = %g] (abstract value %r)' % (sci, hi_bound, hb), emod,
           emod.func('hydrogen_bond_interaction'))
    reg = K.value(('version', 'Version.calculate_side_chain_energy'),
                  [AV(0, INF), const(sci), TOP, AV(0, 1), AV(-1, 1)])
    ctx.ob('C16.R4', 'regular-side-chain:<=maximum', _within(reg, 0, sci),
           'a regular side-chain hydrogen bond is bounded by sidechain_interaction = %g (abstract '
           'value %r)' % (sci, reg), prog.mod('version'),
           prog.mod('version').func('Version.calculate_side_chain_energy'))

    # ---------------------------------------------------------- R2 backbone site
    sbd = dmod.func('set_backbone_determinants')
    apps = [c for c in calls_in(sbd, nested=False) if last_attr(c) == 'append'
            and typestate._owner_of_det_list(c.func.value)]
    if len(apps) != 1:
        raise AnalysisError('C16.R2: backbone determinant site not found')
    owner = typestate._owner_of_det_list(apps[0].func.value)
    # the value expression of the determinant that is appended
    def det_value_expr(fn, call):
        """Raw (un-expanded) value expression of the determinant appended by
        ``call``: found through the definition of the appended local that
        reaches the call."""
        arg = call.args[0]
        if isinstance(arg, ast.Name):
            # nearest preceding definition in the same block, else the only one
            stmt = call._parent
            blk = stmt._parent
            found = None
            for fld in ('body', 'orelse'):
                body = getattr(blk, fld, None)
                if isinstance(body, list) and stmt in body:
                    for st in reversed(body[:body.index(stmt)]):
                        if isinstance(st, ast.Assign) and norm(st.targets[0]) == arg.id:
                            found = st
                            break
            if found is None:
                defs = [st for st in walk_no_nested(fn) if isinstance(st, ast.Assign)
                        and norm(st.targets[0]) == arg.id]
                found = defs[0] if len(defs) == 1 else None
            if found is None:
                return None
            arg = found.value
        if isinstance(arg, ast.Call) and call_name(arg) == 'Determinant' and len(arg.args) == 2:
            return arg.args[1]
        if isinstance(arg, ast.List) and len(arg.elts) == 2:
            return arg.elts[1]
        return None
    bb_vexpr = det_value_expr(sbd, apps[0])
    if bb_vexpr is None:
        raise AnalysisError('C16.R2: value expression of the backbone determinant not found')
    val_stmt = apps[0]._parent
    bb_tables = [cfg.get('backbone_NH_hydrogen_bond'), cfg.get('backbone_CO_hydrogen_bond')]
    bb_max = max(abs(r[0]) for t in bb_tables for r in t.values() if len(r) == 3)
    for q in (-1.0, 1.0):
        interp = AbsInterp({}, K.consts, K.call_hook, hook_with({owner + '.charge': const(q)}))
        interp.watch.add(id(apps[0]._parent))
        interp.exit_states(sbd)
        v = NONE
        for env in interp.probes.get(id(apps[0]._parent), []):
            v = hull(v, interp.ev(bb_vexpr, env))
        if q < 0:
            ok = isinstance(v, AV) and v.hi <= EPS and v.lo >= -bb_max - EPS
            msg = 'an acid: the backbone determinant lies in [-%g, 0] (never raises the pKa)' % bb_max
        else:
            ok = isinstance(v, AV) and v.lo >= -EPS and v.hi <= bb_max + EPS
            msg = 'a base: the backbone determinant lies in [0, %g] (never lowers the pKa)' % bb_max
        ctx.ob('C16.R2', 'backbone-determinant:q=%+d' % q, ok,
               'for %s (abstract value %r)' % (msg, v), dmod, val_stmt or apps[0])

    # ---------------------------------------------------------- R5 sign table
    sites = []
    for mod_, names in ((dmod, None), (imod, None)):
        for qual, fn in mod_.funcs.items():
            if (mod_.name, qual) not in reach:
                continue
            for c in calls_in(fn, nested=False):
                if last_attr(c) == 'append' and typestate._owner_of_det_list(c.func.value):
                    tp = norm(c.func.value.slice) if isinstance(c.func.value, ast.Subscript) else '?'
                    sites.append((mod_, qual, fn, c, typestate._owner_of_det_list(c.func.value),
                                  tp.strip("'")))
    ctx.note('determinant_creation_sites', len(sites))
    want = {
        ('add_coulomb_acid_pair', 'coulomb'): '+', ('add_coulomb_base_pair', 'coulomb'): '-',
        ('add_coulomb_ion_pair', 'coulomb'): 'q', ('set_ion_determinants', 'coulomb'): '-qion',
        ('add_iterative_acid_pair', 'coulomb'): '+', ('add_iterative_base_pair', 'coulomb'): '-',
        ('add_iterative_ion_pair', 'coulomb'): 'q',
    }

    # Sources of non-negative interaction values, in canonical form (parameters
    # and reads only): the third parameter of the non-iterative pair helpers and
    # the [h-bond, Coulomb] pair inside the `interaction` record of the
    # iterative ones.  Both are backed by obligations on their producers below.
    def nonneg_sources(fn):
        params = func_params(fn)
        if fn.name.startswith('add_coulomb_') and len(params) == 3:
            return {params[2]}
        if fn.name.startswith('add_iterative_') and len(params) >= 3:
            return {'%s[1][0]' % params[2], '%s[1][1]' % params[2]}
        return set()

    def mark_nonneg(expr, sources):
        """copy of ``expr`` with every non-negative source replaced by the name nn"""
        class Sub(ast.NodeTransformer):
            def generic_visit(self, node):
                if isinstance(node, ast.expr) and norm(node) in sources:
                    return ast.Name(id='nn', ctx=ast.Load())
                return ast.NodeTransformer.generic_visit(self, node)
        return Sub().visit(expr)

    n_checked = 0
    seen_keys = {}
    for mod_, qual, fn, call, owner, tp in sites:
        rule = want.get((qual, tp))
        if rule is None:
            continue
        n_checked += 1
        can = canon(fn)
        owner_c = can.text(call.func.value.value.value) if isinstance(call.func.value, ast.Subscript) \
            and isinstance(call.func.value.value, ast.Attribute) else owner
        vexpr = det_value_expr(fn, call)
        params = func_params(fn)
        role = 'p%d' % params.index(owner_c) if owner_c in params else 'loop'
        key = 'sign:%s:%s:%s' % (qual, role, tp)
        seen_keys[key] = seen_keys.get(key, 0) + 1
        if seen_keys[key] > 1:
            key += '#%d' % seen_keys[key]
        if vexpr is None:
            ctx.ob('C16.R5', key, False, 'cannot find the determinant value expression', mod_, call)
            continue
        cexpr = can.expr(vexpr)
        txt = norm(cexpr)
        marked = mark_nonneg(can.expr(vexpr), nonneg_sources(fn))
        if rule in ('+', '-'):
            env = {'nn': AV(0, INF)}
            v = AbsInterp(env, K.consts).ev(marked, env)
            ok = isinstance(v, AV) and ((rule == '+' and v.lo >= 0) or (rule == '-' and v.hi <= 0))
            ctx.ob('C16.R5', key, ok,
                   'the Coulomb determinant put on %s in %s is %s the (non-negative) interaction '
                   'value (expression %s, abstract value %r)' % (
                       owner_c, qual, 'plus' if rule == '+' else 'minus', txt, v), mod_, call)
        elif rule == 'q':
            ok = isinstance(marked, ast.BinOp) and isinstance(marked.op, ast.Mult) and sorted(
                [norm(marked.left), norm(marked.right)]) in (
                    sorted([owner_c + '.charge', 'nn']), sorted([owner_c + '.q', 'nn']))
            ctx.ob('C16.R5', key, ok,
                   'the Coulomb determinant put on %s is (charge of %s) x (interaction value): '
                   'lowers an acid, raises a base (expression %s)' % (owner_c, owner_c, txt), mod_, call)
        elif rule == '-qion':
            # -(ion charge) * calculate_coulomb_energy(...), the ion being the other loop object
            e = cexpr
            neg = False
            if isinstance(e, ast.UnaryOp) and isinstance(e.op, ast.USub):
                neg, e = True, e.operand
            ok = False
            if isinstance(e, ast.BinOp) and isinstance(e.op, ast.Mult):
                l, r = e.left, e.right
                if isinstance(l, ast.UnaryOp) and isinstance(l.op, ast.USub):
                    neg, l = not neg, l.operand
                if isinstance(r, ast.UnaryOp) and isinstance(r.op, ast.USub):
                    neg, r = not neg, r.operand
                sides = [l, r]
                charge = [x for x in sides if isinstance(x, ast.Attribute) and x.attr == 'charge'
                          and norm(x.value) != owner_c and '.get_ions()' in norm(x.value)]
                energy = [x for x in sides if isinstance(x, ast.Call)
                          and last_attr(x) == 'calculate_coulomb_energy']
                ok = neg and len(charge) == 1 and len(energy) == 1
            ctx.ob('C16.R5', key, ok,
                   'an ion shifts the pKa by -(ion charge) x (Coulomb energy): a negative ion '
                   'raises, a positive ion lowers it (expression %s)' % txt[:110], mod_, call)
    # producers of the non-negative sources
    acd = dmod.func('add_coulomb_determinants')
    can = canon(acd)
    feeds = [c for c in calls_in(acd, nested=False)
             if (call_name(c) or '').startswith('add_coulomb_') and len(c.args) == 3]
    ok = len(feeds) == 3 and all(
        isinstance(can.expr(c.args[2]), ast.Call) and last_attr(can.expr(c.args[2])) == 'electrostatic_interaction'
        for c in feeds)
    other_callers = [f for nm in ('add_coulomb_acid_pair', 'add_coulomb_base_pair', 'add_coulomb_ion_pair')
                     for f in cg.callers_of(('determinants', nm))
                     if f != ('determinants', 'add_coulomb_determinants') and not callgraph.versionA_exclude(f)]
    ctx.ob('C16.R5', 'source:pair-helpers-get-the-coulomb-kernel', ok and not other_callers,
           'the value handed to add_coulomb_{acid,base,ion}_pair is the result of '
           'electrostatic_interaction (range decided by C16.R3), from their only caller '
           '(other callers: %s)' % other_callers, dmod, acd)
    atl = imod.func('add_to_determinant_list')
    can = canon(atl)
    rec_ok = False
    for c in calls_in(atl, nested=False):
        if last_attr(c) == 'append' and c.args:
            rec = can.expr(c.args[0])
            if isinstance(rec, ast.List) and len(rec.elts) == 3:
                # [pair, values, annihilation]; values is built up in place
                vname = c.args[0]
                vals_defs = [st for st in walk_no_nested(atl) if isinstance(st, ast.Assign)
                             and isinstance(st.value, ast.List) and len(st.value.elts) == 2
                             and [last_attr(x) if isinstance(x, ast.Call) else None
                                  for x in can.expr(st.value).elts]
                             == ['hydrogen_bond_interaction', 'electrostatic_interaction']]
                rec_ok = len(vals_defs) == 1 and norm(rec.elts[1]) != ''
                if rec_ok:
                    # the record's second slot is that list
                    raw = c.args[0]
                    if isinstance(raw, ast.Name):
                        rdef = [st for st in walk_no_nested(atl) if isinstance(st, ast.Assign)
                                and norm(st.targets[0]) == raw.id]
                        raw = rdef[0].value if len(rdef) == 1 else raw
                    rec_ok = isinstance(raw, ast.List) and len(raw.elts) == 3 \
                        and norm(raw.elts[1]) == norm(vals_defs[0].targets[0])
    ctx.ob('C16.R5', 'source:iterative-record-holds-the-two-kernels', rec_ok,
           'the interaction record of the iterative scheme is [pair, [hydrogen_bond_interaction, '
           'electrostatic_interaction] with None replaced by 0, annihilation] (ranges decided by '
           'C16.R3/R4)', imod, atl)
    ctx.ob('C16.R5', 'sign-table:coverage', n_checked >= 11,
           '%d Coulomb determinant creation sites classified against the sign table' % n_checked,
           dmod, dmod.tree)
    # equal and opposite in the acid-base pair (same value, same block)
    for mod_, qual in ((dmod, 'add_coulomb_ion_pair'), (imod, 'add_iterative_ion_pair')):
        fn = mod_.func(qual)
        cs = [s for s in sites if s[1] == qual and s[5] == 'coulomb']
        blocks = {id(s[3]._parent._parent) for s in cs}
        # value of each of the two determinants: (charge of its owner) x V, same V
        can_ip = canon(fn)
        shared = set()
        for s_ in cs:
            vexpr = det_value_expr(fn, s_[3])
            e = can_ip.expr(vexpr) if vexpr is not None else None
            owner_t = can_ip.text(s_[3].func.value.value.value) if isinstance(s_[3].func.value, ast.Subscript) \
                and isinstance(s_[3].func.value.value, ast.Attribute) else s_[4]
            if isinstance(e, ast.BinOp) and isinstance(e.op, ast.Mult):
                sides = [e.left, e.right]
                q = [x for x in sides if isinstance(x, ast.Attribute) and x.attr in ('charge', 'q')
                     and norm(x.value) == owner_t]
                rest_ = [x for x in sides if x not in q]
                if len(q) == 1 and len(rest_) == 1:
                    shared.add(norm(rest_[0]))
                    continue
            shared.add('?%s' % (norm(e) if e is not None else 'none'))
        ctx.ob('C16.R3', 'ion-pair:equal-and-opposite:' + qual,
               len(cs) == 2 and len(blocks) == 1 and len(shared) == 1,
               'the two Coulomb determinants of an acid-base pair are created in one block from '
               'the same interaction value (%s), each times the owner\'s charge' % sorted(shared),
               mod_, fn)
    # final filter in the iterative scheme is symmetric
    iad = imod.func('add_determinants')
    flt = [n for n in walk_no_nested(iad) if isinstance(n, ast.If)
           and 'UNK_MIN_VALUE' in norm(n.test)]
    def symmetric_threshold(test):
        """name X when the test is c < |X| for a positive constant c, in either
        spelling (the loader has oriented every ordering comparison with '<' and
        replaced module constants by their values)"""
        consts16 = module_constants(imod, True)

        def pos_const(e):
            v = try_fold(e, consts16)
            return v if isinstance(v, (int, float)) and v > 0 else None
        if isinstance(test, ast.Compare) and len(test.ops) == 1 and isinstance(test.ops[0], (ast.Lt, ast.LtE)) \
                and isinstance(test.comparators[0], ast.Call) and call_name(test.comparators[0]) == 'abs' \
                and pos_const(test.left) is not None:
            return norm(test.comparators[0].args[0])
        if isinstance(test, ast.BoolOp) and isinstance(test.op, ast.Or) and len(test.values) == 2 \
                and all(isinstance(v, ast.Compare) and len(v.ops) == 1
                        and isinstance(v.ops[0], (ast.Lt, ast.LtE)) for v in test.values):
            above, below, names = None, None, set()
            for v in test.values:
                l, r = v.left, v.comparators[0]
                if pos_const(l) is not None:                 # c < X
                    above = pos_const(l)
                    names.add(norm(r).replace(' ', ''))
                else:
                    neg = try_fold(r, consts16)
                    if isinstance(neg, (int, float)) and neg < 0:   # X < -c
                        below = -neg
                        names.add(norm(l).replace(' ', ''))
            if above is not None and below is not None and abs(above - below) < 1e-15 and len(names) == 1:
                return names.pop()
        return None
    # the threshold is a condition on the way to the construction of the real
    # determinant (nested or as an early `continue`), on the value it is built from
    dets = [c for c in calls_in(iad) if call_name(c) == 'Determinant' and len(c.args) == 2]
    ok = False
    if len(dets) == 1:
        for e, pol in facts_at(dets[0], iad):
            if pol and symmetric_threshold(e) == norm(dets[0].args[1]):
                ok = True
    ctx.ob('C16.R3', 'iterative:symmetric-threshold', ok,
           'iterative determinants are kept by a threshold on |value| (both partners alike)',
           imod, flt[0] if flt else iad)
    # the averaged buried fraction (and every other averaged field) stays an average
    from checks import common
    common.check_linear_fields(ctx, 'C16.R1', prog)

    # ---------------------------------------------------------- R8 shared determinants
    # With shared_determinants the largest determinant per partner is written,
    # value and sign unchanged, into every group of a covalently coupled system.
    # The sign of a determinant was fixed by the charge of its owner, so it is
    # meaningful only among groups of one charge sign (a ligand carboxylate and
    # amidinium carbon are coupled: the base got -0.85 from a backbone bond).
    ccm8 = prog.mod('conformation_container')
    ceff = ccm8.func('ConformationContainer.coupling_effects')
    shares = [c for c in calls_in(ceff) if last_attr(c) == 'share_determinants']
    c8 = canon(ceff)
    like8 = bool(shares)
    for c in shares:
        arg = c8.expr(c.args[0]) if c.args else None
        by_sign = isinstance(arg, ast.ListComp) and any(
            isinstance(x, ast.Attribute) and x.attr == 'charge'
            for g in arg.generators for cond in g.ifs for x in ast.walk(cond))
        like8 = like8 and by_sign
    ctx.ob('C16.R8', 'shared-determinants:like-charged-groups-only', like8,
           'coupling_effects shares determinants among the groups of one charge sign only '
           '(%d sharing calls, each on a list filtered by the sign of the charge)' % len(shares),
           ccm8, shares[0] if shares else ceff)

    # ---------------------------------------------------------- R7 swapped determinants
    # The coupled-residue display mode (-d) leaves the determinants of a coupled
    # pair exchanged.  For two acids or two bases the exchanged values keep the
    # right sign; for an acid-base pair the acid ends up with +V from the base.
    # So a pair may be registered as coupled only if both charges have one sign.
    cgm = prog.mod('coupled_groups')
    ident = cgm.func('NonCovalentlyCoupledGroups.identify_non_covalently_coupled_groups')
    regs = [c for c in calls_in(ident) if last_attr(c) == 'couple_non_covalently']
    like = False
    if regs:
        for e, pol in facts_at(regs[0], ident):
            if any(isinstance(x, ast.Attribute) and x.attr == 'charge' for x in ast.walk(e)):
                like = True
    ctx.ob('C16.R7', 'coupling:like-charged-pairs-only', like,
           'a pair is registered as non-covalently coupled (and its determinants exchanged under -d) '
           'only when a condition on the two charges holds; without one an acid-base salt bridge is '
           'swapped too and both Coulomb determinants get the destabilising sign', cgm,
           regs[0] if regs else ident)

    # ---------------------------------------------------------- R6 value writers
    # The bounds above are bounds on the value expression of every
    # Determinant(<group>, <value>) construction.  They bound the stored value
    # only if nothing accumulates into a determinant afterwards.
    det_cls = prog.mod('determinant').cls('Determinant')
    acc_methods = set()
    for item in det_cls.body:
        if isinstance(item, ast.FunctionDef) and item.name != '__init__':
            for st in walk_no_nested(item):
                if isinstance(st, (ast.AugAssign, ast.Assign)):
                    tgts = [st.target] if isinstance(st, ast.AugAssign) else st.targets
                    if any(norm(t) == 'self.value' for t in tgts):
                        acc_methods.add(item.name)
    writers = {}
    acc_calls = []
    for m2, q2, f2 in prog.all_funcs():
        if m2.name == 'determinant':
            continue
        for st in walk_no_nested(f2):
            if isinstance(st, (ast.AugAssign, ast.Assign)):
                tgts = [st.target] if isinstance(st, ast.AugAssign) else st.targets
                for t in tgts:
                    if isinstance(t, ast.Attribute) and t.attr == 'value':
                        kind = 'assign' if isinstance(st, ast.Assign) else \
                            'scale' if isinstance(st.op, (ast.Div, ast.Mult)) else 'accumulate'
                        writers.setdefault('%s.%s' % (m2.name, q2), []).append((kind, st))
        sees_determinants = 'Determinant' in m2.src or '.determinants' in m2.src
        if sees_determinants:
            for c in calls_in(f2, nested=False):
                if last_attr(c) in acc_methods and len(c.args) == 1:
                    acc_calls.append((m2, q2, c))
    allowed = {'group.Group.add_determinant': {'accumulate'},     # averaging (C08)
               'group.Group.set_determinant': {'assign'},         # sharing the maximum in a coupled system
               'group.Group.__truediv__': {'scale'}}              # averaging (C08)
    bad_w = [(k, kind, st) for k, lst in writers.items() for kind, st in lst
             if kind not in allowed.get(k, set())]
    ctx.ob('C16.R6', 'determinant-value:writers', not bad_w,
           'a determinant value is written after construction only by the averaging operators and '
           'the coupled-system sharing (writers: %s)' % {k: sorted({x[0] for x in v}) for k, v in writers.items()},
           bad_w[0][2]._parent and prog.mod(bad_w[0][0].split('.')[0]) if bad_w else dmod,
           bad_w[0][2] if bad_w else dmod.tree)
    ctx.ob('C16.R6', 'determinant-value:no-accumulation-call', not acc_calls,
           'no code that handles determinants calls an accumulating method of Determinant (%s); '
           'found %s' % (sorted(acc_methods), ['%s.%s: %s' % (m.name, q, norm(c)) for m, q, c in acc_calls]),
           acc_calls[0][0] if acc_calls else dmod, acc_calls[0][2] if acc_calls else dmod.tree)
    callers_add = sorted({'%s.%s' % (m2.name, q2) for m2, q2, f2 in prog.all_funcs()
                          for c in calls_in(f2, nested=False) if last_attr(c) == 'add_determinant'})
    ctx.ob('C16.R6', 'add_determinant:only-averaging', callers_add == ['group.Group.__iadd__'],
           'Group.add_determinant (which sums values) is called only by the conformation-averaging '
           'operator (callers: %s)' % callers_add, prog.mod('group'), prog.mod('group').tree)
    ctx.note('unresolved_calls_in_kernels', sorted(K.unknown_calls)[:40])
    ctx.assume('f_angle is taken as a cosine through the unit-vector idiom (the normalisation by '
               'the vectors\' own lengths is checked structurally)')
    ctx.assume('cut-off pairs satisfy inner < outer (decided by C18.R7)')
