"""C06 - residue and chain labels identify residues but never influence the numbers.

R1 identity-key completeness, R2 label flow, R3 sort key is order-only.
"""
import ast

from sa import callgraph
from sa.astutil import (effective, anorm, call_name, calls_in, dotted, norm, walk_no_nested, last_attr,
                        names_in, format_fields, concat_str, enclosing_loops, ancestors,
                        str_consts)
from sa.loader import AnalysisError
from sa.canon import canon
from sa.tables import columns_of_slice
from checks.recordloop import RecordLoop
from checks import common

ATTR_COMP = {'res_num': 'number', 'chain_id': 'chain', 'icode': 'icode', 'res_name': 'resname',
             'name': 'atomname', 'residue_type': 'restype', 'type': 'grouptype',
             'element': 'element', 'terminal': 'terminal'}
RESIDUE_KEY = {'chain', 'number', 'icode'}


def format_components(fmt):
    comps = set()
    for field, _spec, _c in format_fields(fmt):
        last = field.split('.')[-1].split('[')[0]
        if last in ATTR_COMP:
            comps.add(ATTR_COMP[last])
        elif last in ('res_num', 'chain', 'chain_id'):
            comps.add(ATTR_COMP.get(last, 'chain'))
    return comps


class Labels:
    """Component sets of the label-typed attributes, derived from the format
    strings that build them."""

    def __init__(self, prog):
        amod, gmod = prog.mod('atom'), prog.mod('group')
        ai = amod.func('Atom.__init__')
        self.defs = {}   # attr -> [(components, node, module)]
        for node in walk_no_nested(ai):
            if isinstance(node, ast.Assign) and norm(node.targets[0]) == 'self.residue_label':
                fmt = self._fmt_of(ai, node.value)
                self.defs.setdefault('residue_label', []).append(
                    (format_components(fmt) if fmt else None, node, amod))
        for qual, fn in prog.mod('protonate').funcs.items():
            for node in walk_no_nested(fn):
                if isinstance(node, ast.Assign) and norm(node.targets[0]).endswith('.residue_label') \
                        and isinstance(node.value, ast.Call) and last_attr(node.value) == 'format':
                    args = [norm(a).split('.')[-1] for a in node.value.args]
                    comps = {ATTR_COMP[a] for a in args if a in ATTR_COMP}
                    self.defs.setdefault('residue_label', []).append(
                        (comps, node, prog.mod('protonate')))
        gi = gmod.func('Group.__init__')
        for node in walk_no_nested(gi):
            if isinstance(node, ast.Assign) and norm(node.targets[0]) == 'self.label':
                fmt = self._fmt_of(gi, node.value)
                comps = None
                if fmt:
                    comps = set()
                    kws = {k.arg: norm(k.value) for k in node.value.keywords}
                    for field, _s, _c in format_fields(fmt):
                        src = kws.get(field.split('.')[0].split('[')[0], field)
                        last = (field if '.' in field else src).split('.')[-1].split('[')[0]
                        if '.' not in field and field in kws:
                            last = kws[field].split('(')[0].split('.')[-1].split('[')[0]
                        comps.add(ATTR_COMP.get(last, last))
                # which branch: protein atoms or hetero
                from sa.astutil import fact_texts
                facts = fact_texts(node, gi)
                aparams = [a.arg for a in gi.args.args if a.arg != 'self']
                prot = {"self.atom.type == 'atom'"} | {"%s.type == 'atom'" % a for a in aparams[:1]}
                kind = 'protein' if any(p and t in prot for t, p in facts) else 'hetero'
                self.defs.setdefault('label:' + kind, []).append((comps, node, gmod))

    @staticmethod
    def _fmt_of(fn, value):
        if isinstance(value, ast.Call) and last_attr(value) == 'format':
            base = value.func.value
            text = concat_str(base)
            if text is None and isinstance(base, ast.Name):
                for s in walk_no_nested(fn):
                    if isinstance(s, ast.Assign) and norm(s.targets[0]) == base.id:
                        # nearest preceding definition
                        if s.lineno <= value.lineno:
                            text = concat_str(s.value) or text
            return text
        return None

    def comps(self, attr):
        if attr == 'residue_label':
            sets = [c for c, _n, _m in self.defs.get('residue_label', []) if c is not None]
            return set.intersection(*sets) if sets else set()
        if attr == 'label':
            sets = [c for c, _n, _m in self.defs.get('label:protein', []) if c is not None]
            return set.intersection(*sets) if sets else set()
        return set()


def components(expr, labels, fn=None, depth=0):
    """Residue-identity components an expression is built from."""
    comps = set()
    prefix_only = set()
    for node in ast.walk(expr):
        if isinstance(node, ast.Subscript) and isinstance(node.value, ast.Attribute) \
                and node.value.attr == 'label' and norm(node.slice) in ('0:3', ':3'):
            prefix_only.add(id(node.value))
            comps.add('restype')
    for node in ast.walk(expr):
        if isinstance(node, ast.Attribute):
            if id(node) in prefix_only:
                continue
            if node.attr in ('residue_label', 'label'):
                comps |= labels.comps(node.attr) | {'<label>'}
            elif node.attr in ATTR_COMP:
                comps.add(ATTR_COMP[node.attr])
        elif isinstance(node, ast.Name) and fn is not None and depth < 2:
            # one level of local aliasing (sets/dicts of labels, tuples of fields)
            for s in walk_no_nested(fn):
                if isinstance(s, ast.Assign) and any(
                        isinstance(t, ast.Name) and t.id == node.id for t in s.targets):
                    v = s.value
                    if isinstance(v, (ast.SetComp, ast.ListComp)):
                        comps |= components(v.elt, labels, None, depth + 1)
                    elif isinstance(v, ast.DictComp):
                        comps |= components(v.key, labels, None, depth + 1)
                    elif isinstance(v, (ast.Attribute, ast.Tuple)):
                        comps |= components(v, labels, None, depth + 1)
    return comps


def walk_with_lambdas(fn):
    stack = list(reversed(list(ast.iter_child_nodes(fn))))
    while stack:
        cur = stack.pop()
        yield cur
        if isinstance(cur, (ast.FunctionDef, ast.AsyncFunctionDef, ast.ClassDef)):
            continue
        stack.extend(reversed(list(ast.iter_child_nodes(cur))))


def decision_key(fn, node):
    """Canonical text of a decision, read with the positive operator: the same
    decision spelled ``a != b`` (guard style) or ``a == b`` (nested style) has
    one key."""
    pos = {ast.NotEq: ast.Eq, ast.NotIn: ast.In, ast.IsNot: ast.Is}
    swapped = []
    for sub in ast.walk(node):
        if isinstance(sub, ast.Compare) and len(sub.ops) == 1 and type(sub.ops[0]) in pos:
            swapped.append((sub, sub.ops))
            sub.ops = [pos[type(sub.ops[0])]()]
    try:
        return canon(fn).key(node)
    finally:
        for sub, ops in swapped:
            sub.ops = ops


def identity_decisions(cg, reach, labels):
    """(fid, fn, mod, node, components, via_label) for every residue-identity
    decision in reachable code: comparisons, membership tests and dictionary
    keys built from residue number / chain / insertion code / labels."""
    seen = set()
    for fid in sorted(reach):
        fn = cg.funcs[fid]
        mod = cg.mod_of[fid]
        decisions = []
        if fid[1].endswith('.__eq__'):
            continue        # covered by the equality obligations below
        for node in walk_with_lambdas(fn):
            # conjunctions of comparisons form one decision
            if isinstance(node, ast.BoolOp) and isinstance(node.op, ast.And) and \
                    all(isinstance(v, ast.Compare) for v in node.values):
                decisions.append((node, node.values))
                for v in node.values:
                    seen.add(id(v))
        for node in walk_with_lambdas(fn):
            if isinstance(node, ast.Compare) and id(node) not in seen and \
                    isinstance(node.ops[0], (ast.Eq, ast.NotEq, ast.In, ast.NotIn)):
                decisions.append((node, [node]))
            # dictionary / set keys
            if isinstance(node, ast.Call) and last_attr(node) in ('setdefault', 'get') and node.args \
                    and isinstance(node.args[0], ast.Tuple) and not any(
                        isinstance(a, ast.Compare) for a in ancestors(node)):
                decisions.append((node, [node.args[0]]))
            if isinstance(node, ast.DictComp):
                decisions.append((node, [node.key]))
            if isinstance(node, ast.Subscript) and isinstance(node.slice, ast.Tuple) \
                    and isinstance(node.ctx, ast.Store):
                decisions.append((node, [node.slice]))
        for node, parts in decisions:
            comps = set()
            for p in parts:
                exprs = [p.left] + p.comparators if isinstance(p, ast.Compare) else [p]
                # only equality-like operators contribute
                if isinstance(p, ast.Compare) and not isinstance(
                        p.ops[0], (ast.Eq, ast.NotEq, ast.In, ast.NotIn)):
                    continue
                for e in exprs:
                    comps |= components(e, labels, fn)
            via_label = '<label>' in comps
            comps.discard('<label>')
            if 'number' not in comps and not via_label:
                continue        # not a residue-identity decision
            # comparisons of an attribute with a literal are type tests, not identity
            if all(isinstance(p, ast.Compare) and any(isinstance(x, ast.Constant)
                   for x in [p.left] + p.comparators) for p in parts):
                continue
            yield fid, fn, mod, node, comps, via_label


def run(ctx):
    prog = ctx.prog
    cg = callgraph.build(prog)
    reach = cg.reachable(callgraph.ENTRY_POINTS, callgraph.versionA_exclude)
    labels = Labels(prog)
    ctx.note('label_components', {k: [sorted(c) if c else None for c, _n, _m in v]
                                  for k, v in labels.defs.items()})
    if not labels.defs.get('residue_label') or not labels.defs.get('label:protein'):
        raise AnalysisError('C06: label format definitions not found')

    # ------------------------------------------------------------------ R1
    n_dec = 0
    for fid, fn, mod, node, comps, via_label in identity_decisions(cg, reach, labels):
            n_dec += 1
            missing = RESIDUE_KEY - comps
            key = 'decision:%s.%s:%s' % (fid[0], fid[1], decision_key(fn, node)[:140])
            if missing:
                key += ':missing=' + '+'.join(sorted(missing))
            ctx.ob('C06.R1', key, not missing,
                   'residue identity decision in %s.%s is built from %s%s; residues that differ '
                   'only in %s are treated as one residue' % (
                       fid[0], fid[1], sorted(comps), ' (through a label)' if via_label else '',
                       sorted(missing)) if missing else
                   'residue identity decision in %s.%s uses chain, number and insertion code (%s)'
                   % (fid[0], fid[1], sorted(comps)), mod, node)
    ctx.note('identity_decisions', n_dec)
    ctx.need('C06.R1', 6)
    # equality of groups / iteratives is defined through labels
    for mname, qual in (('group', 'Group.__eq__'), ('iterative', 'Iterative.__eq__')):
        fn = prog.mod(mname).func(qual)
        rets = [r for r in walk_no_nested(fn) if isinstance(r, ast.Return) and r.value is not None]
        if not rets:
            raise AnalysisError('C06: %s has no return' % qual)
        for i, r in enumerate(rets, 1):
            comps = set()
            for node in ast.walk(r.value):
                if isinstance(node, ast.Compare):
                    for e in [node.left] + node.comparators:
                        comps |= components(e, labels, fn)
            from sa.astutil import fact_texts
            hetero = not any(p and t == "self.atom.type == 'atom'" for t, p in fact_texts(r, fn))
            if '<label>' in comps and hetero:
                # the hetero label format carries residue name, atom name and chain
                het = [c for c, _n, _m in labels.defs.get('label:hetero', []) if c]
                comps = (comps - labels.comps('label')) | (set.intersection(*het) if het else set())
                comps |= {c for node in ast.walk(r.value) if isinstance(node, ast.Attribute)
                          and node.attr in ATTR_COMP for c in [ATTR_COMP[node.attr]]}
            comps.discard('<label>')
            missing = RESIDUE_KEY - comps
            key = 'equality:%s.%s:%s' % (mname, qual, 'hetero' if hetero else 'protein')
            if missing:
                key += ':missing=' + '+'.join(sorted(missing))
            ctx.ob('C06.R1', key, not missing,
                   '%s (%s atoms) decides equality from %s; two residues that differ only in %s '
                   'compare equal, and every `==`, `in`, `break at the first equal group` on '
                   'groups inherits this' % (qual, 'hetero' if hetero else 'protein',
                                             sorted(comps), sorted(missing)) if missing else
                   '%s decides equality from a complete residue key' % qual, prog.mod(mname), r)
    # the label formats themselves
    for kind, items in sorted(labels.defs.items()):
        for comps, node, mod in items:
            if comps is None:
                raise AnalysisError('C06: cannot read the format of ' + kind)
            fn_name = node._parent
            if kind == 'label:hetero':
                continue   # hetero labels carry residue name + atom name; number is added in __eq__
            missing = RESIDUE_KEY - comps
            from sa.astutil import enclosing_function
            ef = enclosing_function(node)
            key = 'label-format:%s:%s.%s' % (kind, mod.name, ef._qualname if ef else '?')
            if missing:
                key += ':missing=' + '+'.join(sorted(missing))
            dup = sum(1 for o in ctx.obligations if o['key'].split('#')[0] == key)
            if dup:
                key += '#%d' % (dup + 1)
            ctx.ob('C06.R1', key, not missing,
                   'the %s format carries %s; it lacks %s although it is used to identify '
                   'residues (see the decision sites)' % (kind, sorted(comps), sorted(missing))
                   if missing else 'the %s format carries a complete residue key' % kind, mod, node)

    # ------------------------------------------------------------------ R2
    accepted_funcs_fmt = ('format', 'info', 'warning', 'debug', 'error', 'replace', 'join')
    pkg_funcs = {fn.name for fn in cg.funcs.values()}
    n_uses = 0
    for fid in sorted(reach):
        fn = cg.funcs[fid]
        mod = cg.mod_of[fid]
        for node in walk_no_nested(fn):
            if not (isinstance(node, ast.Attribute) and node.attr in ('label', 'residue_label')
                    and isinstance(node.ctx, ast.Load)):
                continue
            n_uses += 1
            par = node._parent
            ok, how = False, ''
            cur = node
            while par is not None and not isinstance(par, ast.stmt):
                if isinstance(par, ast.Compare):
                    ok, how = True, 'identity decision (R1)'
                    break
                if isinstance(par, ast.Call) and (last_attr(par) in accepted_funcs_fmt
                                                  or call_name(par) in ('str', 'len', 'print')):
                    ok, how = True, 'text'
                    break
                if isinstance(par, (ast.JoinedStr, ast.FormattedValue)):
                    ok, how = True, 'text'
                    break
                if isinstance(par, ast.Call) and cur in par.args + [k.value for k in par.keywords]:
                    cname = (call_name(par) or '').split('.')[-1]
                    in_pkg = cname in pkg_funcs or cname in ('append', 'add', 'setdefault', 'get',
                                                             'extend', 'index', 'count')
                    ok, how = in_pkg, ('argument (label-typed parameter)' if in_pkg else
                                       'argument of %s(): a label is turned into a number' % cname)
                    break
                if isinstance(par, (ast.SetComp, ast.ListComp, ast.DictComp, ast.GeneratorExp,
                                    ast.Tuple, ast.List, ast.Dict, ast.Set)):
                    ok, how = True, 'collected for membership tests (R1)'
                    break
                if isinstance(par, ast.Subscript) and cur is par.value:
                    sl = norm(par.slice)
                    ok, how = sl in ('0:3', ':3'), 'residue-type prefix of the label (triaged: no relabelling changes it)'
                    if not ok:
                        how = 'slice [%s] of a label (its numbering part)' % sl
                        break
                    cur, par = par, par._parent
                    if isinstance(par, ast.Compare):
                        break
                    continue
                if isinstance(par, (ast.BinOp, ast.UnaryOp)) and not isinstance(
                        getattr(par, 'op', None), (ast.Add, ast.Mod)):
                    ok, how = False, 'arithmetic'
                    break
                cur, par = par, par._parent
            if par is not None and isinstance(par, ast.stmt) and not ok:
                if isinstance(par, (ast.Assign, ast.AugAssign, ast.Return, ast.Expr)):
                    tg = norm(par.targets[0]) if isinstance(par, ast.Assign) else ''
                    ok = isinstance(par, (ast.Return, ast.AugAssign)) or tg.endswith(('label', 'str_')) \
                        or 'label' in tg
                    how = 'copied / concatenated into text'
            key = 'label-use:%s.%s:%s' % (fid[0], fid[1], anorm(node._parent, fn)[:60])
            ctx.ob('C06.R2', key, ok,
                   'label value used as %s' % (how or 'something other than text or an identity key'),
                   mod, node)
    ctx.note('label_uses', n_uses)
    ctx.need('C06.R2', 20)

    # ------------------------------------------------------------------ R3
    cc = prog.mod('conformation_container')
    uses = []
    for m2, q2, f2 in prog.all_funcs():
        for node in walk_no_nested(f2):
            if isinstance(node, ast.Attribute) and node.attr == 'sort_atoms_key':
                uses.append((m2, q2, node))
    ok = len(uses) == 1 and isinstance(uses[0][2]._parent, ast.keyword) and \
        uses[0][2]._parent.arg == 'key' and last_attr(uses[0][2]._parent._parent) == 'sort'
    ctx.ob('C06.R3', 'sort-key:only-for-sorting', ok,
           'sort_atoms_key is used only as the key of list.sort (uses: %s)'
           % [m.name + '.' + q for m, q, _n in uses], cc, uses[0][2] if uses else cc.tree)
    arith = []
    for fid in sorted(reach):
        fn = cg.funcs[fid]
        for node in walk_no_nested(fn):
            if isinstance(node, ast.BinOp) and not isinstance(node.op, ast.Mod) and any(
                    isinstance(x, ast.Attribute) and x.attr in ('res_num',) for x in ast.walk(node)) \
                    and not isinstance(node.op, ast.Add) or (
                    isinstance(node, ast.BinOp) and isinstance(node.op, (ast.Mult, ast.Sub, ast.Div))
                    and any(isinstance(x, ast.Attribute) and x.attr == 'res_num' for x in ast.walk(node))):
                arith.append(fid)
            if isinstance(node, ast.Call) and call_name(node) == 'ord' and \
                    'chain_id' in norm(node) and isinstance(node._parent, (ast.BinOp, ast.AugAssign)):
                arith.append(fid)
    ctx.ob('C06.R3', 'numbering:arithmetic-only-in-sort-key', not arith,
           'residue numbers and chain codes never enter arithmetic - not even in the atom sort key: '
           'a key that folds chain and residue number into one number (ord(chain)*1e7 + number*1000) '
           'lets large or negative numbers reach into the neighbouring chain, and the atom order '
           'feeds the order of floating-point sums (%s)' % sorted(set(arith)), cc,
           cc.func('ConformationContainer.sort_atoms_key'))
    sk = cc.func('ConformationContainer.sort_atoms_key')
    sk_rets = [r for r in walk_no_nested(sk) if isinstance(r, ast.Return) and r.value is not None]
    sk_ok = bool(sk_rets) and all(isinstance(r.value, ast.Tuple) for r in sk_rets)
    ctx.ob('C06.R3', 'sort-key:lexicographic-tuple', sk_ok,
           'the atom sort key is a tuple compared component by component', cc,
           sk_rets[0] if sk_rets else sk)
    ordered = []
    for fid in sorted(reach):
        fn = cg.funcs[fid]
        for node in walk_with_lambdas(fn):
            if isinstance(node, ast.Compare) and any(
                    isinstance(op, (ast.Lt, ast.LtE, ast.Gt, ast.GtE)) for op in node.ops) and any(
                    isinstance(x, ast.Attribute) and x.attr in ('res_num', 'chain_id', 'icode', 'numb',
                                                                 'label', 'residue_label')
                    for x in ast.walk(node)):
                ordered.append((fid, node))
    ctx.ob('C06.R3', 'numbering:never-ordered-outside-sort-key',
           {f for f, _n in ordered} <= {('conformation_container', 'ConformationContainer.sort_atoms_key')},
           'residue numbers, chain codes and labels are never compared with < or > in the '
           'calculation (such a comparison makes the order of a pair, and with it an '
           'order-sensitive interaction, depend on the numbering): %s'
           % sorted({'%s.%s' % f for f, _n in ordered}), cg.mod_of[ordered[0][0]] if ordered else cc,
           ordered[0][1] if ordered else cc.tree)
    sa = cc.func('ConformationContainer.sort_atoms')
    renum = [n for n in walk_no_nested(sa) if isinstance(n, ast.Assign)
             and isinstance(n.targets[0], ast.Attribute) and n.targets[0].attr == 'numb']
    ctx.ob('C06.R3', 'sorted-order:renumbering-only',
           'self.atoms.sort(key=self.sort_atoms_key)' in norm(sa) and len(renum) == 1
           and len(effective(sa.body)) == 2,
           'the sorted order is only used to renumber atoms (serials are inert: C07.R2)', cc, sa)
    # ------------------------------------------------------------------ R4
    # identifiers given on the command line (-i) are compared with the raw
    # record columns: the parser must not normalise them (chain ids are case
    # sensitive, "a" and "A" are different chains)
    common.check_res_string_parse(ctx, 'C06.R4', prog)
    # ... and --chain names a chain by the character the file has in its chain
    # column: renamed chains are selected by their new names, the blank one by " "
    from checks import c13
    rl13 = RecordLoop(prog)
    hits = c13.chain_filter(rl13)
    ctx.ob('C06.R4', 'chain-selection:one-filter', len(hits) == 1,
           'the record reader has one chain-selection filter (found %d)' % len(hits),
           rl13.mod, hits[0][1] if hits else rl13.fn)
    if len(hits) == 1:
        c13.filter_rules(ctx, 'C06.R4', 'C06.R4', rl13, hits[0][1])
    # ... and the terminus bookkeeping of the reader identifies a residue by chain,
    # number and insertion code (rule shared with C01/C05/C07): with the chain
    # left out, a chain that starts with the number the previous chain ended on
    # is taken for a continuation of that residue - until it is renumbered
    from checks.recordloop import check_terminus_latch
    check_terminus_latch(ctx, 'C06.R4', rl13)
    ctx.assume('that relabelling leaves every float bit-identical is not decided (atom order '
               'inside a list can change summation order)')
