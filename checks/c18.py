"""C18 - parameter tables are symmetric, complete and self-consistent."""
import ast

from sa.astutil import (call_name, calls_in, dotted, norm, walk_no_nested, last_attr,
                        str_consts, facts_at)
from sa.loader import AnalysisError
from sa.canon import canon
from sa.tables import Cfg
from checks import groups as G


def _subscript_store_chain(tgt):
    """For ``a.b[x][y] = v`` return ('a.b', ['x', 'y'])."""
    idx = []
    node = tgt
    while isinstance(node, ast.Subscript):
        idx.append(norm(node.slice))
        node = node.value
    name = dotted(node)
    return name, list(reversed(idx))


def run(ctx):
    prog = ctx.prog
    mod = prog.mod('parameters')
    cfg = Cfg(prog)

    # ------------------------------------------------------------------ R1
    add = mod.func('InteractionMatrix.add')
    stores = []
    # a row taken into a local first: `row = d.setdefault(k, {})` / `row = d[k]`
    row_alias = {}
    for node in walk_no_nested(add):
        if isinstance(node, ast.Assign) and len(node.targets) == 1 and isinstance(node.targets[0], ast.Name):
            v = node.value
            if isinstance(v, ast.Call) and last_attr(v) == 'setdefault' and len(v.args) == 2 \
                    and isinstance(v.args[1], ast.Dict) and not v.args[1].keys:
                row_alias[node.targets[0].id] = (dotted(v.func.value), norm(v.args[0]))
            elif isinstance(v, ast.Subscript) and dotted(v.value):
                row_alias[node.targets[0].id] = (dotted(v.value), norm(v.slice))
    for node in walk_no_nested(add):
        if isinstance(node, ast.Assign) and isinstance(node.targets[0], ast.Subscript):
            name, idx = _subscript_store_chain(node.targets[0])
            if name in row_alias and sum(1 for s_ in walk_no_nested(add) if isinstance(s_, ast.Assign)
                                         and any(isinstance(t_, ast.Name) and t_.id == name
                                                 for t_ in s_.targets)) == 1:
                name, idx = row_alias[name][0], [row_alias[name][1]] + idx
            if name == 'self.dictionary' and len(idx) == 2:
                stores.append((node, idx, norm(node.value)))
    mirrored = False
    if len(stores) == 2:
        (n1, i1, v1), (n2, i2, v2) = stores
        mirrored = i1 == list(reversed(i2)) and v1 == v2 and n1._parent is n2._parent \
            and i1[0] != i1[1]
    ctx.ob('C18.R1', 'interaction-matrix:mirrored-store', mirrored,
           'InteractionMatrix.add stores the same value at [a][b] and [b][a] in one block '
           '(found %s)' % [(i, v) for _n, i, v in stores], mod, stores[0][0] if stores else add)
    # the value stored comes from the row position of the *other* key
    padd = mod.func('PairwiseMatrix.add')
    ins = [c for c in calls_in(padd, nested=False) if last_attr(c) == 'insert'
           and dotted(c.func.value) == 'self']
    ok = False
    if len(ins) == 2 and all(len(c.args) == 3 for c in ins):
        a1 = [norm(a) for a in ins[0].args]
        a2 = [norm(a) for a in ins[1].args]
        ok = a1[0] == a2[1] and a1[1] == a2[0] and a1[2] == a2[2] and a1[0] != a1[1] \
            and ins[0]._parent._parent is ins[1]._parent._parent
    ctx.ob('C18.R1', 'pairwise-matrix:both-directions', ok,
           'PairwiseMatrix.add inserts (g1, g2, v) and (g2, g1, v) with the same v',
           mod, ins[0] if ins else padd)
    pins = mod.func('PairwiseMatrix.insert')
    pst = []
    for node in walk_no_nested(pins):
        if isinstance(node, ast.Assign) and isinstance(node.targets[0], ast.Subscript):
            name, idx = _subscript_store_chain(node.targets[0])
            if name == 'self.dictionary' and len(idx) == 2:
                pst.append((node, idx, norm(node.value)))
    params = [a.arg for a in pins.args.args if a.arg != 'self']
    ok = len(pst) == 1 and len(params) == 3 and pst[0][1] == params[:2] and pst[0][2] == params[2]
    if ok:
        # unconditional: the store must not sit under a test that can skip it
        from sa.astutil import guards_of
        ok = not [g for g in guards_of(pst[0][0], pins) if g[2] == 'if']
    ctx.ob('C18.R1', 'pairwise-matrix:insert-stores', ok,
           'PairwiseMatrix.insert stores value at [key1][key2] unconditionally', mod,
           pst[0][0] if pst else pins)
    # who may write the dictionaries
    allowed = {('parameters', 'InteractionMatrix.__init__'), ('parameters', 'InteractionMatrix.add'),
               ('parameters', 'PairwiseMatrix.__init__'), ('parameters', 'PairwiseMatrix.insert')}
    writers = set()
    for m2, q2, f2 in prog.all_funcs():
        for node in walk_no_nested(f2):
            tgts = []
            if isinstance(node, ast.Assign):
                tgts = node.targets
            elif isinstance(node, (ast.AugAssign, ast.AnnAssign)):
                tgts = [node.target]
            elif isinstance(node, ast.Delete):
                tgts = node.targets
            for t in tgts:
                base = t
                while isinstance(base, ast.Subscript):
                    base = base.value
                if isinstance(base, ast.Attribute) and base.attr == 'dictionary':
                    writers.add((m2.name, q2))
            if isinstance(node, ast.Call) and last_attr(node) in (
                    'update', 'pop', 'clear', 'setdefault', 'popitem') and \
                    'dictionary' in norm(node.func.value):
                writers.add((m2.name, q2))
    ctx.ob('C18.R1', 'matrix:who-may-write', writers <= allowed,
           'only the matrix constructors and add/insert write a matrix dictionary '
           '(writers: %s)' % sorted(writers - allowed), mod, add)

    # ------------------------------------------------------------------ R2
    for cls, want in (('InteractionMatrix', 'None'), ('PairwiseMatrix', 'self.default')):
        gv = mod.func(cls + '.get_value')
        gparams = [a.arg for a in gv.args.args if a.arg != 'self']
        tries = [n for n in walk_no_nested(gv) if isinstance(n, ast.Try)]
        ok = False
        if len(tries) == 1 and len(gparams) == 2:
            tr = tries[0]
            rets = [s for s in tr.body if isinstance(s, ast.Return)]
            look_ok = len(rets) == 1 and norm(rets[0].value) == \
                'self.dictionary[%s][%s]' % (gparams[0], gparams[1])
            h_ok = len(tr.handlers) == 1 and norm(tr.handlers[0].type) == 'KeyError' and \
                len(tr.handlers[0].body) == 1 and isinstance(tr.handlers[0].body[0], ast.Return) \
                and norm(tr.handlers[0].body[0].value) == want
            ok = look_ok and h_ok
        ctx.ob('C18.R2', 'lookup:' + cls, ok,
               '%s.get_value returns dictionary[item1][item2] and falls back to %s on '
               'KeyError only' % (cls, want), mod, gv)
    # default is stored only by PairwiseMatrix.__init__/add
    dwr = set()
    for m2, q2, f2 in prog.all_funcs():
        for node in walk_no_nested(f2):
            if isinstance(node, ast.Assign):
                for t in node.targets:
                    if isinstance(t, ast.Attribute) and t.attr == 'default' and \
                            m2.name == 'parameters':
                        dwr.add(q2)
    ctx.ob('C18.R2', 'default:writers', dwr <= {'PairwiseMatrix.__init__', 'PairwiseMatrix.add'},
           'the pairwise default is set only by the constructor and the "default" row '
           '(writers %s)' % sorted(dwr), mod, padd)
    # the "default" row is recognised by its first word
    dflt_ok = any(isinstance(n, ast.If) and "== 'default'" in norm(n.test)
                  and any(isinstance(s, ast.Return) for s in n.body) for n in walk_no_nested(padd))
    ctx.ob('C18.R2', 'default:row-recognised', dflt_ok,
           'a "default a b" row sets the default pair and returns', mod, padd)

    # ------------------------------------------------------------------ R3
    sq = mod.cls('squared_property')
    getf = mod.func('squared_property.__get__')
    if not mod.has_func('squared_property.__set__'):
        # without __set__ the descriptor is a non-data descriptor: an assignment to
        # the squared name lands in the instance __dict__ and shadows the product
        ctx.ob('C18.R3', 'squared:setter-present', False,
               'squared_property defines __set__ (a data descriptor): assigning to <name>_squared '
               'updates the plain value instead of shadowing the computed square', mod,
               mod.cls('squared_property'))
        setf = None
    else:
        setf = mod.func('squared_property.__set__')
    namef = mod.func('squared_property.__set_name__')
    rets = [r for r in walk_no_nested(getf) if isinstance(r, ast.Return) and r.value is not None]
    gcan = canon(getf)
    inst_p = getf.args.args[1].arg
    get_forms = []
    product_returns, other_returns = 0, 0
    for r in rets:
        e = gcan.expr(r.value)
        get_forms.append(norm(e))
        if norm(e) == getf.args.args[0].arg:
            continue        # `return self` when read on the class
        if isinstance(e, ast.BinOp) and isinstance(e.op, ast.Mult) and norm(e.left) == norm(e.right) \
                and norm(e.left).startswith('getattr(%s, self.' % inst_p):
            product_returns += 1
        else:
            other_returns += 1
    get_ok = product_returns >= 1 and other_returns == 0
    ctx.ob('C18.R3', 'squared:get-is-plain-squared', get_ok,
           'squared_property.__get__ returns plain * plain, computed at read time (the product gives '
           'inf for a huge cut-off where ** 2 raises OverflowError); returns: %s' % get_forms,
           mod, getf)
    if setf is not None:
        sets = [c for c in calls_in(setf) if call_name(c) == 'setattr']
        set_ok = len(sets) == 1 and len(sets[0].args) == 3 and \
            norm(sets[0].args[2]).replace(' ', '') in ('%s**0.5' % setf.args.args[2].arg,
                                                      'math.sqrt(%s)' % setf.args.args[2].arg)
        ctx.ob('C18.R3', 'squared:set-writes-root', set_ok,
               'squared_property.__set__ stores the square root into the plain attribute', mod, setf)
    name_ok = any(isinstance(n, ast.Assign) and '_squared' in norm(n.value)
                  and ('[:-len(' in norm(n.value) or 'removesuffix' in norm(n.value))
                  for n in walk_no_nested(namef))
    ctx.ob('C18.R3', 'squared:name-strips-suffix', name_ok,
           'the plain attribute name is the descriptor name without the _squared suffix',
           mod, namef)
    squared_names = set()
    for name, val in cfg.plain.items():
        if name.endswith('_squared'):
            squared_names.add(name)
            ctx.ob('C18.R3', 'squared:field:' + name,
                   isinstance(val, ast.Call) and call_name(val) == 'squared_property'
                   and name[:-8] in cfg.fields and cfg.fields[name[:-8]][0] == 'float',
                   '%s is a class-level squared_property() whose plain twin %s is a float '
                   'field' % (name, name[:-8]), mod, val)
    for name in cfg.fields:
        if name.endswith('_squared'):
            ctx.ob('C18.R3', 'squared:annotated:' + name, False,
                   '%s is annotated: it becomes an independent dataclass field instead of '
                   'a derived value' % name, mod, cfg.fields[name][2] or mod.cls('Parameters'))
    # every *_squared attribute read on a parameters object is one of these
    for m2, q2, f2 in prog.all_funcs():
        for node in walk_no_nested(f2):
            if isinstance(node, ast.Attribute) and node.attr.endswith('_cutoff_squared') or \
                    (isinstance(node, ast.Attribute) and node.attr.endswith('_squared')
                     and 'parameters' in norm(node.value)):
                if isinstance(node.ctx, ast.Load):
                    ctx.ob('C18.R3', 'squared:reader:%s.%s:%s' % (m2.name, q2, node.attr),
                           node.attr in squared_names,
                           'the squared cut-off read here is a derived squared_property',
                           m2, node)
                else:
                    ctx.ob('C18.R3', 'squared:store:%s.%s:%s' % (m2.name, q2, node.attr),
                           False, 'a squared cut-off is assigned directly', m2, node)
    ctx.need('C18.R3', 8)

    # ------------------------------------------------------------------ R4
    types = G.group_types(prog)     # class -> {'type': [...], 'residue_type': [...]}
    matrix = cfg.get('interaction_matrix')
    rows = matrix['rows']
    keys = [r[1] for r in rows]
    ctx.ob('C18.R4', 'matrix:no-duplicate-row', len(set(keys)) == len(keys),
           'no interaction_matrix row key is repeated', mod, add,
           detail=str([k for k in keys if keys.count(k) > 1]))
    for i, (ln, key, vals) in enumerate(rows):
        ctx.ob('C18.R4', 'matrix:row-shape:' + key,
               len(vals) == i + 1 and all(v in ('I', 'N', '-') for v in vals),
               'row %s (cfg line %d) has %d entries in {I,N,-}; expected %d (triangular)' % (
                   key, ln, len(vals), i + 1), mod, add)
    exempt = {
        '': 'base class Group, never instantiated by a classifier',
        'LG': 'marvin ligand typing only (unreachable under the shipped file)',
        'ALG': 'marvin ligand typing only (unreachable under the shipped file)',
        'BLG': 'marvin ligand typing only (unreachable under the shipped file)',
    }
    seen_types = set()
    for cname, info in sorted(types.items()):
        for tp, node in info['type']:
            if tp is None:
                ctx.ob('C18.R4', 'type-is-literal:' + cname, False,
                       'class %s computes its group type at run time (%s): the types that need an '
                       'interaction_matrix row can no longer be enumerated, and a value without a '
                       'row never interacts' % (cname, norm(node)), prog.mod('group'), node)
                continue
            if tp in seen_types:
                continue
            seen_types.add(tp)
            if tp in exempt:
                continue
            ctx.ob('C18.R4', 'type-has-row:' + tp, tp in keys,
                   "group type %r (class %s) has an interaction_matrix row in the shipped "
                   "file; without it every look-up returns None and the group never "
                   "interacts" % (tp, cname), prog.mod('group'), node)
    # exemptions are justified by code shape
    cc = prog.mod('conformation_container')
    gs = cc.func('ConformationContainer.get_sidechain_groups')
    ctx.ob('C18.R4', 'backbone-types:filtered-from-pair-loop', "'BB' not in group.type" in norm(gs),
           'get_sidechain_groups drops BBN/BBC groups (their rows are all "-": no pairwise interaction)',
           cc, gs)
    for bb in ('BBN', 'BBC'):
        row = [vals for _ln, key, vals in rows if key == bb]
        ctx.ob('C18.R4', 'backbone-types:row-without-interaction:' + bb,
               len(row) == 1 and set(row[0]) == {'-'},
               'the %s row defines "no interaction" for every pair' % bb, mod, add)
    ions = cfg.get('ions')
    pkas = cfg.get('model_pkas')
    ctx.ob('C18.R4', 'exempt:ions-not-titratable', not (set(ions) & set(pkas)),
           'no ion residue name is also a model-pKa key (overlap: %s)' % sorted(set(ions) & set(pkas)),
           mod, add)
    ctx.need('C18.R4', 30)
    # "for any parameter file": the file that is named is the file that is read.
    # A name is looked up in the package directory only when it does not denote
    # a file as given - otherwise a user's own propka.cfg in the working
    # directory is silently replaced by the shipped one
    imod = prog.mod('input')
    rpf = imod.func('read_parameter_file')
    fparam = [a.arg for a in rpf.args.args][0]
    rcan = canon(rpf)
    opens = [c for c in calls_in(rpf, nested=False) if (call_name(c) or '').split('.')[-1] in (
        'open_file_for_reading', 'open')]
    packaged, given = [], []
    for c in opens:
        t = rcan.text(c.args[0]) if c.args else ''
        (packaged if '__file__' in t else given).append(c)

    def after_given_failed(c):
        for e, pol in facts_at(c, rpf):
            t = rcan.text(e).replace(' ', '')
            if not pol and fparam in t and any(k in t for k in ('.is_file()', '.exists()', 'isfile(', 'exists(')):
                return True
        from sa.astutil import ancestors
        for anc in ancestors(c):
            if isinstance(anc, ast.ExceptHandler):
                tr = anc._parent
                if any(x in given for st in tr.body for x in ast.walk(st)):
                    return True
        return False
    ctx.ob('C18.R8', 'parameter-file:named-file-first', bool(given) and all(after_given_failed(c) for c in packaged),
           'read_parameter_file opens the path as given (%d opening calls); the package directory is '
           'tried only where that path is not a file (%d package-relative opening calls)'
           % (len(given), len(packaged)), imod, packaged[0] if packaged else rpf)

    # ------------------------------------------------------------------ R5
    charge = cfg.get('charge')
    order = cfg.get('write_out_order')
    acid, base = cfg.get('acid_list'), cfg.get('base_list')
    res2type = G.residue_type_to_group_type(prog, cfg)
    for key in pkas:
        ctx.ob('C18.R5', 'written-out:' + key, key in order,
               'model-pKa type %s has a write_out_order entry (else it is computed but '
               'never printed)' % key, mod, add)
        tps = res2type.get(key)
        if not tps:
            ctx.ob('C18.R5', 'creatable:' + key, False,
                   'no group class / mapping row produces residue type %s' % key, mod, add)
            continue
        for tp in sorted(tps):
            q = charge.get(tp)
            ctx.ob('C18.R5', 'charge:%s/%s' % (key, tp), q is not None and q != 0,
                   'group type %s (residue type %s) has a non-zero charge row (got %r)' % (
                       tp, key, q), mod, add)
            if q:
                lst, lname = (acid, 'acid_list') if q < 0 else (base, 'base_list')
                other = base if q < 0 else acid
                ctx.ob('C18.R5', 'acid-base-list:%s' % key, key in lst and key not in other,
                       'residue type %s with charge %+g is in %s only' % (key, q, lname), mod, add)
    for key in order:
        ctx.ob('C18.R5', 'written-type-has-model-pka:' + key, key in pkas,
               'write_out_order entry %s has a model pKa (a type that is written out without one '
               'is printed with pKa 0.00 and model pKa 0.00 wherever the unfiltered group list of '
               'a conformation is written)' % key, mod, add)
    ctx.ob('C18.R5', 'write-out:no-duplicates', len(set(order)) == len(order),
           'write_out_order has no duplicate entry (a duplicate prints groups twice): %s'
           % sorted(k for k in set(order) if order.count(k) > 1), mod, add)
    for key in cfg.get('custom_model_pkas'):
        ctx.ob('C18.R5', 'custom-key-shape:' + key, key.count('-') == 1 and all(key.split('-')),
               'custom_model_pkas key has the RES-ATOM shape', mod, add)

    # ------------------------------------------------------------------ R6
    pl = mod.func('Parameters.parse_line')
    branch_aliases = []
    # the dispatch variable: the local every `is <alias>` test compares
    is_tests = [node for node in walk_no_nested(pl) if isinstance(node, ast.Compare)
                and isinstance(node.ops[0], ast.Is) and isinstance(node.left, ast.Name)
                and not (isinstance(node.comparators[0], ast.Constant))]
    subjects = {}
    for node in is_tests:
        subjects[node.left.id] = subjects.get(node.left.id, 0) + 1
    subject = max(subjects, key=subjects.get) if subjects else None
    for node in is_tests:
        if node.left.id == subject:
            branch_aliases.append(norm(node.comparators[0]))
    ctx.ob('C18.R6', 'dispatch:no-duplicate-branch',
           len(branch_aliases) == len(set(branch_aliases)),
           'no annotation alias is tested twice in parse_line', mod, pl)
    used = {ann for _k, (kind, ann, _n) in cfg.fields.items()}
    for ann in sorted(used):
        handled = ann in branch_aliases or ann == 'float'
        ctx.ob('C18.R6', 'dispatch:alias:' + ann, handled,
               'fields annotated %s have a branch in parse_line (float falls to the '
               'default branch)' % ann, mod, pl)
    # the aliases must be pairwise distinct objects for `is` dispatch to work
    aliases = {k: norm(v) for k, v in mod.module_assigns().items() if k.startswith('_T_')}
    ann_aliases = {}
    for node in mod.tree.body:
        if isinstance(node, ast.AnnAssign) and isinstance(node.target, ast.Name) and \
                node.target.id.startswith('_T_') and node.value is not None:
            aliases[node.target.id] = norm(node.value)
    vals = [v for k, v in aliases.items() if k in used]
    ctx.ob('C18.R6', 'dispatch:aliases-distinct', len(vals) == len(set(vals)),
           'the annotation aliases used for dispatch are pairwise distinct expressions '
           '(identical ones would be the same object under `is`)', mod, pl, detail=str(aliases))
    ctx.ob('C18.R6', 'cfg:no-undeclared-keyword', not cfg.undeclared,
           'every keyword of the shipped propka.cfg is a declared Parameters field '
           '(undeclared: %s)' % cfg.undeclared[:5], mod, pl)
    ctx.ob('C18.R6', 'cfg:row-arity', not cfg.bad_rows,
           'every row of the shipped file has the arity its kind requires (bad: %s)'
           % cfg.bad_rows[:3], mod, pl)
    ctx.note('cfg_rows', len(cfg.rows))
    # version named by the cfg exists as a class deriving from Version
    ver = cfg.get('version')
    vmod = prog.mod('version')
    ctx.ob('C18.R6', 'cfg:version-class-exists', ver in vmod.classes,
           'version %s names a class of propka.version' % ver, vmod, vmod.tree)

    # ------------------------------------------------------------------ R7
    def lt(rule_key, a, b, what, strict=True):
        ctx.ob('C18.R7', rule_key, (a < b) if strict else (a <= b), what % (a, b), mod, add)
    lt('coulomb_cutoff1<coulomb_cutoff2', cfg.num('coulomb_cutoff1'), cfg.num('coulomb_cutoff2'),
       'inner Coulomb cut-off %s < outer %s')
    lt('buried<=desolv', cfg.num('buried_cutoff'), cfg.num('desolv_cutoff'),
       'buried cut-off %s <= desolvation cut-off %s', strict=False)
    lt('Nmin<Nmax', cfg.num('Nmin'), cfg.num('Nmax'), 'Nmin %s < Nmax %s')
    sc = cfg.get('sidechain_cutoffs')
    lt('sidechain-default', sc['default'][0], sc['default'][1],
       'default side-chain cut-offs: inner %s < outer %s')
    for ln, g1, g2, (c1, c2) in sc['rows']:
        lt('sidechain:%s-%s' % (g1, g2), c1, c2,
           'side-chain cut-offs ' + g1 + '/' + g2 + ': inner %s < outer %s')
    for tbl in ('backbone_NH_hydrogen_bond', 'backbone_CO_hydrogen_bond'):
        for key, vals in cfg.get(tbl).items():
            ok = len(vals) == 3
            ctx.ob('C18.R7', '%s:%s:arity' % (tbl, key), ok,
                   '%s %s has exactly (value, inner, outer)' % (tbl, key), mod, add)
            if ok:
                lt('%s:%s' % (tbl, key), vals[1], vals[2],
                   tbl + ' ' + key + ': inner %s < outer %s')
    # duplicates in the pairwise table (later row silently wins)
    seen = {}
    for ln, g1, g2, val in sc['rows']:
        k = tuple(sorted((g1, g2)))
        if k in seen and seen[k] != val:
            ctx.ob('C18.R7', 'sidechain-duplicate:%s-%s' % k, False,
                   'cut-off pair %s-%s is defined twice with different values' % k, mod, add)
        seen[k] = val
    ctx.need('C18.R7', 100)
