"""C10 - folding free energy obeys proton linkage; requested grid is honoured.

R1 inclusive grid not built by float accumulation, R2 window filter relative
to the step, R3 optimum = min over the profile on the energy component and
tuple agreement producer/writer, R4 constant 1.36 and folded/unfolded pairing,
R5 option wiring.
"""
import ast

from sa.astutil import (string_builders, effective, call_name, calls_in, dotted, norm, walk_no_nested, try_fold,
                        names_in, last_attr, call_arg, guards_of, fact_texts, str_consts, facts_at)
from sa.loader import AnalysisError
from sa.canon import canon
from sa.symexpand import expanded_at, expanded_returns, Expand, substitute
from sa.tables import module_constants
from checks import common


def _grid_fn(prog):
    mod = prog.mod('lib')
    fn = mod.funcs.get('make_grid')
    if fn is None:
        for qual, cand in mod.funcs.items():
            if len(cand.args.args) == 3 and any(isinstance(n, ast.Yield) for n in walk_no_nested(cand)):
                fn = cand
    if fn is None:
        raise AnalysisError('C10: grid generator not found')
    return mod, fn


def check_grid(ctx, rule, prog):
    mod, fn = _grid_fn(prog)
    lo, hi, step = [a.arg for a in fn.args.args[:3]]
    whiles = [n for n in walk_no_nested(fn) if isinstance(n, ast.While)]
    fors = [n for n in walk_no_nested(fn) if isinstance(n, ast.For)]
    key = 'grid:inclusive-without-float-accumulation'
    if whiles:
        w = whiles[0]
        accum = [n for n in ast.walk(w) if isinstance(n, ast.AugAssign)
                 and isinstance(n.op, ast.Add) and step in names_in(n.value)]
        tol = step in names_in(w.test)   # e.g. x <= max_ + 0.5 * step
        ctx.ob(rule, key, not accum or tol,
               'the grid is produced by repeated float addition of the step with a bare '
               '`<= max` end test: accumulated rounding decides whether the end point is '
               'yielded (e.g. 0..14 step 0.05 stops at 13.95)', mod, w)
        return
    ok = False
    why = 'no recognised inclusive index-based shape'
    if len(fors) == 1 and isinstance(fors[0].iter, ast.Call) and call_name(fors[0].iter) == 'range':
        f = fors[0]
        ana = Expand()
        # expand the range argument through local definitions
        hits = {}

        class P(Expand):
            def bind_loop(self, stmt, state):
                if stmt is f:
                    hits['arg'] = substitute(stmt.iter, self.env_of(state))
                return Expand.bind_loop(self, stmt, state)
        P().exit_states(fn)
        arg = hits.get('arg')
        yields = [n for n in ast.walk(f) if isinstance(n, ast.Yield)]
        i = f.target.id if isinstance(f.target, ast.Name) else None
        y_ok = False
        if len(yields) == 1 and i:
            t = norm(yields[0].value).replace(' ', '')
            y_ok = t in ('%s+%s*%s' % (lo, i, step), '%s+%s*%s' % (lo, step, i),
                         '%s*%s+%s' % (i, step, lo), '%s*%s+%s' % (step, i, lo))
        n_ok = False
        if arg is not None and len(arg.args) == 1:
            a = arg.args[0]
            # n + 1 with n = round(...)/int(... + eps) of (hi - lo) / step
            if isinstance(a, ast.BinOp) and isinstance(a.op, ast.Add):
                parts = [a.left, a.right]
                ones = [p for p in parts if try_fold(p) == 1]
                rest = [p for p in parts if try_fold(p) != 1]
                if len(ones) == 1 and len(rest) == 1:
                    n_ok = _floor_count(rest[0], fn, hi, lo, step)
        ok = y_ok and n_ok
        why = 'yield %s, count %s' % ('ok' if y_ok else 'not min + i*step',
                                     'ok' if n_ok else 'not floor((max-min)/step + eps) + 1')
    ctx.ob(rule, key, ok,
           'the grid is index based: min + i*step for i in range(n + 1) with n = floor((max - min)/step '
           '+ eps): the upper end is produced when the step divides the range and never exceeded '
           'otherwise; round() overshoots by one point whenever the remainder is half a step or more '
           '(%s)' % why, mod, fn)


def _floor_count(expr, fn, hi, lo, step):
    """expr is int(Q + eps) / math.floor(Q + eps) (possibly through one local)
    with Q = (hi - lo) / step and a small positive constant eps."""
    if isinstance(expr, ast.Name):
        defs = [st for st in walk_no_nested(fn) if isinstance(st, ast.Assign)
                and norm(st.targets[0]) == expr.id]
        if len(defs) != 1:
            return False
        expr = defs[0].value
    if not (isinstance(expr, ast.Call) and call_name(expr) in ('int', 'math.floor') and len(expr.args) == 1):
        return False
    inner = expr.args[0]
    if not (isinstance(inner, ast.BinOp) and isinstance(inner.op, ast.Add)):
        return False
    sides = [inner.left, inner.right]
    eps = [x for x in sides if isinstance(try_fold(x), float) and 0 < try_fold(x) <= 1e-6]
    quo = [x for x in sides if try_fold(x) is None]
    if len(eps) != 1 or len(quo) != 1:
        return False
    q = quo[0]
    return isinstance(q, ast.BinOp) and isinstance(q.op, ast.Div) and norm(q.right) == step \
        and isinstance(q.left, ast.BinOp) and isinstance(q.left.op, ast.Sub) \
        and norm(q.left.left) == hi and norm(q.left.right) == lo


def produced_names(prof):
    rets = [r for r in walk_no_nested(prof) if isinstance(r, ast.Return)]
    if len(rets) == 1 and isinstance(rets[0].value, ast.Tuple):
        return [norm(e) for e in rets[0].value.elts]
    return []


def run(ctx):
    prog = ctx.prog
    # ------------------------------------------------------------------ R1
    check_grid(ctx, 'C10.R1', prog)
    gmod, gfn = _grid_fn(prog)
    mc = prog.mod('molecular_container')
    users = []
    for qual in ('MolecularContainer.get_folding_profile', 'MolecularContainer.get_charge_profile'):
        fn = mc.func(qual)
        loops = [n for n in walk_no_nested(fn) if isinstance(n, ast.For)
                 and isinstance(n.iter, ast.Call) and call_name(n.iter) == gfn.name]
        ok = len(loops) == 1 and [norm(a) for a in loops[0].iter.args] == ['*grid']
        ctx.ob('C10.R1', 'grid-user:' + qual, ok,
               '%s iterates make_grid(*grid) with the grid it is given' % qual, mc, fn)
        users.append(fn)

    # ------------------------------------------------------------------ R2
    out = prog.mod('output')
    writer = out.func('get_folding_profile_section')
    mods = []
    # comparisons whose operand is `x % m` (directly or through a local)
    mod_vars = {}
    for node in walk_no_nested(writer):
        if isinstance(node, ast.Assign) and isinstance(node.value, ast.BinOp) \
                and isinstance(node.value.op, ast.Mod) and isinstance(node.targets[0], ast.Name):
            mod_vars[node.targets[0].id] = node.value
    n_cmp = 0
    for node in walk_no_nested(writer):
        if not (isinstance(node, ast.Compare) and len(node.ops) == 1):
            continue
        left, right, op = node.left, node.comparators[0], node.ops[0]

        def mod_of(e):
            if isinstance(e, ast.BinOp) and isinstance(e.op, ast.Mod):
                return e
            if isinstance(e, ast.Name) and e.id in mod_vars:
                return mod_vars[e.id]
            return None
        m = mod_of(left)
        above = False
        if m is None and mod_of(right) is not None and isinstance(op, (ast.Lt, ast.LtE)):
            # c < x % m : the loader's spelling of  x % m > c
            left, right, above = right, left, True
            m = mod_of(left)
        if m is None:
            # accepted shapes: min(r, delta - r) < tol, (delta - r) < tol
            txt = norm(left)
            if any(v in names_in(left) for v in mod_vars) or '%' in txt:
                n_cmp += 1
                tol = _literal_number(right)
                ok = isinstance(op, (ast.Lt, ast.LtE)) and tol is not None and tol <= 0.005 + 1e-12
                ctx.ob('C10.R2', 'window:tolerance:' + norm(node), ok,
                       'the distance of a grid pH to the nearest window multiple is compared '
                       'with a tolerance <= 0.005 (half of the printed resolution)', out, node)
            continue
        n_cmp += 1
        modulus = m.right
        lit_c = _literal_number(right)
        lit_m = _literal_number(modulus)
        if above:
            ok = lit_c is not None and lit_m is not None and lit_c < lit_m
            ctx.ob('C10.R2', 'window:near-next-multiple:%s > %s' % (norm(left), norm(right)), ok,
                   '`%s`: "close to the next multiple" is tested against an absolute literal '
                   'although the modulus %s is the user-chosen step; it presumes step == 1 '
                   '(-w 0 14 2 prints every pH from x.0 to x+0.9 for odd x)' % (
                       norm(node), norm(modulus)), out, node)
        elif isinstance(op, (ast.Lt, ast.LtE)):
            ok = lit_c is not None and lit_c <= 0.005 + 1e-12
            ctx.ob('C10.R2', 'window:near-multiple-tolerance:' + norm(node), ok,
                   '`%s`: the tolerance must not exceed 0.005 (half the printed 0.01 '
                   'resolution), else neighbouring grid points of a fine grid are printed too'
                   % norm(node), out, node)
    all_mods = [n for n in walk_no_nested(writer) if isinstance(n, ast.BinOp)
                and isinstance(n.op, ast.Mod) and not isinstance(n.left, ast.Constant)]
    for m in all_mods:
        ctx.ob('C10.R2', 'window:relative-to-origin:' + norm(m),
               'window[0]' in norm(m.left),
               'printed rows are those at window[0] + k*step: the remainder must be taken of '
               '(pH - window[0]), else the lower end point of a window that does not start at '
               'a multiple of the step is never printed', out, m)
    wcan = canon(writer)
    wparam = [a.arg for a in writer.args.args + writer.args.kwonlyargs if a.arg == 'window'] or ['window']
    W = wparam[0]

    def window_item(text, i):
        """text denotes window[i], possibly converted (float(), Decimal(str()))"""
        t = text.replace(' ', '')
        return t in ('%s[%d]' % (W, i), 'float(%s[%d])' % (W, i), 'Decimal(str(%s[%d]))' % (W, i),
                     '(float(x)forxin%s)[%d]' % (W, i), '(float(v1)forv1in%s)[%d]' % (W, i))
    if not all_mods:
        # shape B: nearest window point k = round((pH - w0) / step), printed when
        # |pH - (w0 + k*step)| < tolerance
        near = []
        for node in walk_no_nested(writer):
            if isinstance(node, ast.Compare) and len(node.ops) == 1 and isinstance(node.ops[0], (ast.Lt, ast.LtE)) \
                    and isinstance(node.left, ast.Call) and call_name(node.left) == 'abs':
                e = wcan.expr(node.left.args[0])
                tol = wcan.expr(node.comparators[0])
                tolv = _literal_number(tol)
                ok = False
                if isinstance(e, ast.BinOp) and isinstance(e.op, ast.Sub) and isinstance(e.right, ast.BinOp) \
                        and isinstance(e.right.op, ast.Add) and window_item(norm(e.right.left), 0) \
                        and isinstance(e.right.right, ast.BinOp) and isinstance(e.right.right.op, ast.Mult):
                    k, st = e.right.right.left, e.right.right.right
                    if window_item(norm(k), 2):
                        k, st = st, k
                    kt = norm(k).replace(' ', '')
                    ok = window_item(norm(st), 2) and kt.startswith('round((') and tolv is not None \
                        and tolv <= 0.005 + 1e-12
                near.append(node)
                ctx.ob('C10.R2', 'window:nearest-window-point:' + norm(node)[:60], ok,
                       'a grid pH is printed when it coincides (tolerance <= 0.005) with '
                       'window[0] + k*window[2] for the nearest integer k', out, node)
        ctx.ob('C10.R2', 'window:filter-shape-recognised', bool(near),
               'the window filter is either a remainder test on (pH - window[0]) or a nearest-'
               'window-point test', out, writer)
    # the step that is used is the requested one
    rounded_step = [n for n in walk_no_nested(writer) if isinstance(n, ast.Call) and call_name(n) == 'round'
                    and n.args and ('%s[2]' % W) in norm(n.args[0])]
    ctx.ob('C10.R2', 'window:step-not-rounded', not rounded_step,
           'the window step enters the filter as requested, not rounded to two decimals (0.025 '
           'would become 0.03, 0.125 become 0.12, anything below 0.005 become 0)', out,
           rounded_step[0] if rounded_step else writer)
    # bounds are compared like with like
    mixed = []
    for node in walk_no_nested(writer):
        if isinstance(node, ast.Compare) and any(('%s[%d]' % (W, i)) in norm(node) for i in (0, 1)):
            sides = [node.left] + node.comparators
            texts = [wcan.text(x) for x in sides]
            dec = ['Decimal(' in t for t in texts]
            raw = [norm(x).replace(' ', '') in ('%s[0]' % W, '%s[1]' % W) for x in sides]
            if any(dec) and any(raw):
                mixed.append(node)
    ctx.ob('C10.R2', 'window:bounds-like-with-like', not mixed,
           'a pH that was rounded to a Decimal is not compared with the raw float bound: '
           'Decimal("1.100") >= 1.1 is False because the float 1.1 lies above its decimal value, '
           'so the row at the lower bound was dropped', out, mixed[0] if mixed else writer)
    ctx.need('C10.R2', 2)
    # the window bounds are inclusive tests on both ends
    wtests = [n for n in walk_no_nested(writer) if isinstance(n, ast.Compare)
              and 'window[' in norm(n)]
    txts = sorted(norm(n).replace(' ', '') for n in wtests)
    lo_ok = any(t.startswith('window[0]<=') for t in txts)
    hi_ok = any('<=window[1]' in t for t in txts)
    for node in walk_no_nested(writer):
        # chained form  w_min - tol <= pH <= w_max + tol
        if isinstance(node, ast.Compare) and len(node.ops) in (1, 2) \
                and all(isinstance(o, ast.LtE) for o in node.ops):
            lo_t = wcan.text(node.left).replace(' ', '')
            hi_t = wcan.text(node.comparators[-1]).replace(' ', '')
            if '[0]' in lo_t and W in lo_t:
                lo_ok = True
            if '[1]' in hi_t and W in hi_t:
                hi_ok = True
    ctx.ob('C10.R2', 'window:inclusive-bounds', lo_ok and hi_ok,
           'rows are printed for window[0] <= pH <= window[1], both ends included (%s)' % txts,
           out, wtests[0] if wtests else writer)

    # ... and they decide: every statement that emits a profile row stands under
    # the bounds test itself (not under a row count derived from the bounds by a
    # float division: int((w_max - w_min)/w_step) is 6 for 0.7/0.1)
    def is_bounds_fact(e):
        if not isinstance(e, ast.Compare) or not all(isinstance(o, (ast.Lt, ast.LtE)) for o in e.ops):
            return set()
        sides = [wcan.text(x).replace(' ', '') for x in [e.left] + e.comparators]
        got = set()
        if len(sides) >= 2 and W in sides[0] and '[0]' in sides[0] and '[1]' not in sides[0]:
            got.add('lo')
        if len(sides) >= 2 and W in sides[-1] and '[1]' in sides[-1] and '[0]' not in sides[-1]:
            got.add('hi')
        return got
    rows = []
    for lp in walk_no_nested(writer):
        if isinstance(lp, ast.For) and isinstance(lp.target, (ast.Tuple, ast.List)) and len(lp.target.elts) == 2 \
                and all(isinstance(e, ast.Name) for e in lp.target.elts):
            phv = lp.target.elts[0].id
            for st in ast.walk(lp):
                if isinstance(st, ast.AugAssign) and isinstance(st.op, ast.Add) \
                        and any(isinstance(n, ast.Name) and n.id == phv for n in ast.walk(st.value)) \
                        and any(isinstance(n, ast.Call) and last_attr(n) == 'format' or isinstance(n, ast.JoinedStr)
                                for n in ast.walk(st.value)):
                    held = set()
                    for e, pol in facts_at(st, writer):
                        if pol:
                            held |= is_bounds_fact(e)
                    rows.append((st, held))
    ctx.ob('C10.R2', 'window:bounds-decide-each-row', bool(rows) and all(h == {'lo', 'hi'} for _s, h in rows),
           'every statement that prints a profile row stands under window[0] <= pH and pH <= '
           'window[1] themselves (%d emitting statements; bounds held: %s)'
           % (len(rows), [sorted(h) for _s, h in rows]), out,
           next((s_ for s_, h in rows if h != {'lo', 'hi'}), writer))

    common.check_ph_label_precision(ctx, 'C10.R2', prog, ['get_folding_profile_section',
                                                          'get_charge_profile_section'])
    # ------------------------------------------------------------------ R3
    prof = mc.func('MolecularContainer.get_folding_profile')
    loops = [n for n in walk_no_nested(prof) if isinstance(n, ast.For)
             and isinstance(n.iter, ast.Call) and call_name(n.iter) == gfn.name]
    # the list that collects one 2-tuple per grid point
    appends = [c for c in (calls_in(loops[0]) if loops else []) if last_attr(c) == 'append'
               and isinstance(c.func.value, ast.Name) and c.args
               and isinstance(c.args[0], ast.Tuple) and len(c.args[0].elts) == 2]
    pvar = appends[0].func.value.id if appends else None
    pos_ok = False
    if len(appends) == 1 and loops and isinstance(loops[0].target, ast.Name):
        pcan = canon(prof)
        point = pcan.expr(appends[0].args[0])
        grid_ph = norm(pcan.expr(ast.Name(id=loops[0].target.id, ctx=ast.Load()),
                                 pcan.env_for(appends[0])))
        e0, e1 = point.elts
        pos_ok = norm(e0) == grid_ph and isinstance(e1, ast.Call) \
            and last_attr(e1) == 'calculate_folding_energy' \
            and [norm(k.value) for k in e1.keywords if k.arg == 'ph'] == [grid_ph]
        unguarded = not any(isinstance(n, (ast.If, ast.Continue, ast.Break))
                            for n in ast.walk(loops[0]))
        pos_ok = pos_ok and unguarded
    ctx.ob('C10.R3', 'profile:(ph, energy)-for-every-grid-point', pos_ok,
           'every grid pH contributes one (pH, folding energy at that pH) point', mc,
           appends[0] if appends else prof)
    mins = [c for c in calls_in(prof, nested=False) if call_name(c) == 'min'
            and any(kw.arg == 'key' for kw in c.keywords)]
    min_ok = False
    if len(mins) == 1:
        key = [kw.value for kw in mins[0].keywords if kw.arg == 'key'][0]
        key_ok = isinstance(key, ast.Lambda) and isinstance(key.body, ast.Subscript) \
            and try_fold(key.body.slice) == 1
        args = [norm(a) for a in mins[0].args]
        a0 = mins[0].args[0] if mins[0].args else None
        if args == [pvar]:
            min_ok = key_ok
        elif len(args) == 1 and (
                isinstance(a0, ast.BinOp) and isinstance(a0.op, ast.Add)
                and isinstance(a0.left, ast.List) and len(a0.left.elts) == 1 and norm(a0.right) == pvar
                or isinstance(a0, ast.List) and len(a0.elts) == 2 and isinstance(a0.elts[1], ast.Starred)
                and norm(a0.elts[1].value) == pvar):
            # min([sentinel] + profile, key=...) / min([sentinel, *profile], key=...): the
            # first of the lowest points, the sentinel only when nothing lies below it
            sv = canon(prof).expr(a0.left.elts[0] if isinstance(a0, ast.BinOp) else a0.elts[0])
            sent = try_fold(sv.elts[1]) if isinstance(sv, ast.Tuple) and len(sv.elts) == 2 else None
            from sa.astutil import is_inf
            min_ok = key_ok and (sent is not None and sent >= 1e6 or
                                 (isinstance(sv, ast.Tuple) and len(sv.elts) == 2 and is_inf(sv.elts[1])))
        else:
            # fold form: for point in profile: opt = min(opt, point, key=...)
            loop = next((a for a in ast.walk(prof) if isinstance(a, ast.For)
                         and any(mins[0] is n for n in ast.walk(a))), None)
            min_ok = key_ok and loop is not None and norm(loop.iter) == pvar \
                and isinstance(loop.target, ast.Name) and loop.target.id in args \
                and not any(isinstance(n, (ast.If, ast.Continue, ast.Break)) for n in ast.walk(loop))
            if min_ok:
                tgt = [s for s in loop.body if isinstance(s, ast.Assign) and s.value is mins[0]]
                min_ok = len(tgt) == 1 and norm(tgt[0].targets[0]) in args
                # sentinel initial value must be larger than any profile value
                init = [s for s in prof.body if isinstance(s, (ast.Assign, ast.AnnAssign))
                        and norm(s.targets[0] if isinstance(s, ast.Assign) else s.target)
                        == norm(tgt[0].targets[0])] if tgt else []
                if init:
                    v = init[0].value
                    sent = try_fold(v.elts[1]) if isinstance(v, ast.Tuple) and len(v.elts) == 2 else None
                    from sa.astutil import is_inf
                    min_ok = min_ok and (sent is not None and sent >= 1e6 or
                                         (isinstance(v, ast.Tuple) and is_inf(v.elts[1])))
    maxes = [c for c in calls_in(prof, nested=False) if call_name(c) == 'max'
             and any(kw.arg == 'key' for kw in c.keywords)]
    ctx.ob('C10.R3', 'optimum:min-on-energy-component', min_ok and not maxes,
           'the optimum is the minimum over all profile points, keyed on the energy '
           '(position 1 of (pH, energy))', mc, mins[0] if mins else prof)
    # "within 80 % of the optimum": the level the energies are compared with is
    # never below the optimum itself, whatever its sign (0.8*opt lies below a
    # positive optimum, so that not even the optimum is accepted and no range
    # is reported: the normal case with the neutral reference state)
    opt_name = None
    if mins:
        st_ = mins[0]
        while not isinstance(st_, ast.stmt):
            st_ = st_._parent
        if isinstance(st_, ast.Assign) and isinstance(st_.targets[0], ast.Name):
            opt_name = st_.targets[0].id
    from sa.astutil import walk_with_lambdas
    from sa.consteval import ConstEval, UNKNOWN
    levels = []
    for node in walk_with_lambdas(prof):
        if isinstance(node, ast.Compare) and len(node.ops) == 1 \
                and isinstance(node.ops[0], (ast.Lt, ast.LtE)) and opt_name:
            for side in (node.left, node.comparators[0]):
                sx = side
                if isinstance(side, ast.Name):
                    defs = [d for d in walk_no_nested(prof) if isinstance(d, ast.Assign)
                            and norm(d.targets[0]) == side.id]
                    if len(defs) == 1:
                        sx = defs[0].value
                if any(isinstance(x, ast.Subscript) and norm(x.value) == opt_name for x in ast.walk(sx)) \
                        and not (isinstance(sx, ast.Subscript) and norm(sx.value) == opt_name):
                    levels.append((node, side, sx))
    lev_ok, lev_txt = False, None
    if len(levels) == 1:
        node, side, sx = levels[0]
        lev_txt = norm(sx)
        vals = {}
        for c in (-1.0, 1.0, 0.0):
            class _Sub(ast.NodeTransformer):
                def visit_Subscript(self, n):
                    if norm(n.value) == opt_name:
                        return ast.Constant(value=c)
                    return self.generic_visit(n)
            import copy
            vals[c] = ConstEval({}).ev(_Sub().visit(copy.deepcopy(sx)))
        # energies are on the small side of the comparison: dg < level
        dg_small = side is node.comparators[0]
        lev_ok = dg_small and all(v is not UNKNOWN for v in vals.values()) \
            and abs(vals[-1.0] - (-0.8)) < 1e-9 and abs(vals[1.0] - 1.2) < 1e-9 and vals[0.0] == 0.0 \
            and (isinstance(node.ops[0], ast.LtE))
    ctx.ob('C10.R3', 'range80:level-not-below-optimum', lev_ok,
           'the 80 %% criterion accepts an energy up to the optimum plus 20 %% of its magnitude, the '
           'optimum itself included (level %s: -0.8 for an optimum of -1, +1.2 for +1)' % lev_txt,
           mc, levels[0][0] if levels else prof)
    # a reported range is an interval on which the criterion holds at every grid
    # point: it is grown from the optimum, one neighbouring point at a time, while
    # that point is accepted.  (The smallest and largest accepted pH of the whole
    # profile span the hump between two wells.)
    # the interval routine: the function that is called with the predicate (a
    # lambda), nested in get_folding_profile or a function of the module; its
    # other parameters are bound to the profile and the optimum
    helpers = []
    for c in calls_in(prof, nested=False):
        lam = [a for a in c.args if isinstance(a, ast.Lambda)]
        if len(lam) != 1 or not isinstance(c.func, ast.Name):
            continue
        cand = [n for n in prof.body if isinstance(n, ast.FunctionDef) and n.name == c.func.id] or \
            [mc.funcs[c.func.id]] if (c.func.id in mc.funcs or any(
                isinstance(n, ast.FunctionDef) and n.name == c.func.id for n in prof.body)) else []
        for h in cand:
            hp = [a.arg for a in h.args.args]
            bind = dict(zip(hp, [norm(a) if not isinstance(a, ast.Lambda) else '<predicate>' for a in c.args]))
            if (h, bind) not in [(x, b) for x, b in helpers]:
                helpers.append((h, bind))
    grown = False
    why_g = 'no interval routine taking the predicate'
    seen_h = set()
    for h, bind in helpers:
        if id(h) in seen_h:
            continue
        seen_h.add(id(h))
        acc = next((p_ for p_, v in bind.items() if v == '<predicate>'), None)
        if acc is None:
            continue
        # names of the profile and the optimum inside the routine
        inv = {v: k for k, v in bind.items()}
        pvar_h = inv.get(pvar, pvar)
        opt_h = inv.get(opt_name, opt_name)
        whiles = [w for w in walk_no_nested(h) if isinstance(w, ast.While)]
        steps = []
        for w in whiles:
            body = effective(w.body)
            if len(body) != 1 or not isinstance(body[0], ast.AugAssign) \
                    or not isinstance(body[0].target, ast.Name) or try_fold(body[0].value) != 1:
                continue
            idx = body[0].target.id
            delta = '+' if isinstance(body[0].op, ast.Add) else '-'
            tests = [norm(v).replace(' ', '') for v in (w.test.values if isinstance(w.test, ast.BoolOp)
                                                        and isinstance(w.test.op, ast.And) else [w.test])]
            want = '%s(%s[%s%s1][1])' % (acc, pvar_h, idx, delta)
            if want in tests:
                steps.append((idx, delta))
        rets_h = [r for r in walk_no_nested(h) if isinstance(r, ast.Return)]
        starts_at_opt = [st for st in walk_no_nested(h) if isinstance(st, ast.Assign)
                         and norm(st.value).replace(' ', '') == '%s.index(%s)' % (pvar_h, opt_h)]
        final = [r for r in rets_h if not (isinstance(r.value, ast.Tuple)
                                           and all(try_fold(e, {}) is None and norm(e) == 'None' for e in r.value.elts))]
        opt_accepted = bool(final) and all(
            any(pol and norm(e).replace(' ', '') == '%s(%s[1])' % (acc, opt_h)
                for e, pol in facts_at(r, h)) for r in final)
        if sorted(d for _i, d in steps) == ['+', '-'] and len({i for i, _d in steps}) == 2 \
                and starts_at_opt and opt_accepted:
            names_ = {i for i, _d in steps}
            started = {t.id for st in starts_at_opt for t in st.targets if isinstance(t, ast.Name)}
            grown = names_ <= started
            why_g = 'indices %s start at the optimum and move while the next point is accepted' % sorted(names_)
            users = [n for n in produced_names(prof) if any(
                isinstance(d.value, ast.Call) and call_name(d.value) == h.name
                for d in walk_no_nested(prof) if isinstance(d, ast.Assign) and norm(d.targets[0]) == n)]
            grown = grown and len(users) == 2
            why_g += '; used for %s' % users
    extremes = [c for c in calls_in(prof, nested=False) if call_name(c) in ('min', 'max') and c.args
                and isinstance(c.args[0], ast.Name) and any(
                    isinstance(d, ast.Assign) and norm(d.targets[0]) == c.args[0].id
                    and isinstance(d.value, ast.ListComp) and d.value.generators[0].ifs
                    for d in walk_no_nested(prof))]
    ctx.ob('C10.R3', 'ranges:interval-around-optimum', grown and not extremes,
           'both reported ranges are intervals grown from the optimum while the neighbouring grid '
           'point meets the criterion (%s; %d range ends taken as min/max of a filtered list)'
           % (why_g, len(extremes)), mc, extremes[0] if extremes else (helpers[0] if helpers else prof))
    rets = [r for r in walk_no_nested(prof) if isinstance(r, ast.Return)]
    order_ok = len(rets) == 1 and isinstance(rets[0].value, ast.Tuple) and \
        len(rets[0].value.elts) == 4
    produced = [norm(e) for e in rets[0].value.elts] if order_ok else []
    roles = {}
    if order_ok:
        # roles by definition shape
        for name in produced:
            defs = [s for s in walk_no_nested(prof) if isinstance(s, (ast.Assign, ast.AnnAssign))
                    and norm(s.targets[0] if isinstance(s, ast.Assign) else s.target) == name]
            text = ' '.join(norm(d.value) for d in defs if d.value is not None)
            deps = set()
            for d in defs:
                if d.value is not None:
                    for nm in names_in(d.value):
                        for s2 in walk_no_nested(prof):
                            if isinstance(s2, ast.Assign) and norm(s2.targets[0]) == nm:
                                text += ' ' + norm(s2.value)
            pred = None
            for d in defs:
                if isinstance(d.value, ast.Call):
                    lams = [a for a in d.value.args if isinstance(a, ast.Lambda)]
                    if len(lams) == 1 and isinstance(lams[0].body, ast.Compare):
                        pred = lams[0].body
            if name == pvar:
                roles[name] = 'profile'
            elif pred is not None and levels and pred is levels[0][0]:
                roles[name] = 'range80'
            elif pred is not None and len(pred.ops) == 1 and isinstance(pred.ops[0], ast.Lt) \
                    and try_fold(pred.comparators[0]) == 0:
                roles[name] = 'stable'
            elif name == opt_name or ('min(' in text and 'key=' in text):
                roles[name] = 'optimum'
            elif '0.8' in text:
                roles[name] = 'range80'
            elif '< 0.0' in text or '< 0' in text:
                roles[name] = 'stable'
            else:
                roles[name] = '?'
    want = ['profile', 'optimum', 'range80', 'stable']
    ctx.ob('C10.R3', 'profile-tuple:producer-order',
           [roles.get(n) for n in produced] == want,
           'get_folding_profile returns (profile, optimum, 80%% range, stability range); '
           'found roles %s' % [roles.get(n) for n in produced], mc, rets[0] if rets else prof)
    # writer side: unpack order and sentences
    unpack = None
    for node in walk_no_nested(writer):
        if isinstance(node, ast.Assign) and isinstance(node.targets[0], (ast.Tuple, ast.List)) \
                and 'get_folding_profile' in norm(node.value):
            unpack = node
    w_ok = False
    if unpack is not None and len(unpack.targets[0].elts) == 4:
        elts = unpack.targets[0].elts
        groups = [[norm(x) for x in (e.elts if isinstance(e, (ast.Tuple, ast.List)) else [e])]
                  for e in elts]
        sentences = {'optimum': 1, '80 %': 2, 'negative in the range': 3}
        w_ok = True
        for phrase, pos in sentences.items():
            found = False
            for call, tpl in string_builders(writer):
                if True:
                    used = {f[1] for f in tpl if f[0] == 'fld'}
                    if used and used <= set(groups[pos]):
                        # the phrase is in this literal or in the literal appended just before
                        stmt = call
                        while not isinstance(stmt, ast.stmt):
                            stmt = stmt._parent
                        blk = stmt._parent
                        body = getattr(blk, 'body', []) if stmt in getattr(blk, 'body', []) \
                            else getattr(blk, 'orelse', [])
                        idx = body.index(stmt) if stmt in body else -1
                        texts = ' '.join(str_consts(stmt))
                        if idx > 0:
                            texts = ' '.join(str_consts(body[idx - 1])) + ' ' + texts
                        if phrase in texts:
                            found = True
            if not found:
                w_ok = False
    ctx.ob('C10.R3', 'profile-tuple:writer-order', w_ok,
           'the writer unpacks (profile, optimum, 80% range, stability range) in that order and '
           'prints each after its own sentence', out, unpack or writer)

    # ------------------------------------------------------------------ R4
    gmod2 = prog.mod('group')
    fe = gmod2.func('Group.calculate_folding_energy')
    consts = module_constants(gmod2, True)
    # the pH-dependent term: C * (f(pka_value) - f(model_pka))
    targets = [s for s in walk_no_nested(fe) if isinstance(s, (ast.Assign, ast.Return))]
    exp = expanded_at(fe, targets)
    found = []
    for stmt, exprs in exp.items():
        for e in exprs:
            for node in ast.walk(e):
                if isinstance(node, ast.BinOp) and isinstance(node.op, ast.Mult):
                    for c_side, d_side in ((node.left, node.right), (node.right, node.left)):
                        c = try_fold(c_side, consts)
                        if c is None or not isinstance(d_side, ast.BinOp) \
                                or not isinstance(d_side.op, ast.Sub):
                            continue
                        lt, rt = norm(d_side.left), norm(d_side.right)
                        phn = {'ph', 'phi_ph'}
                        if not (phn & names_in(d_side.left)) or not (phn & names_in(d_side.right)):
                            continue
                        found.append((stmt, c, lt, rt))
    uniq = {(c, lt, rt) for _s, c, lt, rt in found}
    ok = False
    detail = str(sorted(uniq))
    if len(uniq) == 1:
        c, lt, rt = next(iter(uniq))
        f_l = 'self.pka_value' in lt and 'self.model_pka' not in lt
        u_r = 'self.model_pka' in rt and 'self.pka_value' not in rt
        f_r = 'self.pka_value' in rt and 'self.model_pka' not in rt
        u_l = 'self.model_pka' in lt and 'self.pka_value' not in lt
        same = lt.replace('self.pka_value', 'PK') == rt.replace('self.model_pka', 'PK') or \
            lt.replace('self.model_pka', 'PK') == rt.replace('self.pka_value', 'PK')
        sign_ok = (f_l and u_r and c < 0) or (u_l and f_r and c > 0)
        ok = abs(abs(c) - 1.36) < 1e-9 and same and sign_ok
        ctx.ob('C10.R4', 'folding-energy:constant-1.36', abs(abs(c) - 1.36) < 1e-9,
               'the pH-dependent term is scaled by a constant of magnitude 1.36 (found %r)' % c,
               gmod2, found[0][0])
        ctx.ob('C10.R4', 'folding-energy:same-function-of-pK', same,
               'the folded and unfolded terms are the same function of (pH - pK): %s vs %s'
               % (lt, rt), gmod2, found[0][0])
        ctx.ob('C10.R4', 'folding-energy:folded-minus-unfolded', sign_ok,
               'the term is -1.36 * (f(predicted pKa) - f(model pKa)) (or the equivalent with '
               'both signs flipped)', gmod2, found[0][0])
    else:
        ctx.ob('C10.R4', 'folding-energy:term-shape', False,
               'cannot identify a single C * (f(pK_a) - f(pK_b)) term depending on pH: %s'
               % detail, gmod2, fe)
    # non-titratable -> 0 before anything is computed
    first_ret = None
    for stmt in fe.body:
        if isinstance(stmt, ast.If) and norm(stmt.test) == 'not self.titratable':
            first_ret = stmt
    zero_ok = first_ret is not None and len(effective(first_ret.body)) == 1 and \
        isinstance(effective(first_ret.body)[0], ast.Return) and \
        try_fold(effective(first_ret.body)[0].value) == 0
    ctx.ob('C10.R4', 'folding-energy:zero-for-non-titratable', zero_ok,
           'non-titratable groups contribute exactly 0', gmod2, first_ret or fe)
    # ... and only those: the charge curves add up every titratable group
    # (charge-sum rule), so proton linkage d(dG)/dpH = 1.36 (Qf - Qu) needs the
    # energy of every titratable group as well.  Every return of the function
    # other than the computed term stands under `not self.titratable` alone.
    extra = []
    for r in walk_no_nested(fe):
        if not isinstance(r, ast.Return):
            continue
        facts = [(norm(e), p) for e, p in facts_at(r, fe)]
        about_group = [(t, p) for t, p in facts if 'self.' in t and t not in ('ph is None', 'reference is None')]
        constant = r.value is None or try_fold(r.value) is not None
        allowed = ([('self.titratable', False)], [('not self.titratable', True)]) if constant \
            else ([('self.titratable', True)], [('not self.titratable', False)], [])
        if (about_group or constant) and about_group not in allowed:
            extra.append((r, about_group))
    ctx.ob('C10.R4', 'folding-energy:zero-only-for-non-titratable', not extra,
           'no other state of the group (penalised, coupled, buried ...) short-cuts its folding '
           'energy: the charge curves count every titratable group, so would-be exceptions break '
           'the linkage between the two profiles (returns under: %s)'
           % [a for _r, a in extra][:2], gmod2, extra[0][0] if extra else fe)
    # ph default wiring: ph None -> parameters.pH
    cc = prog.mod('conformation_container')
    cfe = cc.func('ConformationContainer.calculate_folding_energy')
    loops = [n for n in walk_no_nested(cfe) if isinstance(n, ast.For)]
    sum_ok = False
    if len(loops) == 1 and norm(loops[0].iter) == 'self.groups':
        aug = [s for s in loops[0].body if isinstance(s, ast.AugAssign)
               and isinstance(s.op, ast.Add) and 'calculate_folding_energy' in norm(s.value)]
        init = [s for s in cfe.body if isinstance(s, ast.Assign) and try_fold(s.value) == 0]
        rets = [r for r in walk_no_nested(cfe) if isinstance(r, ast.Return)]
        sum_ok = len(aug) == 1 and len(effective(loops[0].body)) == 1 and bool(init) and len(rets) == 1 \
            and norm(rets[0].value) == norm(aug[0].target) and \
            'ph=ph' in norm(aug[0].value).replace(' ', '') and \
            'reference=reference' in norm(aug[0].value).replace(' ', '')
    common.check_charge_sum_unconditional(ctx, 'C10.R4', prog)
    ctx.ob('C10.R4', 'folding-energy:sum-over-all-groups', sum_ok,
           'the conformation energy is the plain sum over all groups, at the same pH and '
           'reference, starting from 0', cc, cfe)

    # ------------------------------------------------------------------ R5
    opts = common.parser_options(prog)
    for flag, dest in (('-g', 'grid'), ('-w', 'window')):
        o = [x for x in opts if flag in x['flags']]
        ok = len(o) == 1 and o[0].get('dest') == dest and o[0].get('nargs') == 3 \
            and o[0].get('type') == 'float'
        ctx.ob('C10.R5', 'option:%s' % flag, ok,
               '%s takes three floats into options.%s' % (flag, dest), prog.mod('lib'),
               o[0]['node'] if o else prog.mod('lib').func('build_parser'))
    for qual, meth in (('get_folding_profile_section', 'get_folding_profile'),
                       ('get_charge_profile_section', 'get_charge_profile')):
        fn = out.func(qual)
        calls = [c for c in calls_in(fn, nested=False) if last_attr(c) == meth]
        ok = len(calls) == 1 and any(kw.arg == 'grid' and norm(kw.value).endswith('options.grid')
                                     for kw in calls[0].keywords)
        ctx.ob('C10.R5', 'grid-passed:' + qual, ok,
               '%s computes its profile on options.grid' % qual, out, calls[0] if calls else fn)
    wp = out.func('write_pka')
    calls = [c for c in calls_in(wp, nested=False) if call_name(c) == 'get_folding_profile_section']
    ok = len(calls) == 1 and any(kw.arg == 'window' and norm(kw.value).endswith('options.window')
                                 for kw in calls[0].keywords)
    ctx.ob('C10.R5', 'window-passed:write_pka', ok,
           'write_pka prints the folding profile in options.window', out,
           calls[0] if calls else wp)
    ctx.assume('the differential identity d(dG)/d(pH) = 1.36 (Q_folded - Q_unfolded) itself is '
               'calculus and is not decided; only constant, pairing and sameness of the two terms')


def _literal_number(node):
    v = try_fold(node)
    if v is not None:
        return float(v)
    if isinstance(node, ast.Call) and call_name(node) in ('Decimal', 'decimal.Decimal') \
            and node.args and isinstance(node.args[0], ast.Constant):
        try:
            return float(node.args[0].value)
        except (TypeError, ValueError):
            return None
    return None
