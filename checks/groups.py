"""Facts about the Group class family (group.py), shared by C01/C12/C14/C18."""
import ast

from sa.astutil import dotted, norm, walk_no_nested, call_name, calls_in
from sa.loader import AnalysisError


def group_classes(prog):
    """{class name: ClassDef} for Group and every (transitive) subclass."""
    mod = prog.mod('group')
    res = {}
    if 'Group' not in mod.classes:
        raise AnalysisError('anchor missing: class group.Group')
    changed = True
    res['Group'] = mod.classes['Group']
    while changed:
        changed = False
        for name, cls in mod.classes.items():
            if name in res:
                continue
            if any(dotted(b) in res for b in cls.bases):
                res[name] = cls
                changed = True
    return res


def group_types(prog):
    """class -> {'type': [(literal, node)], 'residue_type': [(literal|None, node)]}
    from ``self.type = ...`` / ``self.residue_type = ...`` in ``__init__``."""
    mod = prog.mod('group')
    res = {}
    for name, cls in group_classes(prog).items():
        info = {'type': [], 'residue_type': []}
        init = mod.funcs.get(name + '.__init__')
        if init is not None:
            for node in walk_no_nested(init):
                if isinstance(node, ast.Assign) and len(node.targets) == 1:
                    tgt = norm(node.targets[0])
                    if tgt in ('self.type', 'self.residue_type'):
                        val = node.value.value if isinstance(node.value, ast.Constant) else None
                        info[tgt[5:]].append((val, node))
        res[name] = info
    return res


def class_type(types, cname):
    """The single literal type of a class (inherited from Group -> '')."""
    vals = [v for v, _n in types[cname]['type']]
    if cname == 'Group':
        return ''
    lits = [v for v in vals if v is not None]
    return lits


def residue_type_to_group_type(prog, cfg):
    """{residue type: {group types}}: through protein_group_mapping rows
    (RES-ATOM -> class), the terminus classes, and ligand classes whose
    residue_type literal equals the key."""
    types = group_types(prog)
    res = {}
    mapping = cfg.get('protein_group_mapping')
    for key, cls in mapping.items():
        resname = key.split('-')[0]
        cname = cls + 'Group'
        if cname in types:
            for tp in class_type(types, cname):
                res.setdefault(resname, set()).add(tp)
    for term, cname in terminal_classes(prog).items():
        if cname in types:
            for tp in class_type(types, cname):
                res.setdefault(term, set()).add(tp)
    for cname, info in types.items():
        for rt, _node in info['residue_type']:
            if rt is not None:
                for tp in class_type(types, cname):
                    res.setdefault(rt, set()).add(tp)
    return res


def terminal_classes(prog):
    """{'N+': class, 'C-': class} from the ``atom.terminal == X`` tests of
    is_protein_group."""
    fn = prog.mod('group').func('is_protein_group')
    res = {}
    for node in walk_no_nested(fn):
        if isinstance(node, ast.If) and isinstance(node.test, ast.Compare) \
                and norm(node.test.left).endswith('.terminal') \
                and isinstance(node.test.ops[0], ast.Eq) \
                and isinstance(node.test.comparators[0], ast.Constant):
            for body_stmt in node.body:
                for stmt in ast.walk(body_stmt):
                    if isinstance(stmt, ast.Return) and isinstance(stmt.value, ast.Call):
                        res[node.test.comparators[0].value] = call_name(stmt.value)
    return res


def classifier_returns(prog, funcname):
    """[(Return node, class name or None)] for a classifier function."""
    fn = prog.mod('group').func(funcname)
    out = []
    for node in walk_no_nested(fn):
        if isinstance(node, ast.Return):
            cname = None
            if isinstance(node.value, ast.Call):
                cname = call_name(node.value)
            out.append((node, cname))
    return fn, out
