"""C05 - parts of a structure beyond interaction range do not influence each other.

R1 guard dominance on geometric pair loops, R2 cut-off table bound (<= 20 A),
R3 nullable closest pair / infinite sentinel.
"""
import ast

from sa import callgraph, typestate
from sa.astutil import (effective, func_params, anorm, call_name, calls_in, dotted, norm, walk_no_nested, last_attr,
                        names_in, fact_texts, facts_at, enclosing_loops, is_inf, try_fold,
                        guards_of, flatten_and)
from sa.loader import AnalysisError
from sa.canon import canon
from sa.tables import Cfg, module_constants
from checks.c02 import make_world
from checks import common

DIST_PRIMS = ('squared_distance', 'distance', 'get_smallest_distance', 'angle_distance_factors')
HORIZON = 20.0


def _dist_vars(fn):
    """{local name: (primitive, squared?)} for locals assigned from a distance
    primitive (directly or by unpacking)."""
    res = {}
    for node in walk_no_nested(fn):
        if isinstance(node, ast.Assign) and isinstance(node.value, ast.Call):
            prim = (call_name(node.value) or '').split('.')[-1]
            if prim in DIST_PRIMS:
                tgt = node.targets[0]
                if isinstance(tgt, ast.Name):
                    res[tgt.id] = (prim, prim == 'squared_distance', node)
                elif isinstance(tgt, (ast.Tuple, ast.List)):
                    for i, e in enumerate(tgt.elts):
                        if isinstance(e, ast.Name) and not e.id.startswith('_'):
                            # get_smallest_distance -> (atom, dist, atom);
                            # angle_distance_factors -> (dist12, f_angle, dist23)
                            if prim == 'get_smallest_distance' and i == 1:
                                res[e.id] = (prim, False, node)
                            if prim == 'angle_distance_factors' and i in (0, 2):
                                res[e.id] = (prim, False, node)
    return res


def _cutoff_kind(expr, fn, consts):
    """Classify the right-hand side of a distance comparison:
    ('param', name, squared?) | ('pair', var) | ('const', value) | None."""
    name = dotted(expr)
    if name is not None:
        last = name.split('.')[-1]
        if 'parameters' in name.split('.') and 'cutoff' in last:
            return ('param', last, last.endswith('_squared'))
        if name in consts:
            return ('const', consts[name], False)
        # element of a cut-off pair fetched from a parameter table
        for node in walk_no_nested(fn):
            if isinstance(node, ast.Assign):
                for sub in ast.walk(node.targets[0]):
                    if isinstance(sub, ast.Name) and sub.id == name and \
                            isinstance(node.targets[0], (ast.Tuple, ast.List)):
                        src = norm(node.value)
                        if 'parameters' in src or 'get_' in src:
                            return ('pair', name, False)
    if isinstance(expr, ast.Subscript) and isinstance(expr.value, ast.Name) \
            and 'cutoff' in expr.value.id:
        return ('pair', norm(expr), False)
    val = try_fold(expr, consts)
    if val is not None:
        return ('const', val, False)
    return None


def run(ctx):
    prog = ctx.prog
    cfg = Cfg(prog)
    cg, reach, world = make_world(prog)

    # ------------------------------------------------------------------ R4
    # separations up to the limits of the coordinate field: full-width values
    # (>= 1000.000 or <= -100.000) touch the neighbouring field
    common.check_fixed_columns(ctx, 'C05.R4', prog, ['x', 'y', 'z'])

    # ------------------------------------------------------------------ R5
    # a combined file is read by one sequential scan: the chain-terminus state
    # left behind by the first part must not be consumed by anything but the
    # first ATOM residue of the next chain
    from checks.recordloop import RecordLoop, check_terminus_latch
    from checks.recordloop import check_raw_record_fields
    rl5 = RecordLoop(prog)
    check_terminus_latch(ctx, 'C05.R5', rl5)
    check_raw_record_fields(ctx, 'C05.R5', rl5)

    # ------------------------------------------------------------------ R6
    # two parts placed in one file are told apart by their chain identifiers
    # (residue numbers repeat): every decision that identifies a residue must
    # include the chain, or one part's residues are taken for the other's
    from checks import c06
    labels6 = c06.Labels(prog)
    n_id = 0
    for fid6, fn6, mod6, node6, comps6, via6 in c06.identity_decisions(cg, reach, labels6):
        n_id += 1
        if 'chain' in comps6:
            continue
        ctx.ob('C05.R6', 'identity-without-chain:%s.%s:%s' % (fid6[0], fid6[1], c06.decision_key(fn6, node6)[:100]),
               False, 'residue identity decision in %s.%s is built from %s only: equally numbered '
               'residues of different chains (e.g. of two structures in one file) are confused'
               % (fid6[0], fid6[1], sorted(comps6)), mod6, node6)
    # the printed label of a hetero group carries no residue number (two copies
    # of a ligand, or two ions, in one chain share all their labels): a table
    # keyed by group labels, or a list of labels that stands for a set of groups,
    # confuses them however far apart they are.  Groups are told apart by
    # Group.__eq__ (label and residue number) or by identity.
    het = [c for c, _n, _m in labels6.defs.get('label:hetero', []) if c]
    het_has_number = bool(het) and all('number' in c for c in het)
    keyed = []
    for m7, q7, f7 in prog.all_funcs():
        for node in c06.walk_with_lambdas(f7):
            key_exprs = []
            if isinstance(node, ast.DictComp):
                key_exprs.append(node.key)
            if isinstance(node, ast.SetComp):
                key_exprs.append(node.elt)
            if isinstance(node, ast.Subscript) and isinstance(node.ctx, ast.Store):
                key_exprs.append(node.slice)
            if isinstance(node, ast.Call) and last_attr(node) in ('append', 'add', 'setdefault') and node.args:
                key_exprs.append(node.args[0])
            for k in key_exprs:
                if isinstance(k, ast.Attribute) and k.attr == 'label' and not het_has_number:
                    keyed.append((m7, q7, node))
    seen7 = {}
    for m7, q7, node in keyed:
        k7 = 'label-stands-for-group:%s.%s:%s' % (m7.name, q7, anorm(node, m7.funcs[q7])[:60])
        seen7[k7] = seen7.get(k7, 0) + 1
        if seen7[k7] > 1:
            k7 += '#%d' % seen7[k7]
        ctx.ob('C05.R6', k7, False,
               '%s.%s collects or keys groups by their printed label (%s); hetero labels have no residue '
               'number, so a second copy of a ligand or ion in the chain - at any distance - is taken '
               'for the first' % (m7.name, q7, norm(node)[:70]), m7, node)
    ctx.ob('C05.R6', 'label-stands-for-group:sites', True,
           '%d sites where a group label is stored as a key or list element (hetero label has the '
           'residue number: %s)' % (len(keyed), het_has_number), prog.mod('group'), prog.mod('group').tree)
    ctx.ob('C05.R6', 'identity-decisions:examined', n_id >= 6,
           '%d residue-identity decisions examined, all include the chain' % n_id,
           prog.mod('conformation_container'), prog.mod('conformation_container').tree)

    # a per-system quantity is computed from that system alone: the common charge
    # centre (parameter common_charge_centre) written into the groups of one
    # covalently coupled system is a function of that system's groups, not of
    # every coupled group of the conformation (a ligand 1200 A away)
    ccm5 = prog.mod('conformation_container')
    sccc = ccm5.func('ConformationContainer.set_common_charge_centres')
    can5 = canon(sccc)
    sys_loops = [n for n in walk_no_nested(sccc) if isinstance(n, ast.For) and n in sccc.body]
    okc, whyc = False, 'no loop over coupled systems'
    if len(sys_loops) == 1 and isinstance(sys_loops[0].target, ast.Name):
        lp = sys_loops[0]
        sys_text = 'each(%s)' % can5.text(lp.iter)
        stores = [st for st in ast.walk(lp) if isinstance(st, ast.Assign)
                  and any(isinstance(x, ast.Attribute) and x.attr in ('x', 'y', 'z')
                          and isinstance(x.ctx, ast.Store) for t in st.targets for x in ast.walk(t))]
        okc = bool(stores)
        whyc = '%d stores' % len(stores)
        for st in stores:
            t = can5.text(st.value, define=True).replace(sys_text, 'SYSTEM')
            if 'self.' in t or 'SYSTEM' not in t:
                okc = False
                whyc = 'the stored centre reads %s' % t[:120]
    ctx.ob('C05.R6', 'common-charge-centre:from-own-system-only', okc,
           'the centre written into the groups of a coupled system is computed from the groups of '
           'that system only (%s)' % whyc, ccm5, sys_loops[0] if sys_loops else sccc)

    # ------------------------------------------------------------------ R1
    n_loops = 0
    for fid in sorted(reach):
        fn = cg.funcs[fid]
        mod = cg.mod_of[fid]
        consts = module_constants(mod, True)
        dvars = _dist_vars(fn)
        in_loop = {k: v for k, v in dvars.items() if enclosing_loops(v[2], fn)}
        if not in_loop:
            continue
        # effect statements inside the loops that compute the distance
        effects = []
        for node in walk_no_nested(fn):
            lps = enclosing_loops(node, fn)
            if not lps:
                continue
            if isinstance(node, ast.Call):
                if last_attr(node) == 'append' and typestate._owner_of_det_list(node.func.value):
                    effects.append((node, 'determinant appended'))
                else:
                    for n2, targets, _k in cg.sites.get(fid, []):
                        if n2 is node and any(
                                world.summaries.get(t) is not None and world.summaries[t].dirty
                                and not callgraph.versionA_exclude(t) for t in targets) \
                                and last_attr(node) not in ('calculate_desolvation',):
                            effects.append((node, 'call that creates determinants'))
                        if n2 is node and any(world.summaries.get(t) is not None
                                              and world.summaries[t].mut_params for t in targets) \
                                and any(isinstance(a, ast.Name) and 'interaction' in a.id
                                        for a in node.args):
                            effects.append((node, 'call that records an interaction'))
            elif isinstance(node, ast.AugAssign) and isinstance(node.op, ast.Add):
                tgt = norm(node.target)
                flows = tgt.endswith(('.num_volume', '.energy_volume', '.energy_local'))
                if isinstance(node.target, ast.Name):
                    # local accumulator that reaches an energy field later
                    nm = node.target.id
                    for n3 in walk_no_nested(fn):
                        if isinstance(n3, ast.Assign) and isinstance(n3.targets[0], ast.Attribute) \
                                and n3.targets[0].attr in ('energy_volume', 'energy_local',
                                                           'num_volume', 'buried'):
                            deps = names_in(n3.value)
                            seen = set()
                            todo = list(deps)
                            while todo:
                                d = todo.pop()
                                if d in seen:
                                    continue
                                seen.add(d)
                                for n4 in walk_no_nested(fn):
                                    if isinstance(n4, ast.Assign) and norm(n4.targets[0]) == d:
                                        todo.extend(names_in(n4.value))
                            if nm in seen:
                                flows = True
                if flows:
                    effects.append((node, 'accumulation into a desolvation/buried term'))
        if not effects:
            continue
        n_loops += 1
        for node, what in effects:
            ok, why = False, 'no dominating distance comparison'
            for expr, pol in facts_at(node, fn):
                if not (isinstance(expr, ast.Compare) and len(expr.ops) == 1):
                    continue
                op = expr.ops[0]
                left, right = expr.left, expr.comparators[0]
                lname = norm(left)
                if lname not in dvars:
                    continue
                below = (isinstance(op, (ast.Lt, ast.LtE)) and pol) or \
                    (isinstance(op, (ast.GtE, ast.Gt)) and not pol)
                if not below:
                    continue
                kind = _cutoff_kind(right, fn, consts)
                if kind is None:
                    why = 'compared with %s, which is not a cut-off' % norm(right)
                    continue
                sq_d = dvars[lname][1]
                if kind[0] == 'param' and kind[2] != sq_d:
                    why = ('%s distance %s compared with %s cut-off %s' % (
                        'squared' if sq_d else 'plain', lname,
                        'squared' if kind[2] else 'plain', kind[1]))
                    continue
                if kind[0] in ('pair', 'const') and sq_d:
                    why = 'squared distance compared with a plain cut-off %s' % norm(right)
                    continue
                if kind[0] == 'const' and kind[1] > HORIZON:
                    why = 'constant cut-off %s exceeds the %g A horizon' % (kind[1], HORIZON)
                    continue
                ok, why = True, '%s %s %s' % (lname, '<' if pol else 'not >=', norm(right))
                break
            key = 'guard:%s.%s:%s' % (fid[0], fid[1], anorm(node, fn)[:60])
            ctx.ob('C05.R1', key, ok,
                   '%s in a pair loop of %s.%s must be dominated by "distance below cut-off" on a '
                   'distance of the two loop objects, with matching power (%s)'
                   % (what, fid[0], fid[1], why), mod, node)
    ctx.note('geometric_pair_loops', n_loops)
    ctx.need('C05.R1', 6)
    # inner gates of the pairwise kernels
    emod = prog.mod('energy')
    hbi = emod.func('hydrogen_bond_interaction')
    can = canon(hbi)
    gate = []
    for n in walk_no_nested(hbi):
        if isinstance(n, ast.If) and isinstance(n.test, ast.Compare) and len(n.test.ops) == 1 \
                and isinstance(n.test.ops[0], (ast.Lt, ast.LtE)) \
                and len(effective(n.body)) == 1 and isinstance(effective(n.body)[0], ast.Return) \
                and (effective(n.body)[0].value is None or norm(effective(n.body)[0].value) == 'None'):
            # comparisons are read in `<` form: <outer cut-off> <= <distance>
            right, left = can.text(n.test.left), can.text(n.test.comparators[0])
            if left.startswith('get_smallest_distance(') and left.endswith(')[1]') \
                    and '.get_hydrogen_bond_parameters(' in right and right.endswith(')[1][1]'):
                gate.append(n)
    ctx.ob('C05.R1', 'kernel:hydrogen-bond-outer-cutoff', len(gate) == 1,
           'hydrogen_bond_interaction returns None when the closest atoms are beyond the outer '
           'cut-off of the pair', emod, gate[0] if gate else hbi)
    ccp = emod.func('check_coulomb_pair')
    cparams = func_params(ccp)
    can = canon(ccp)
    far = []
    for n in walk_no_nested(ccp):
        if isinstance(n, ast.If) and isinstance(n.test, ast.Compare) and len(n.test.ops) == 1 \
                and isinstance(n.test.ops[0], (ast.Lt, ast.LtE)) \
                and can.text(n.test.comparators[0]) == cparams[3] \
                and can.text(n.test.left) == cparams[0] + '.coulomb_cutoff2' \
                and len(effective(n.body)) == 1 and isinstance(effective(n.body)[0], ast.Assign) \
                and isinstance(effective(n.body)[0].value, ast.Constant) \
                and effective(n.body)[0].value.value is False:
            # the flag assigned here is the one returned
            flag = norm(effective(n.body)[0].targets[0])
            if any(isinstance(r, ast.Return) and r.value is not None and norm(r.value) == flag
                   for r in walk_no_nested(ccp)):
                far.append(n)
    ctx.ob('C05.R1', 'kernel:coulomb-outer-cutoff', len(far) == 1,
           'check_coulomb_pair rejects pairs beyond coulomb_cutoff2', emod, far[0] if far else ccp)

    # ------------------------------------------------------------------ R2
    pmod = prog.mod('parameters')
    anchor = pmod.cls('Parameters')

    def bound(key, val, what):
        ctx.ob('C05.R2', 'horizon:' + key, val <= HORIZON + 1e-9,
               '%s = %g A does not exceed the %g A interaction horizon named in the property'
               % (what, val, HORIZON), pmod, anchor)
    for name in ('desolv_cutoff', 'buried_cutoff', 'coulomb_cutoff2', 'coulomb_cutoff1'):
        bound(name, cfg.num(name), name)
    sc = cfg.get('sidechain_cutoffs')
    bound('sidechain-default', sc['default'][1], 'default side-chain outer cut-off')
    for ln, g1, g2, (c1, c2) in sc['rows']:
        bound('sidechain:%s-%s' % (g1, g2), c2, 'side-chain outer cut-off %s/%s' % (g1, g2))
    for tbl in ('backbone_NH_hydrogen_bond', 'backbone_CO_hydrogen_bond'):
        for key, vals in cfg.get(tbl).items():
            if len(vals) == 3:
                bound('%s:%s' % (tbl, key), vals[2], '%s outer cut-off %s' % (tbl, key))
    econst = module_constants(emod, True)
    if 'UNK_BACKBONE_DISTANCE1' in econst:
        bound('UNK_BACKBONE_DISTANCE1', econst['UNK_BACKBONE_DISTANCE1'],
              'backbone reorganisation distance')
    ctx.need('C05.R2', 100)

    # ------------------------------------------------------------------ R3
    cmod = prog.mod('calculations')
    gsd = cmod.func('get_smallest_distance')
    cconst = module_constants(cmod, False)
    inits = [s for s in gsd.body if isinstance(s, ast.Assign)
             and isinstance(s.targets[0], ast.Name)]
    # the variable compared with the running squared distance
    cmp_ = [n for n in walk_no_nested(gsd) if isinstance(n, ast.Compare)
            and isinstance(n.ops[0], (ast.Lt, ast.LtE))]
    best = norm(cmp_[0].comparators[0]) if cmp_ else None
    init = next((s for s in inits if norm(s.targets[0]) == best), None)
    inf_ok = False
    detail = 'initial value not found'
    if init is not None:
        v = init.value
        if is_inf(v):
            inf_ok = True
        else:
            name = dotted(v)
            mv = cmod.module_assigns().get(name) if name else None
            if mv is not None and is_inf(mv):
                inf_ok = True
            val = try_fold(v, {k: x for k, x in cconst.items() if isinstance(x, (int, float))})
            if val is not None and not inf_ok:
                squared = any((call_name(c) or '').endswith('squared_distance') for c in calls_in(gsd))
                detail = ('finite sentinel %g compared with %s distances: atoms farther apart '
                          'than %g A are never found and the function returns (None, ., None)'
                          % (val, 'squared' if squared else 'plain', val ** 0.5 if squared else val))
    ctx.ob('C05.R3', 'closest-pair:infinite-sentinel', inf_ok,
           'the closest-pair search starts from an infinite distance, so two non-empty lists '
           'always yield a pair' + ('' if inf_ok else ' - ' + detail), cmod, init or gsd)
    # returned atoms are the loop variables (lemma L7)
    rets = [r for r in walk_no_nested(gsd) if isinstance(r, ast.Return)]
    loops = [n for n in walk_no_nested(gsd) if isinstance(n, ast.For)]
    l7 = False
    if len(rets) == 1 and isinstance(rets[0].value, ast.Tuple) and len(loops) == 2:
        r0, r2 = norm(rets[0].value.elts[0]), norm(rets[0].value.elts[2])
        lv = {norm(l.target): norm(l.iter) for l in loops}
        defs = {norm(s.targets[0]): norm(s.value) for s in walk_no_nested(loops[0])
                if isinstance(s, ast.Assign)}
        params = [a.arg for a in gsd.args.args]
        l7 = defs.get(r0) in lv and defs.get(r2) in lv and \
            lv[defs[r0]] == params[0] and lv[defs[r2]] == params[1]
    ctx.ob('C05.R3', 'closest-pair:returns-members', l7,
           'the returned atoms are elements of the first and second argument list respectively '
           '(lemma L7)', cmod, rets[0] if rets else gsd)
    # call sites
    n_sites = 0
    for fid in sorted(reach):
        fn = cg.funcs[fid]
        mod = cg.mod_of[fid]
        for node in walk_no_nested(fn):
            if not (isinstance(node, ast.Assign) and isinstance(node.value, ast.Call)
                    and (call_name(node.value) or '').split('.')[-1] == 'get_smallest_distance'):
                continue
            n_sites += 1
            tgt = node.targets[0]
            atoms = [norm(tgt.elts[0]), norm(tgt.elts[2])] if isinstance(tgt, (ast.Tuple, ast.List)) \
                and len(tgt.elts) == 3 else []
            args = [norm(a) for a in node.value.args]
            # (a) None handled: an `X is None` early exit right after
            handled = set()
            blk = node._parent
            body = None
            for fld in ('body', 'orelse'):
                if node in getattr(blk, fld, []):
                    body = getattr(blk, fld)
            if body is not None:
                for stmt in body[body.index(node) + 1:]:
                    if isinstance(stmt, ast.If):
                        from sa.astutil import block_always_exits
                        if block_always_exits(stmt.body):
                            for e, p in flatten_and(stmt.test, False):
                                t = norm(e)
                                for a in atoms:
                                    # facts are read positively: not (X is None) == X is not None
                                    if (t == '%s is not None' % a and p) or (t == '%s is None' % a and not p):
                                        handled.add(a)
                    elif isinstance(stmt, ast.Assert):
                        continue
                    else:
                        break
            # asserts are not handling
            asserts = [s for s in (body or []) if isinstance(s, ast.Assert)
                       and any(('%s is not None' % a) in norm(s.test) for a in atoms)]
            # (b) both lists proven non-empty on the path
            nonempty = set()
            for e, p in facts_at(node, fn):
                t = norm(e)
                for a in args:
                    if (t == a and p) or (t == 'not ' + a and not p):
                        nonempty.add(a)
            key = 'closest-pair-site:%s.%s' % (fid[0], fid[1])
            if len(handled) == 2:
                ctx.ob('C05.R3', key, True,
                       'the None result of the closest-pair search is handled without raising',
                       mod, node)
            elif len(nonempty) == 2:
                ctx.ob('C05.R3', key, inf_ok,
                       'both lists are guarded non-empty, so the result is not None provided the '
                       'search starts from an infinite distance%s' % (
                           '' if inf_ok else ' - it does not: ' + (
                               'the assert after it fails for distant groups' if asserts
                               else 'the result is dereferenced')), mod, asserts[0] if asserts else node)
            else:
                ok, why = _lemma_same_lists(prog, cg, fid, node)
                ctx.ob('C05.R3', key, ok and inf_ok,
                       'the result is dereferenced without a test; accepted only because %s'
                       % why, mod, node)
    ctx.ob('C05.R3', 'closest-pair-sites:count', n_sites >= 4,
           '%d call sites of the closest-pair search examined' % n_sites, cmod, gsd)
    ctx.note('advisory_A4', 'iterative.add_determinants tests convergence over all iteratives at '
                            'once (a numeric fix-point question, not decided)')
    ctx.assume('that an already converged cluster stays bit-identical while another keeps '
               'iterating is a numeric question and is not decided')


def _lemma_same_lists(prog, cg, fid, node):
    """check_coo_coo_exception: reached only through check_exceptions from
    hydrogen_bond_interaction after the None test on the same two lists."""
    if fid != ('energy', 'check_coo_coo_exception'):
        return False, 'no lemma covers this site'
    callers = [c for c in cg.callers_of(fid) if not callgraph.versionA_exclude(c)]
    if callers != [('energy', 'check_exceptions')]:
        return False, 'unexpected callers %s' % callers
    hbi = prog.mod('energy').func('hydrogen_bond_interaction')
    calls = [c for c in calls_in(hbi, nested=False) if last_attr(c) == 'check_exceptions']
    if len(calls) != 1:
        return False, 'check_exceptions is not called once from hydrogen_bond_interaction'
    can = canon(hbi)
    hp = func_params(hbi)
    lists = ['%s.get_interaction_atoms(%s)' % (hp[0], hp[1]), '%s.get_interaction_atoms(%s)' % (hp[1], hp[0])]
    gsd_call = 'get_smallest_distance(%s, %s)' % tuple(lists)
    pos = {can.text(e) for e, p in facts_at(calls[0], hbi) if p}
    guarded = {gsd_call + '[0] is not None', gsd_call + '[2] is not None'} <= pos
    same = [can.text(a) for a in calls[0].args][:2] == hp[:2]
    fn = prog.mod('energy').func('check_coo_coo_exception')
    fp = func_params(fn)
    can2 = canon(fn)
    own_calls = [can2.text(c) for c in calls_in(fn, nested=False)
                 if (call_name(c) or '').split('.')[-1] == 'get_smallest_distance']
    same = same and own_calls == ['get_smallest_distance(%s.get_interaction_atoms(%s), '
                                  '%s.get_interaction_atoms(%s))' % (fp[0], fp[1], fp[1], fp[0])]
    other = [c for c in cg.callers_of(('energy', 'check_exceptions'))
             if not callgraph.versionA_exclude(c)]
    via_version = set(other) <= {('version', 'Version.check_exceptions'),
                                 ('version', 'VersionA.__init__')}
    return guarded and same and via_version, (
        'it runs only after hydrogen_bond_interaction found a non-None closest pair for the same '
        'two interaction-atom lists (guarded=%s, same lists=%s)' % (guarded, same))
