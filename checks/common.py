"""Rules shared by several properties (lemmas L1.. and sibling clauses)."""
import ast

from sa.astutil import (call_name, calls_in, dotted, fact_texts, last_attr, norm,
                        walk_no_nested, block_always_exits, facts_at, positive_fact)
from sa.loader import AnalysisError


def is_nonempty_test(test, text):
    """Does ``test`` hold exactly when the container written ``text`` is
    non-empty?  Accepts every spelling the loader leaves of it: truthiness,
    ``len(x)``, ``0 < len(x)``, ``1 <= len(x)``, ``len(x) != 0``."""
    t = norm(test).replace(' ', '')
    x = text.replace(' ', '')
    return t in (x, 'len(%s)' % x, '0<len(%s)' % x, '1<=len(%s)' % x,
                 'len(%s)!=0' % x, '0!=len(%s)' % x)


def resolve_self_method(mod, cls, call):
    """FunctionDef for ``self.m(...)`` inside class ``cls`` of ``mod``."""
    if isinstance(call.func, ast.Attribute) and dotted(call.func.value) == 'self':
        return mod.funcs.get(cls + '.' + call.func.attr)
    return None


def compare_thresholds(func):
    res = []
    for node in walk_no_nested(func):
        if isinstance(node, ast.Compare) and len(node.ops) == 1:
            res.append((norm(node.left), type(node.ops[0]).__name__,
                        norm(node.comparators[0]), node))
    return res


def _append_sites(func, list_attr):
    """Calls ``X.<list_attr>.append(Y)`` in func -> [(call, X text, Y text)]."""
    res = []
    for call in calls_in(func, nested=False):
        if last_attr(call) == 'append' and isinstance(call.func.value, ast.Attribute) \
                and call.func.value.attr == list_attr and len(call.args) == 1:
            res.append((call, norm(call.func.value.value), norm(call.args[0])))
    return res


def check_make_bond(ctx, rule, mod):
    fn = mod.func('BondMaker.make_bond')
    params = [a.arg for a in fn.args.args if a.arg not in ('self', 'cls')]
    if len(params) != 2:
        raise AnalysisError('make_bond does not take two atoms')
    a, b = params
    sites = _append_sites(fn, 'bonded_atoms')
    dirs = sorted((x, y) for _c, x, y in sites)
    ctx.ob(rule, 'make_bond:both-directions', dirs == sorted([(a, b), (b, a)]),
           'make_bond appends each atom to the other atom\'s bond list (found %s)' % dirs,
           mod, fn)
    for call, x, y in sites:
        facts = fact_texts(call, fn)
        guard = any((not p) and norm_in(t, y, x) for t, p in facts) or \
            any(p and t.replace(' ', '') == ('%snotin%s.bonded_atoms' % (y, x)) for t, p in facts)
        ctx.ob(rule, 'make_bond:no-duplicate:%s->%s' % (x, y), guard,
               'the append of %s to %s.bonded_atoms is guarded by a not-in test '
               '(no duplicate bond entries)' % (y, x), mod, call)
    # irreflexive: early return on atom1 == atom2 (or `is`)
    first = fn.body[0] if not isinstance(fn.body[0], ast.Expr) else (
        fn.body[1] if len(fn.body) > 1 else None)
    irr = False
    for stmt in fn.body:
        if isinstance(stmt, ast.If) and isinstance(stmt.test, ast.Compare) \
                and isinstance(stmt.test.ops[0], (ast.Eq, ast.Is)) \
                and {norm(stmt.test.left), norm(stmt.test.comparators[0])} == {a, b} \
                and block_always_exits(stmt.body):
            irr = True
            break
        if any(last_attr(c) == 'append' for c in calls_in(stmt)):
            break
    ctx.ob(rule, 'make_bond:irreflexive', irr,
           'make_bond returns before any append when both arguments are the same atom',
           mod, fn)


def norm_in(text, item, owner):
    """``item in owner.bonded_atoms`` (as negated fact)."""
    return text.replace(' ', '') == ('%sin%s.bonded_atoms' % (item, owner)).replace(' ', '')


def check_bond_writers(ctx, rule, prog):
    """L1: every write to a ``bonded_atoms`` list is in a function that also
    performs the mirrored write (or is the empty initialisation / a filter of
    the same list)."""
    writers = {}
    for mod, qual, fn in prog.all_funcs():
        for node in walk_no_nested(fn):
            site = None
            if isinstance(node, ast.Call) and last_attr(node) in (
                    'append', 'remove', 'extend', 'insert', 'pop', 'clear') \
                    and isinstance(node.func.value, ast.Attribute) \
                    and node.func.value.attr == 'bonded_atoms':
                site = ('call:' + node.func.attr, norm(node.func.value.value),
                        norm(node.args[0]) if node.args else '')
            elif isinstance(node, (ast.Assign, ast.AugAssign, ast.AnnAssign)):
                tgts = node.targets if isinstance(node, ast.Assign) else [node.target]
                for t in tgts:
                    if isinstance(t, ast.Attribute) and t.attr == 'bonded_atoms':
                        site = ('store', norm(t.value),
                                norm(node.value) if node.value is not None else '')
                    if isinstance(t, ast.Subscript) and isinstance(t.value, ast.Attribute) \
                            and t.value.attr == 'bonded_atoms':
                        site = ('item-store', norm(t.value.value), norm(node.value))
            if site is not None:
                writers.setdefault((mod, qual, fn), []).append((site, node))
    for (mod, qual, fn), sites in sorted(writers.items(), key=lambda kv: (kv[0][0].name, kv[0][1])):
        kinds = [s for s, _n in sites]
        ok = False
        why = ''
        if qual.endswith('__init__') and all(k[0] == 'store' and k[2] in ('[]', 'list()') for k in kinds):
            ok, why = True, 'empty initialisation'
        else:
            # mirrored pair: X.bonded_atoms gets Y and Y.bonded_atoms gets X
            edges = set()
            for k, node_ in sites:
                if _is_filter_of_own_list(node_):
                    continue        # dropping entries from one's own list adds no edge
                if k[0] == 'call:append':
                    edges.add((k[1], k[2]))
                elif k[0] == 'store' and k[2].startswith('[') and k[2].endswith(']'):
                    edges.add((k[1], k[2][1:-1]))
                else:
                    edges.add(('?', '?'))
            ok = all((b, a) in edges for a, b in edges) and ('?', '?') not in edges
            why = 'mirrored writes %s' % sorted(edges)
        ctx.ob(rule, 'bond-writer:%s.%s' % (mod.name, qual), ok,
               'writes to bonded_atoms keep the relation symmetric (%s)' % why,
               mod, sites[0][1])
    ctx.note('bond_writers', sorted(m.name + '.' + q for (m, q, _f) in writers))
    # atoms leave a conformation together with the bonds to them: a function that
    # replaces a container's atom list by a part of it also filters the bond
    # lists of the atoms that stay (else they keep neighbours outside the atom
    # set, which are counted as bonds and serve as interaction hydrogens)
    for mod, qual, fn in prog.all_funcs():
        if qual.endswith('__init__'):
            continue
        for node in walk_no_nested(fn):
            if isinstance(node, ast.Assign) and isinstance(node.targets[0], ast.Attribute) \
                    and node.targets[0].attr == 'atoms' and isinstance(node.value, (ast.Call, ast.ListComp)):
                filters = [n for s_, n in writers.get((mod, qual, fn), []) if _is_filter_of_own_list(n)]
                ctx.ob(rule, 'atoms-leave-with-their-bonds:%s.%s' % (mod.name, qual), bool(filters),
                       '%s.%s replaces the atom list of a container by %s and filters the bond lists '
                       'of the remaining atoms in the same step (%d filtering stores)'
                       % (mod.name, qual, norm(node.value)[:60], len(filters)), mod, node)


def _is_filter_of_own_list(node):
    """``X.bonded_atoms = [v for v in X.bonded_atoms if <cond>]``"""
    if not (isinstance(node, ast.Assign) and isinstance(node.targets[0], ast.Attribute)
            and node.targets[0].attr == 'bonded_atoms' and isinstance(node.value, ast.ListComp)):
        return False
    comp = node.value
    return len(comp.generators) == 1 and isinstance(comp.elt, ast.Name) \
        and norm(comp.elt) == norm(comp.generators[0].target) \
        and norm(comp.generators[0].iter) == norm(node.targets[0]) and bool(comp.generators[0].ifs)
    if len(writers) < 3:
        raise AnalysisError('L1: fewer than 3 writers of bonded_atoms found')


def check_bridge_flag_written(ctx, rule, prog):
    """C01.R5 / C11.R5: ``cysteine_bridge`` is written only by the pair routine
    of the bond maker, for both atoms, under exactly the pair criterion and
    both elements being sulphur (no residue-name or other extra condition: a
    cysteine bonded to the sulphur of any other residue is bridged too)."""
    mod = prog.mod('bonds')
    pair = mod.func('BondMaker._find_bonds_for_atoms')
    fact_kind = pair_fact_kind(pair)
    stores = []
    for m2, q2, f2 in prog.all_funcs():
        for node in walk_no_nested(f2):
            if isinstance(node, (ast.Assign, ast.AugAssign, ast.AnnAssign)):
                tgts = node.targets if isinstance(node, ast.Assign) else [node.target]
                for t in tgts:
                    if isinstance(t, ast.Attribute) and t.attr == 'cysteine_bridge':
                        stores.append((m2, q2, f2, node, t))
    in_pair = [s for s in stores if s[2] is pair]
    ctx.ob(rule, 'bridge:only-pair-routine-writes',
           len(in_pair) == len(stores),
           'cysteine_bridge is written only by the pair routine of the bond maker '
           '(writers: %s)' % sorted({s[0].name + '.' + s[1] for s in stores}),
           stores[0][0] if stores else mod,
           next((s[3] for s in stores if s[2] is not pair), pair))
    true_stores = [s for s in in_pair if isinstance(s[3], ast.Assign)
                   and isinstance(s[3].value, ast.Constant) and s[3].value.value is True]
    pparams = [a.arg for a in pair.args.args if a.arg != 'self']
    owners = sorted(dotted(s[4].value) or '?' for s in true_stores)
    ctx.ob(rule, 'bridge:both-atoms-flagged',
           owners == sorted(pparams) and len(true_stores) == len(in_pair),
           'both atoms of the pair get cysteine_bridge = True (owners: %s)' % owners,
           mod, true_stores[0][3] if true_stores else pair)
    if true_stores:
        blocks = {id(s[3]._parent) for s in true_stores}
        kinds5 = sorted(fact_kind(e, p) for e, p in facts_at(true_stores[0][3], pair))
        want = {'criterion'} | {'sulfur:' + v for v in pparams}
        ctx.ob(rule, 'bridge:condition',
               len(blocks) == 1 and want <= set(kinds5) and
               set(kinds5) <= want | {'irreflexive', 'not-yet-bonded'},
               'the flags are set in one block, under exactly the pair criterion and both '
               'elements being sulfur (dominating facts: %s)' % kinds5, mod, true_stores[0][3])


def check_bridge_not_titrated(ctx, rule, prog):
    """C01.R5 / C11.R5: a bridged cysteine is not titratable and is reported
    with the fixed value."""
    mod = prog.mod('group')
    setup = mod.func('Group.setup')
    stores = [n for n in walk_no_nested(setup) if isinstance(n, ast.Assign)
              and norm(n.targets[0]) == 'self.titratable'
              and isinstance(n.value, ast.Constant) and n.value.value is True]
    ok = bool(stores)
    for st in stores:
        facts = fact_texts(st, setup)
        ok = ok and any((not p) and t == 'self.atom.cysteine_bridge' for t, p in facts)
    ctx.ob(rule, 'setup:titratable-needs-no-bridge', ok,
           'Group.setup sets titratable = True only where cysteine_bridge is false',
           mod, stores[0] if stores else setup)
    # other stores of titratable = True anywhere
    others = []
    for m2, q2, f2 in prog.all_funcs():
        if f2 is setup:
            continue
        for n in walk_no_nested(f2):
            if isinstance(n, ast.Assign) and any(
                    isinstance(t, ast.Attribute) and t.attr == 'titratable' for t in n.targets):
                val = norm(n.value)
                if val == 'False':
                    continue
                if q2.endswith('clone') and val.endswith('.titratable'):
                    continue
                others.append((m2, q2, n))
    ctx.ob(rule, 'titratable:no-other-enabler', not others,
           'no function other than Group.setup (and clone, copying) can make a group '
           'titratable (found %s)' % [m.name + '.' + q for m, q, _ in others],
           others[0][0] if others else mod, others[0][2] if others else setup)
    total = mod.func('Group.calculate_total_pka')
    first = None
    for stmt in total.body:
        from sa.astutil import is_inert_stmt
        if is_inert_stmt(stmt):
            continue
        first = stmt
        break
    ok = False
    if isinstance(first, ast.If) and norm(first.test) == 'self.atom.cysteine_bridge' \
            and block_always_exits(first.body):
        vals = [s for s in first.body if isinstance(s, ast.Assign)
                and norm(s.targets[0]) == 'self.pka_value']
        if len(vals) == 1:
            from sa.tables import module_constants
            from sa.astutil import try_fold
            v = try_fold(vals[0].value, module_constants(mod, True))
            ok = v is not None and abs(v - 99.99) < 1e-9
    ctx.ob(rule, 'total:bridge-fixed-99.99', ok,
           'calculate_total_pka starts by fixing a bridged cysteine at 99.99 and returning',
           mod, first or total)


def _range_args(call):
    if isinstance(call, ast.Call) and call_name(call) == 'range':
        return [norm(a) for a in call.args]
    return None


def check_all_pairs(ctx, rule, mod, fn):
    """for i in range(n): for j in range(i+1, n): f(a[i], a[j]) with n = len(a)
    (or itertools.combinations(a, 2))."""
    loops = [n for n in walk_no_nested(fn) if isinstance(n, ast.For)]
    ok, why = False, ''
    params = [a.arg for a in fn.args.args if a.arg != 'self']
    if len(loops) == 1 and isinstance(loops[0].iter, ast.Call) and \
            (call_name(loops[0].iter) or '').endswith('combinations') and \
            [norm(a) for a in loops[0].iter.args] == [params[0], '2']:
        ok = True
    elif len(loops) == 2:
        outer, inner = loops
        ro, ri = _range_args(outer.iter), _range_args(inner.iter)
        if ro and ri and isinstance(outer.target, ast.Name) and isinstance(inner.target, ast.Name):
            i, j = outer.target.id, inner.target.id
            n_def = None
            for s in fn.body:
                if isinstance(s, ast.Assign) and isinstance(s.targets[0], ast.Name) and \
                        norm(s.value) == 'len(%s)' % params[0]:
                    n_def = s.targets[0].id
            n_ok = lambda t: t in (n_def, 'len(%s)' % params[0])
            lo_ok = (len(ro) == 1 and n_ok(ro[0])) or (len(ro) == 2 and ro[0] == '0' and n_ok(ro[1]))
            in_ok = len(ri) == 2 and ri[0].replace(' ', '') in (i + '+1', '1+' + i) and n_ok(ri[1])
            calls = [c for c in calls_in(inner)
                     if [norm(a) for a in c.args] == ['%s[%s]' % (params[0], i),
                                                      '%s[%s]' % (params[0], j)]]
            unguarded = not any(isinstance(n, (ast.If, ast.Continue, ast.Break, ast.Try))
                                for n in ast.walk(outer))
            ok = lo_ok and in_ok and len(calls) == 1 and unguarded
            why = 'outer=%s inner=%s' % (ro, ri)
        # for i, a in enumerate(xs): for b in xs[i+1:]: f(a, b)
        elif isinstance(outer.iter, ast.Call) and call_name(outer.iter) == 'enumerate' \
                and [norm(a) for a in outer.iter.args] == [params[0]] and not outer.iter.keywords \
                and isinstance(outer.target, ast.Tuple) and len(outer.target.elts) == 2 \
                and all(isinstance(e, ast.Name) for e in outer.target.elts) \
                and isinstance(inner.target, ast.Name) and isinstance(inner.iter, ast.Subscript) \
                and norm(inner.iter.value) == params[0] and isinstance(inner.iter.slice, ast.Slice) \
                and inner.iter.slice.upper is None and inner.iter.slice.step is None \
                and inner.iter.slice.lower is not None:
            i, a1 = outer.target.elts[0].id, outer.target.elts[1].id
            lower = norm(inner.iter.slice.lower).replace(' ', '')
            calls = [c for c in calls_in(inner) if [norm(a) for a in c.args] == [a1, inner.target.id]]
            unguarded = not any(isinstance(n, (ast.If, ast.Continue, ast.Break, ast.Try))
                                for n in ast.walk(outer))
            ok = lower in (i + '+1', '1+' + i) and len(calls) == 1 and unguarded \
                and any(c in [x for x in ast.walk(inner)] for c in calls)
            why = 'enumerate / slice from %s' % lower
    ctx.ob(rule, 'all-pairs:' + fn.name, ok,
           'the all-pairs routine passes every unordered pair i<j of its list, once, '
           'unconditionally, to the pair routine ' + why, mod, fn)


def check_disjoint_pairs(ctx, rule, mod, fn):
    loops = [n for n in walk_no_nested(fn) if isinstance(n, ast.For)]
    params = [a.arg for a in fn.args.args if a.arg != 'self']
    ok = False
    if len(loops) == 2 and len(params) == 2:
        outer, inner = loops
        its = sorted([norm(outer.iter), norm(inner.iter)])
        tg = sorted([norm(outer.target), norm(inner.target)])
        calls = [c for c in calls_in(inner) if sorted(norm(a) for a in c.args) == tg]
        unguarded = not any(isinstance(n, (ast.If, ast.Continue, ast.Break, ast.Try))
                            for n in ast.walk(outer))
        ok = its == sorted(params) and len(calls) == 1 and unguarded and \
            any(inner is n for n in ast.walk(outer))
    ctx.ob(rule, 'disjoint-pairs:' + fn.name, ok,
           'the disjoint routine passes the full cartesian product of its two lists, '
           'once, unconditionally, to the pair routine', mod, fn)


# ---------------------------------------------------------------- inert fields
TEXT_ONLY_FUNCS = {
    ('atom', 'Atom.make_copy'): 'copies the field to the twin atom',
    ('atom', 'Atom.make_conect_line'): 'formats a CONECT record',
    ('atom', 'Atom.make_pdb_line'): 'formats a PDB record',
    ('atom', 'Atom.make_mol2_line'): 'formats a MOL2 record',
    ('atom', 'Atom.__str__'): 'debug/log text',
    ('output', 'write_mol2_for_atoms'): 'writes a MOL2 file',
}


def check_inert_fields(ctx, rule, prog, fields):
    """Fields filled from unused PDB columns are read only by copy/format
    functions (the calculation never sees them)."""
    fields = set(fields)
    readers = {}
    from sa.astutil import walk_with_lambdas
    for mod, qual, fn in prog.all_funcs():
        for node in walk_with_lambdas(fn):
            if isinstance(node, ast.Attribute) and node.attr in fields \
                    and isinstance(node.ctx, ast.Load):
                readers.setdefault((mod.name, qual), []).append((mod, node))
            if isinstance(node, ast.Call) and call_name(node) in ('getattr', 'hasattr') \
                    and len(node.args) >= 2 and isinstance(node.args[1], ast.Constant) \
                    and node.args[1].value in fields:
                readers.setdefault((mod.name, qual), []).append((mod, node))
    # format constants mentioning the fields -> their users
    from sa.astutil import format_fields, concat_str
    for mod in prog.modules.values():
        for name, val in mod.module_assigns().items():
            text = concat_str(val)
            if not isinstance(text, str) or '{' not in text:
                continue
            try:
                ffields = format_fields(text)
            except ValueError:
                continue
            hit = [f for f, _s, _c in ffields if f.split('.')[-1] in fields and '.' in f]
            if not hit:
                continue
            for m2, q2, f2 in prog.all_funcs():
                for node in walk_no_nested(f2):
                    if isinstance(node, ast.Name) and node.id == name and m2 is mod:
                        readers.setdefault((m2.name, q2), []).append((m2, node))
    # ... and format templates written (or propagated by the loader) inside a function
    for m2, q2, f2 in prog.all_funcs():
        for node in walk_no_nested(f2):
            if isinstance(node, ast.Constant) and isinstance(node.value, str) and '{' in node.value:
                try:
                    ffields = format_fields(node.value)
                except ValueError:
                    continue
                if any(f.split('.')[-1] in fields and '.' in f for f, _s, _c in ffields):
                    readers.setdefault((m2.name, q2), []).append((m2, node))
    for (mname, qual), sites in sorted(readers.items()):
        ok = (mname, qual) in TEXT_ONLY_FUNCS
        ctx.ob(rule, 'inert-field-reader:%s.%s' % (mname, qual), ok,
               'fields %s (serial / occupancy / B-factor columns) are read only by '
               'copy/format functions%s' % (
                   sorted(fields), ' (%s)' % TEXT_ONLY_FUNCS[(mname, qual)] if ok else
                   ' - this function is not one of them'),
               sites[0][0], sites[0][1])
    ctx.note('inert_field_readers', sorted('%s.%s' % k for k in readers))
    return readers


# ------------------------------------------------------------- option wiring
def parser_options(prog):
    """[{flags, dest, action, type, default, nargs, node}] from build_parser."""
    fn = prog.mod('lib').func('build_parser')
    res = []
    for call in calls_in(fn, nested=False):
        if last_attr(call) != 'add_argument':
            continue
        flags = [a.value for a in call.args if isinstance(a, ast.Constant)
                 and isinstance(a.value, str)]
        rec = {'flags': flags, 'node': call}
        for kw in call.keywords:
            if kw.arg in ('dest', 'action', 'nargs', 'const'):
                rec[kw.arg] = kw.value.value if isinstance(kw.value, ast.Constant) else norm(kw.value)
            elif kw.arg in ('type', 'default'):
                rec[kw.arg] = norm(kw.value)
        if 'dest' not in rec and flags:
            longs = [f for f in flags if f.startswith('--')]
            base = (longs[0] if longs else flags[0]).lstrip('-')
            rec['dest'] = base.replace('-', '_')
        res.append(rec)
    return res


def option_reads(prog):
    """{name: [(mod, qual, node)]} for ``<...>options.<name>`` loads.  A local
    variable that merely happens to be called ``options`` (assigned inside the
    function from something that is not the parsed options) is skipped."""
    res = {}
    for mod, qual, fn in prog.all_funcs():
        # locals holding the parsed options: assigned from loadOptions()/parse_args()
        holders = set()
        shadowed = set()
        for n in walk_no_nested(fn):
            if isinstance(n, ast.Assign):
                from_parser = isinstance(n.value, ast.Call) and (call_name(n.value) or '').endswith(
                    ('loadOptions', 'parse_args'))
                for t in n.targets:
                    if isinstance(t, ast.Name):
                        (holders if from_parser else shadowed).add(t.id)
        for node in walk_no_nested(fn):
            if isinstance(node, ast.Attribute) and isinstance(node.ctx, ast.Load):
                base = norm(node.value)
                if base in holders and base not in shadowed:
                    res.setdefault(node.attr, []).append((mod, qual, node))
                elif base == 'options' and base in shadowed and base not in holders:
                    continue
                elif base == 'options' or base.endswith('.options'):
                    res.setdefault(node.attr, []).append((mod, qual, node))
    return res


def bool_table(test, atoms):
    """Truth table of a boolean test over named atoms.

    atoms: {normalised atom text: (variable, polarity)}.  Returns a dict
    {assignment tuple: bool} or None when the test contains anything else."""
    import itertools
    variables = sorted({v for v, _p in atoms.values()})

    def ev(node, env):
        if isinstance(node, ast.BoolOp):
            vals = [ev(v, env) for v in node.values]
            if any(v is None for v in vals):
                return None
            return all(vals) if isinstance(node.op, ast.And) else any(vals)
        if isinstance(node, ast.UnaryOp) and isinstance(node.op, ast.Not):
            v = ev(node.operand, env)
            return None if v is None else not v
        text = norm(node)
        if text in atoms:
            var, pol = atoms[text]
            return env[var] if pol else not env[var]
        return None
    table = {}
    for combo in itertools.product([False, True], repeat=len(variables)):
        env = dict(zip(variables, combo))
        val = ev(test, env)
        if val is None:
            return None
        table[combo] = val
    return variables, table


# ----------------------------------------------------- linear averaging fields
DET_TYPES = ['sidechain', 'backbone', 'coulomb']
MEAN_FIELDS = {'pka_value', 'energy_volume', 'energy_local', 'buried', 'num_volume'}


def _det_type_lists(func):
    """Literal lists of the three determinant type names iterated in func."""
    res = []
    for node in walk_no_nested(func):
        if isinstance(node, ast.For) and isinstance(node.iter, (ast.List, ast.Tuple)):
            vals = [e.value for e in node.iter.elts if isinstance(e, ast.Constant)]
            res.append((node, vals))
        elif isinstance(node, ast.For) and isinstance(node.iter, ast.Name):
            for s in walk_no_nested(func):
                if isinstance(s, ast.Assign) and norm(s.targets[0]) == node.iter.id \
                        and isinstance(s.value, (ast.List, ast.Tuple)):
                    vals = [e.value for e in s.value.elts if isinstance(e, ast.Constant)]
                    res.append((node, vals))
    return res


def check_linear_fields(ctx, rule, prog):
    """C02.R3 / C08.R3: __iadd__ and __truediv__ act on the same field set,
    which contains every reported mean field and not model_pka; clone copies
    model_pka and leaves the accumulated fields at their initial zeros."""
    mod = prog.mod('group')
    iadd = mod.func('Group.__iadd__')
    tdiv = mod.func('Group.__truediv__')
    clone = mod.func('Group.clone')
    init = mod.func('Group.__init__')
    other = [a.arg for a in iadd.args.args][1]
    summed = {}
    for node in walk_no_nested(iadd):
        if isinstance(node, ast.AugAssign) and isinstance(node.op, ast.Add) \
                and isinstance(node.target, ast.Attribute) and norm(node.target.value) == 'self':
            summed[node.target.attr] = node
            ctx.ob(rule, 'iadd:same-field:' + node.target.attr,
                   norm(node.value) == '%s.%s' % (other, node.target.attr),
                   '__iadd__ adds other.%s to self.%s' % (node.target.attr, node.target.attr),
                   mod, node)
    divided = {}
    val = [a.arg for a in tdiv.args.args][1]
    for node in walk_no_nested(tdiv):
        if isinstance(node, ast.AugAssign) and isinstance(node.op, ast.Div) \
                and isinstance(node.target, ast.Attribute) and norm(node.target.value) == 'self':
            divided[node.target.attr] = node
            ctx.ob(rule, 'truediv:by-divisor:' + node.target.attr, norm(node.value) == val,
                   '__truediv__ divides self.%s by the divisor' % node.target.attr, mod, node)
    ctx.ob(rule, 'fields:sum==div', set(summed) == set(divided),
           '__iadd__ and __truediv__ act on the same scalar fields (sum only: %s; divide only: %s)'
           % (sorted(set(summed) - set(divided)), sorted(set(divided) - set(summed))), mod, tdiv)
    ctx.ob(rule, 'fields:cover-reported-means', MEAN_FIELDS <= set(summed),
           'the accumulated fields include every reported mean %s (missing %s)'
           % (sorted(MEAN_FIELDS), sorted(MEAN_FIELDS - set(summed))), mod, iadd)
    ctx.ob(rule, 'fields:model_pka-not-accumulated',
           'model_pka' not in summed and 'model_pka' not in divided,
           'model_pka is neither summed nor divided (it is copied by clone)', mod, iadd)
    # determinants: all three types, via add_determinant / value division
    for fn, what in ((iadd, 'summed'), (tdiv, 'divided')):
        lists = _det_type_lists(fn)
        ok = len(lists) == 1 and sorted(lists[0][1]) == sorted(DET_TYPES)
        ctx.ob(rule, 'determinants:%s:all-three-types' % what, ok,
               'determinants of all three types are %s (found %s)' % (what, [v for _n, v in lists]),
               mod, lists[0][0] if lists else fn)
    calls = [c for c in calls_in(iadd, nested=False) if last_attr(c) == 'add_determinant']
    ctx.ob(rule, 'determinants:summed-via-add_determinant',
           len(calls) == 1 and norm(calls[0].func.value) == 'self',
           '__iadd__ merges every determinant of the other group through add_determinant',
           mod, calls[0] if calls else iadd)
    dv = [n for n in walk_no_nested(tdiv) if isinstance(n, ast.AugAssign)
          and isinstance(n.op, ast.Div) and norm(n.target).endswith('.value')]
    ctx.ob(rule, 'determinants:values-divided', len(dv) == 1 and norm(dv[0].value) == val,
           '__truediv__ divides every determinant value by the divisor', mod, dv[0] if dv else tdiv)
    # add_determinant: add to the entry of the same partner, else append a copy
    addd = mod.func('Group.add_determinant')
    aug = [n for n in walk_no_nested(addd) if isinstance(n, ast.AugAssign)
           and isinstance(n.op, ast.Add) and norm(n.target).endswith('.value')]
    app = [c for c in calls_in(addd, nested=False) if last_attr(c) == 'append']
    ok = len(aug) == 1 and len(app) == 1 and 'Determinant(' in norm(app[0].args[0]) \
        and norm(aug[0].value).endswith('.value')
    ctx.ob(rule, 'add_determinant:add-or-append-copy', ok,
           'add_determinant adds to the determinant of the same partner or appends a fresh copy '
           '(never aliases the source determinant)', mod, addd)
    # ... where "same partner" is group equality (which tells hetero groups of
    # equal printed label apart by residue number), compared on the partner
    # groups of the two determinants
    same = False
    if len(aug) == 1:
        own = norm(aug[0].target)[:-len('.value')]
        src = norm(aug[0].value)[:-len('.value')]
        for e, pol in facts_at(aug[0], addd):
            if pol and isinstance(e, ast.Compare) and len(e.ops) == 1 and isinstance(e.ops[0], ast.Eq) \
                    and {norm(e.left), norm(e.comparators[0])} == {own + '.group', src + '.group'}:
                same = True
    ctx.ob(rule, 'add_determinant:row-match-by-partner-group', same,
           'add_determinant adds a value to an existing row only when the two determinants\' partner '
           'groups are equal (Group.__eq__); the printed label alone is shared by two ions or ligand '
           'copies of one chain, whose rows would be folded into one', mod, aug[0] if aug else addd)
    # clone
    copied = {}
    res_var = None
    for node in clone.body:
        if isinstance(node, ast.Assign) and isinstance(node.value, ast.Call) \
                and call_name(node.value) == 'Group':
            res_var = norm(node.targets[0])
    for node in walk_no_nested(clone):
        if isinstance(node, ast.Assign) and isinstance(node.targets[0], ast.Attribute) \
                and norm(node.targets[0].value) == res_var:
            copied[node.targets[0].attr] = norm(node.value)
    ctx.ob(rule, 'clone:fresh-group', res_var is not None,
           'clone builds a fresh Group (zero accumulators, empty determinant lists)', mod, clone)
    ctx.ob(rule, 'clone:copies-model_pka', copied.get('model_pka') == 'self.model_pka',
           'clone copies model_pka', mod, clone)
    leaked = sorted(set(copied) & (set(summed) | {'determinants'}))
    ctx.ob(rule, 'clone:accumulators-start-at-zero', not leaked,
           'clone does not pre-load any accumulated field (pre-loaded: %s)' % leaked, mod, clone)
    for fld in ('titratable', 'exclude_cys_from_results', 'residue_type', 'type', 'charge'):
        ctx.ob(rule, 'clone:copies-' + fld, copied.get(fld) == 'self.' + fld,
               'clone copies %s (the report filter / write-out section depend on it)' % fld,
               mod, clone)
    # initial zeros in __init__
    zeros = {}
    for node in walk_no_nested(init):
        if isinstance(node, ast.Assign) and isinstance(node.targets[0], ast.Attribute) \
                and norm(node.targets[0].value) == 'self':
            from sa.astutil import try_fold
            zeros[node.targets[0].attr] = try_fold(node.value)
    bad = sorted(f for f in summed if zeros.get(f) != 0)
    ctx.ob(rule, 'init:accumulators-zero', not bad,
           'every accumulated field starts at 0 in Group.__init__ (not zero: %s)' % bad, mod, init)


# ------------------------------------------------------ the bond pair routine
def pair_fact_kind(pair):
    """Classifier for the facts that dominate statements of the bond maker's
    pair routine (``pair``: the FunctionDef)."""
    pair_params = [a.arg for a in pair.args.args if a.arg != 'self']

    def fact_kind(expr, positive):
        expr, positive = positive_fact(expr, positive)
        if isinstance(expr, ast.Call) and last_attr(expr) == 'check_distance' and \
                sorted(norm(a) for a in expr.args) == sorted(pair_params):
            return 'criterion' if positive else 'not-criterion'
        if isinstance(expr, ast.Compare) and len(expr.ops) == 1:
            op, lhs, rhs = expr.ops[0], expr.left, expr.comparators[0]
            if isinstance(op, (ast.IsNot, ast.NotEq)) and positive and \
                    sorted([norm(lhs), norm(rhs)]) == sorted(pair_params):
                return 'irreflexive'
            if isinstance(op, ast.NotIn) and positive and isinstance(rhs, ast.Attribute) \
                    and rhs.attr == 'bonded_atoms' and \
                    sorted([norm(lhs), norm(rhs.value)]) == sorted(pair_params):
                return 'not-yet-bonded'
            if isinstance(op, ast.Eq) and positive and isinstance(lhs, ast.Attribute) \
                    and lhs.attr == 'element' and norm(lhs.value) in pair_params \
                    and isinstance(rhs, ast.Constant) and rhs.value == 'S':
                return 'sulfur:' + norm(lhs.value)
        return 'other:%s%s' % ('' if positive else 'not ', norm(expr))
    return fact_kind


def check_pair_routine(ctx, rule, mod):
    """A bond is made for a pair exactly when the distance criterion holds:
    the single call of make_bond in BondMaker._find_bonds_for_atoms is
    dominated by the positive criterion and by nothing else that depends on
    the pair (the irreflexivity assertion and the already-bonded shortcut
    excepted)."""
    pair = mod.func('BondMaker._find_bonds_for_atoms')
    fact_kind = pair_fact_kind(pair)
    mk_calls = [c for c in calls_in(pair) if last_attr(c) == 'make_bond']
    ok_pair = False
    kinds = []
    if len(mk_calls) == 1:
        kinds = sorted(fact_kind(e, p) for e, p in facts_at(mk_calls[0], pair))
        ok_pair = 'criterion' in kinds and \
            set(kinds) <= {'criterion', 'irreflexive', 'not-yet-bonded'}
    ctx.ob(rule, 'pair:bond-iff-criterion', ok_pair,
           'a bond is made exactly under the positive pair criterion: the call of make_bond is '
           'dominated by the criterion and by nothing else that depends on the pair '
           '(dominating facts: %s)' % kinds, mod,
           mk_calls[0] if mk_calls else pair)


# ------------------------------------------------- fixed-column record fields
def check_fixed_columns(ctx, rule, prog, attrs):
    """Each of the given Atom attributes is defined in Atom.set_properties by a
    single assignment whose only read of the record is a slice with constant
    bounds covering exactly that attribute's PDB field - not by splitting a
    wider slice at white space, which fuses adjacent fields when a value fills
    its columns (a coordinate <= -100.000 or >= 1000.000 does)."""
    from sa.tables import subscript_range, PDB_COLUMNS
    amod = prog.mod('atom')
    sp = amod.func('Atom.set_properties')
    line_p = [a.arg for a in sp.args.args][1]
    field_of = {'x': 'x', 'y': 'y', 'z': 'z', 'res_num': 'resseq', 'chain_id': 'chain',
                'res_name': 'resname', 'name': 'name', 'icode': 'icode', 'numb': 'serial',
                'occ': 'occupancy', 'beta': 'bfactor'}
    ranges = {name: (a, b) for name, a, b in PDB_COLUMNS}
    defs = {}
    for st in walk_no_nested(sp):
        if isinstance(st, ast.Assign):
            for t in st.targets:
                for sub in ast.walk(t):
                    if isinstance(sub, ast.Attribute) and norm(sub.value) == 'self' \
                            and sub.attr in attrs and isinstance(sub.ctx, ast.Store):
                        defs.setdefault(sub.attr, []).append((st, t))
    for attr in attrs:
        want = ranges[field_of[attr]]
        sites = [(st, t) for st, t in defs.get(attr, [])
                 if any(isinstance(n, ast.Name) and n.id == line_p for n in ast.walk(st.value))]
        ok = len(sites) == 1
        why = '%d definitions from the record' % len(sites)
        node = sites[0][0] if sites else sp
        if ok:
            st, t = sites[0]
            subs = [n for n in ast.walk(st.value) if isinstance(n, ast.Subscript)
                    and dotted(n.value) == line_p]
            bare = [n for n in ast.walk(st.value) if isinstance(n, ast.Name) and n.id == line_p
                    and not (isinstance(n._parent, ast.Subscript) and n._parent.value is n)]
            splits = [c for c in calls_in(st.value if isinstance(st.value, ast.AST) else st)
                      if last_attr(c) in ('split', 'rsplit', 'partition', 'splitlines')]
            rng = subscript_range(subs[0]) if len(subs) == 1 else None
            ok = isinstance(t, ast.Attribute) and len(subs) == 1 and not bare and not splits \
                and rng == want
            why = 'reads %s%s' % ([norm(x) for x in subs],
                                  ', tokenised by %s' % [norm(c.func) for c in splits] if splits else '')
        ctx.ob(rule, 'fixed-columns:' + attr, ok,
               'Atom.%s is read from exactly the columns %d-%d of the record by one fixed slice (%s)'
               % (attr, want[0] + 1, want[1], why), amod, node)


# ------------------------------------------------- residue strings of -i
def check_res_string_parse(ctx, rule, prog):
    """parse_res_string hands the chain, number and insertion code of a
    "chain:number[icode]" entry through unchanged (apart from int())."""
    from sa.canon import canon
    lib = prog.mod('lib')
    prs = lib.func('parse_res_string')
    rets = [r for r in walk_no_nested(prs) if isinstance(r, ast.Return)]
    shape_ok = len(rets) == 1 and isinstance(rets[0].value, ast.Tuple) and len(rets[0].value.elts) == 3
    ctx.ob(rule, 'parse:returns-triple', shape_ok,
           'parse_res_string returns a (chain, number, insertion code) triple', lib,
           rets[0] if rets else prs)
    if shape_ok:
        can = canon(prs)
        arg = prs.args.args[0].arg
        exp = can.expr(rets[0].value)

        def alts(e):
            return list(e.args) if isinstance(e, ast.Call) and norm(e.func) == 'alt' else [e]
        texts = [sorted(norm(a).replace('"', "'") for a in alts(e)) for e in exp.elts]
        before = "%s.split(':')[0]" % arg
        after = "%s.split(':')[1]" % arg
        # the chain part must go through the same normalisation as Atom.chain_id
        # (a blank chain column is stored as '_'), and through nothing else
        amod = prog.mod('atom')
        sp = amod.func('Atom.set_properties')
        blank_to_underscore = False
        line_p = sp.args.args[1].arg
        for n in walk_no_nested(sp):
            if isinstance(n, ast.If) and isinstance(n.test, ast.Compare) and isinstance(n.test.ops[0], ast.Eq) \
                    and norm(n.test.left) == 'self.chain_id' and isinstance(n.test.comparators[0], ast.Constant) \
                    and n.test.comparators[0].value == ' ' and any(
                        isinstance(b, ast.Assign) and norm(b.targets[0]) == 'self.chain_id'
                        and isinstance(b.value, ast.Constant) and b.value.value == '_' for b in n.body):
                blank_to_underscore = True
            if isinstance(n, ast.Assign) and norm(n.targets[0]) == 'self.chain_id' \
                    and norm(n.value).replace('"', "'") in (
                        "%s[21].strip() or '_'" % line_p, "%s[21:22].strip() or '_'" % line_p):
                blank_to_underscore = True
        atom_class = "blank->'_'" if blank_to_underscore else 'raw'
        if texts[0] == [before]:
            parse_class = 'raw'
        elif texts[0] in (["%s.strip() or '_'" % before], ["%s.strip(' ') or '_'" % before]):
            parse_class = "blank->'_'"
        else:
            parse_class = 'other: %s' % texts[0]
        ctx.ob(rule, 'parse:chain-before-colon', parse_class == atom_class,
               'the chain of a -i entry is the part before the colon, normalised exactly as '
               'Atom.chain_id is (atoms: %s; -i entries: %s) and otherwise unmodified - it is '
               'compared with the chain id of the atoms, which is case sensitive'
               % (atom_class, parse_class), lib, rets[0])
        ctx.ob(rule, 'parse:number-is-int',
               sorted(texts[1]) == sorted(['int(%s)' % after, 'int(%s[:-1])' % after]),
               'the residue number is int() of the part after the colon, with or without its '
               'trailing insertion-code character (Atom.res_num is an int too); found %s' % texts[1],
               lib, rets[0])
        ctx.ob(rule, 'parse:icode-default-blank',
               sorted(texts[2]) == sorted(["' '", '%s[-1]' % after]),
               "the insertion code is the trailing character, or ' ' (the raw blank column) when "
               "there is none (found %s)" % texts[2], lib, rets[0])


# ------------------------------------------------- charge sum over all titratable groups
def check_charge_sum_unconditional(ctx, rule, prog):
    """ConformationContainer.calculate_charge adds the charge of *every*
    titratable group: one loop over get_titratable_groups() whose body has no
    condition, `continue` or `break`.  (The folding energy sums the same set:
    all groups, non-titratable ones contributing exactly 0 - C10.R4; proton
    linkage needs the two sums to range over the same groups.)"""
    cc = prog.mod('conformation_container')
    fn = cc.func('ConformationContainer.calculate_charge')
    loops = [n for n in walk_no_nested(fn) if isinstance(n, ast.For)]
    ok = False
    why = '%d loops' % len(loops)
    if len(loops) == 1:
        lp = loops[0]
        it_ok = isinstance(lp.iter, ast.Call) and last_attr(lp.iter) == 'get_titratable_groups' \
            and norm(lp.iter.func.value) == 'self'
        cond = [n for n in ast.walk(lp) if isinstance(n, (ast.If, ast.IfExp, ast.Continue, ast.Break,
                                                         ast.Try, ast.While))]
        accs = [s for s in lp.body if isinstance(s, ast.AugAssign) and isinstance(s.op, ast.Add)]
        from sa.astutil import effective
        ok = it_ok and not cond and len(accs) == len(effective(lp.body)) and len(accs) >= 2
        why = 'iterates %s; %d conditional constructs in the body' % (norm(lp.iter), len(cond))
    ctx.ob(rule, 'charge-sum:every-titratable-group', ok,
           'the total charge adds the folded and unfolded charge of every titratable group without '
           'exception (%s)' % why, cc, loops[0] if loops else fn)


# ------------------------------------------------- options are read-only
def check_options_readonly(ctx, rule, prog):
    """After parsing, the options object is shared by every input of one
    invocation (run.main) and by every caller that reuses it: nothing may
    store into it or mutate one of its containers, directly or through a
    local alias (``x = options.chains or []; x.remove(...)``)."""
    from sa.canon import canon, MUTATORS
    allowed = {('lib', 'loadOptions'), ('lib', 'build_parser')}
    sites = []
    n_funcs = 0
    for mod, qual, fn in prog.all_funcs():
        if (mod.name, qual) in allowed:
            continue
        uses = any(isinstance(n, ast.Attribute) and n.attr == 'options' or
                   isinstance(n, ast.Name) and n.id == 'options' for n in ast.walk(fn))
        if not uses:
            continue
        n_funcs += 1
        can = canon(fn)

        def rooted(e, depth=0):
            """the object denoted by ``e`` is the options object or reachable
            from it by attribute/item access (not: computed from it by a call)"""
            if depth > 6:
                return False
            if isinstance(e, ast.Attribute):
                if e.attr == 'options' or (isinstance(e.value, ast.Name) and e.value.id == 'options'):
                    return True
                return rooted(e.value, depth + 1)
            if isinstance(e, ast.Subscript):
                return rooted(e.value, depth + 1)
            if isinstance(e, ast.BoolOp):
                return any(rooted(v, depth + 1) for v in e.values)
            if isinstance(e, ast.IfExp):
                return rooted(e.body, depth + 1) or rooted(e.orelse, depth + 1)
            if isinstance(e, ast.Call) and isinstance(e.func, ast.Name) and e.func.id == 'alt':
                return any(rooted(a, depth + 1) for a in e.args)
            if isinstance(e, ast.Name):
                if e.id == 'options' and e.id in func_params_of:
                    return True
                if e.id in can.opaque:
                    for st in walk_no_nested(fn):
                        if isinstance(st, ast.Assign) and len(st.targets) == 1 \
                                and isinstance(st.targets[0], ast.Name) and st.targets[0].id == e.id \
                                and rooted(can.expr(st.value), depth + 1):
                            return True
            return False
        func_params_of = {a.arg for a in fn.args.args + fn.args.kwonlyargs}

        def from_options(expr):
            return rooted(can.expr(expr))

        for node in walk_no_nested(fn):
            if isinstance(node, ast.Call) and isinstance(node.func, ast.Attribute) \
                    and node.func.attr in MUTATORS and from_options(node.func.value):
                sites.append((mod, qual, node))
            elif isinstance(node, (ast.Assign, ast.AugAssign, ast.Delete)):
                tgts = node.targets if not isinstance(node, ast.AugAssign) else [node.target]
                for t in tgts:
                    if isinstance(t, (ast.Attribute, ast.Subscript)) and from_options(t.value) \
                            or (isinstance(t, ast.Attribute)
                                and (can.text(t.value) == 'options'
                                     and 'options' in func_params_of
                                     or can.text(t.value).endswith('.options'))):
                        # `self.options = options` (storing the object itself) is not a mutation
                        if isinstance(t, ast.Attribute) and t.attr == 'options':
                            continue
                        sites.append((mod, qual, node))
    ctx.ob(rule, 'options:read-only-after-parsing', not sites,
           'no function stores into the parsed options or mutates one of its containers, not even '
           'through a local alias (%d functions that touch options examined; offenders: %s)'
           % (n_funcs, ['%s.%s: %s' % (m.name, q, norm(n)[:60]) for m, q, n in sites]),
           sites[0][0] if sites else prog.mod('lib'), sites[0][2] if sites else prog.mod('lib').tree)


def check_ph_label_precision(ctx, rule, prog, sections):
    """The pH values that are printed are those of the requested grid: a label
    with a fixed number of decimals turns the points of a finer grid into
    other values (step 0.025: 1.325 is printed as 1.33 next to the charge at
    1.325; step 0.005: every label twice).  So the precision of every printed
    pH is itself a formatted-in value computed from the grid, not a literal."""
    from sa.astutil import string_builders
    out = prog.mod('output')
    for qual in sections:
        fn = out.func(qual)
        ph_vars = set()
        for node in walk_no_nested(fn):
            if isinstance(node, ast.For) and isinstance(node.target, (ast.Tuple, ast.List)) \
                    and node.target.elts and 'profile' in norm(node.iter):
                ph_vars.add(norm(node.target.elts[0]))
            if isinstance(node, ast.Assign) and isinstance(node.targets[0], (ast.Tuple, ast.List)) \
                    and 'get_folding_profile' in norm(node.value) and len(node.targets[0].elts) == 4:
                e = node.targets[0].elts
                for grp, idxs in ((e[1], (0,)), (e[2], (0, 1)), (e[3], (0, 1))):
                    parts = grp.elts if isinstance(grp, (ast.Tuple, ast.List)) else []
                    for i in idxs:
                        if i < len(parts):
                            ph_vars.add(norm(parts[i]))
        fixed, n = [], 0
        for call, tpl in string_builders(fn):
            for f in tpl:
                if f[0] == 'fld' and f[1] in ph_vars:
                    n += 1
                    if '{' not in f[2]:
                        fixed.append((call, f))
        ctx.ob(rule, 'labels:pH-precision-follows-grid:' + qual, n >= 1 and not fixed,
               '%s prints %d pH values (%s), each with a number of decimals taken from the grid '
               '(%d with a literal precision: %s)' % (qual, n, sorted(ph_vars), len(fixed),
                                                     [f[1] + ':' + f[2] for _c, f in fixed][:6]),
               out, fixed[0][0] if fixed else fn)


def check_mapped_sidechain_always_created(ctx, rule, prog):
    """Every protein atom whose "RES-ATOM" key is in protein_group_mapping gets
    its group: the return of the mapped class is conditioned on the record
    type and the key membership only - not on what the atom is bonded to (an
    Asp that lost both carboxylate oxygens still has its defining atom CG)."""
    from sa.canon import canon as _canon
    gmod = prog.mod('group')
    ipg = gmod.func('is_protein_group')
    can = _canon(ipg)
    param = [a.arg for a in ipg.args.args][-1]
    rets = [r for r in walk_no_nested(ipg) if isinstance(r, ast.Return) and isinstance(r.value, ast.Call)
            and 'protein_group_mapping' in can.text(r.value.func)]
    ok = len(rets) == 1
    extra = []
    for r in rets:
        for e, pol in facts_at(r, ipg):
            t = can.text(e)
            if t.replace(' ', '') in ("%s.type=='atom'" % param,):
                continue
            if pol and ' in ' in t and 'protein_group_mapping' in t.split(' in ', 1)[1] and ' not in ' not in t:
                continue
            extra.append(('' if pol else 'not ') + t[:70])
    ctx.ob(rule, 'mapped-side-chain:group-created-unconditionally', ok and not extra,
           'is_protein_group returns the mapped group class for every ATOM-record atom whose '
           '"RES-ATOM" key is in protein_group_mapping (further conditions: %s)' % extra,
           gmod, rets[0] if rets else ipg)


def check_element_name_shapes(ctx, rule, prog, only=None):
    """The element statements of Atom.set_properties, folded (with the checker's
    own constant evaluator; no propka code runs) over one record per shape in
    which the four atom-name columns are filled in practice: PDB v3 and v2
    hydrogen names, remediated four-character names, two-letter symbols in
    columns 13-14, deuterium.  A hydrogen that is not recognised as one is
    neither dropped nor rebuilt: it stays, bonded, as a heavy atom, and its
    parent then counts one bond too many."""
    import string as _string
    from sa.consteval import ConstEval, UNKNOWN
    amod = prog.mod('atom')
    sp = amod.func('Atom.set_properties')
    line_p = [a.arg for a in sp.args.args if a.arg != 'self'][0]
    shapes = {' H  ': 'H', ' HA ': 'H', ' HB2': 'H', 'HH11': 'H', 'HG21': 'H', "HO5'": 'H',
              'HE21': 'H', 'HE22': 'H', 'HD21': 'H', ' HZ1': 'H', 'HG11': 'H', ' HN ': 'H',
              '1H  ': 'H', '1HB ': 'H', '1HH1': 'H', '2HD2': 'H', '3HG1': 'H', ' D  ': 'H', '1DD2': 'H',
              ' N  ': 'N', ' CA ': 'C', ' OXT': 'O', ' SG ': 'S', ' OD1': 'O', 'CA  ': 'Ca', 'FE  ': 'Fe',
              'ZN  ': 'Zn', 'CL  ': 'Cl', 'NA  ': 'Na', ' C1 ': 'C', " O5'": 'O'}
    if only is not None:
        shapes = {k: v for k, v in shapes.items() if v in only}
    wrong = {}
    for cols, want in sorted(shapes.items()):
        rec = 'ATOM      1 %s ALA A   1      11.111  22.222  33.333  1.00 20.00' % cols
        ce = ConstEval({line_p: rec, 'string.digits': _string.digits})
        for k_, v_ in _module_string_sets(amod).items():
            ce.env.setdefault(k_, v_)
        got = ce.run(sp.body).get('self.element', UNKNOWN)
        if got != want:
            wrong[cols] = got if got is not UNKNOWN else '?'
    el_defs = [s_ for s_ in walk_no_nested(sp) if isinstance(s_, ast.Assign)
               and norm(s_.targets[0]) == 'self.element']
    ctx.ob(rule, 'element:name-shapes', not wrong,
           'the element rule gives the expected symbol for %d shapes of the atom-name columns '
           '(wrong: %s)' % (len(shapes), wrong), amod, el_defs[0] if el_defs else sp)


def _module_string_sets(mod):
    """Module-level constants that are sets/tuples/lists of strings, as Python
    values (so that a membership test on them folds)."""
    from sa.consteval import ConstEval, UNKNOWN
    res = {}
    for st in mod.tree.body:
        if isinstance(st, ast.Assign) and len(st.targets) == 1 and isinstance(st.targets[0], ast.Name):
            v = ConstEval({}).ev(st.value)
            if v is not UNKNOWN and isinstance(v, (set, frozenset, tuple, list, str, dict)):
                res[st.targets[0].id] = v
    return res
