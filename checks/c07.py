"""C07 - content the model does not use has no effect on any result."""
import ast

from sa.astutil import (facts_at, call_name, calls_in, dotted, norm, walk_no_nested, fact_texts,
                        last_attr, names_in, guards_of, call_arg, block_always_exits)
from sa.loader import AnalysisError
from sa.canon import canon
from sa.tables import Cfg, columns_of_slice, subscript_range
from checks import common
from checks.recordloop import RecordLoop

USED_FIELDS = {'record', 'serial', 'name', 'altloc', 'resname', 'chain', 'resseq', 'icode',
               'x', 'y', 'z', 'occupancy', 'bfactor', 'gap11', 'gap20'}
FIELD_OF_ATTR = {
    'name': {'name'}, 'numb': {'serial'}, 'x': {'x'}, 'y': {'y'}, 'z': {'z'},
    'res_num': {'resseq'}, 'res_name': {'resname'}, 'chain_id': {'chain'},
    'type': {'record'}, 'occ': {'occupancy'}, 'beta': {'bfactor'}, 'icode': {'icode'},
    'element': {'name'},
}
UNUSED_OPTIONS = {'reuse_ligand_mol2_file': 'only used by an unused function (declared so in '
                                            'the Options class)',
                  'input_pdb': 'folded into options.filenames by loadOptions'}


def run(ctx):
    prog = ctx.prog
    cfg = Cfg(prog)
    rl = RecordLoop(prog)
    amod = prog.mod('atom')
    sp = amod.func('Atom.set_properties')
    line_p = [a.arg for a in sp.args.args][1]

    # ------------------------------------------------------------------ R1
    n_sub = 0
    for node in walk_no_nested(sp):
        if isinstance(node, ast.Subscript) and dotted(node.value) == line_p:
            n_sub += 1
            rng = subscript_range(node)
            cols = columns_of_slice(*rng) if rng else ['?']
            ctx.ob('C07.R1', 'atom-columns:' + norm(node), set(cols) <= USED_FIELDS,
                   'Atom.set_properties reads %s = PDB fields %s; the element (77-78) and charge '
                   '(79-80) columns and the unassigned columns are never read' % (norm(node), cols),
                   amod, node)
            # which attribute does it feed?
            st = node
            while not isinstance(st, ast.stmt):
                st = st._parent
            if isinstance(st, ast.Assign) and isinstance(st.targets[0], ast.Attribute) \
                    and norm(st.targets[0].value) == 'self':
                attr = st.targets[0].attr
                want = FIELD_OF_ATTR.get(attr)
                real = {c for c in cols if not c.startswith('gap')}
                ctx.ob('C07.R1', 'atom-field:%s<-%s' % (attr, norm(node)),
                       want is not None and real <= want and bool(real),
                       'attribute %s is filled from its own PDB field %s (reads %s)'
                       % (attr, sorted(want or []), sorted(real)), amod, st)
    for node in walk_no_nested(rl.loop):
        if isinstance(node, ast.Subscript) and dotted(node.value) == rl.line:
            rng = subscript_range(node)
            in_atom = any(node is n for n in ast.walk(rl.atom_block))
            cols = columns_of_slice(*rng) if rng else ['?']
            if in_atom or rng == (0, 6):
                n_sub += 1
                ctx.ob('C07.R1', 'reader-columns:' + norm(node), set(cols) <= USED_FIELDS,
                       'the record loop reads %s = PDB fields %s' % (norm(node), cols),
                       rl.mod, node)
    common.check_fixed_columns(ctx, 'C07.R1', prog, ['name', 'x', 'y', 'z', 'res_num', 'res_name',
                                                     'chain_id', 'icode'])
    ctx.need('C07.R1', 28)
    from checks.recordloop import check_raw_record_fields
    check_raw_record_fields(ctx, 'C07.R1', rl)
    from checks.recordloop import check_terminus_latch
    check_terminus_latch(ctx, 'C07.R3', rl)
    from checks.recordloop import check_membership_params_materialised
    check_membership_params_materialised(ctx, 'C07.R3', rl)
    # element derived only from the name columns (all definitions)
    # (a local in which the symbol is worked out before it is stored counts as the element)
    el_names = {'self.element'} | {norm(s.value) for s in walk_no_nested(sp) if isinstance(s, ast.Assign)
                                   and norm(s.targets[0]) == 'self.element' and isinstance(s.value, ast.Name)}
    el_defs = [s for s in walk_no_nested(sp) if isinstance(s, ast.Assign)
               and norm(s.targets[0]) in el_names]
    ok = bool(el_defs)
    bad_guard = None
    for s in el_defs:
        for sub in ast.walk(s.value):
            if isinstance(sub, ast.Subscript) and dotted(sub.value) == line_p:
                rng = subscript_range(sub)
                if rng is None or columns_of_slice(*rng) != ['name']:
                    ok = False
        if not ({n for n in names_in(s.value)} <= {line_p, 'self', 'string', 'format'} | el_names):
            ok = False
        # ... and so does the decision which definition applies
        for e, _pol in facts_at(s, sp):
            for sub in ast.walk(e):
                if isinstance(sub, ast.Name) and sub.id not in el_names | {line_p, 'self', 'string', 'len'}:
                    ok = False
                    bad_guard = norm(e)
                if isinstance(sub, ast.Attribute) and norm(sub.value) == 'self' \
                        and sub.attr not in ('name', 'element'):
                    ok = False
                    bad_guard = norm(e)
                if isinstance(sub, ast.Subscript) and dotted(sub.value) == line_p:
                    rng = subscript_range(sub)
                    if rng is None or columns_of_slice(*rng) != ['name']:
                        ok = False
                        bad_guard = norm(e)
    ctx.ob('C07.R1', 'element:from-name-columns-only', ok,
           'every definition of Atom.element, and every condition that selects between them, '
           'derives from the atom-name columns (and the name) only%s'
           % ('' if bad_guard is None else ' - condition: ' + bad_guard), amod, el_defs[0] if el_defs else sp)

    # ... and gives the right element for every way the four name columns are
    # filled in practice - decided by folding the statements of set_properties
    # over one record per shape (PDB v3 and v2 hydrogen names, remediated
    # four-character names, two-letter symbols in columns 13-14, deuterium): a
    # hydrogen that is not recognised as one is neither dropped nor rebuilt, it
    # stays as a heavy atom
    common.check_element_name_shapes(ctx, 'C07.R1', prog)

    # ------------------------------------------------------------------ R2
    common.check_inert_fields(ctx, 'C07.R2', prog, ['numb', 'occ', 'beta'])
    ctx.need('C07.R2', 4)

    # ------------------------------------------------------------------ R3
    # record tags tested
    tag_alias = [k for k in rl.aliases if rl.slice_of(ast.Name(id=k, ctx=ast.Load())) == (0, 6)]
    bad = []
    n_tag = 0
    for node in walk_no_nested(rl.loop):
        if isinstance(node, ast.Compare):
            sides = [node.left] + node.comparators
            if any(rl.slice_of(s) == (0, 6) for s in sides):
                n_tag += 1
                for s in sides:
                    if isinstance(s, ast.Constant) and not (
                            isinstance(s.value, str)
                            and s.value.strip() in ('MODEL', 'TER', 'ATOM', 'HETATM')):
                        bad.append(node)
                    if isinstance(s, ast.Name) and s.id not in tag_alias and s.id != rl.tags_param:
                        bad.append(node)
    ctx.ob('C07.R3', 'tags:only-known-records', not bad and n_tag >= 3,
           'only MODEL, TER, ATOM and HETATM records are ever inspected; any other record is a '
           'no-op (%d tag tests)' % n_tag, rl.mod, bad[0] if bad else rl.loop)
    tags_default = None
    args = rl.fn.args
    pos = args.args
    defaults = [None] * (len(pos) - len(args.defaults)) + list(args.defaults)
    for a, d in zip(pos, defaults):
        if a.arg == rl.tags_param and d is not None:
            from sa.astutil import literal, FoldError
            try:
                tags_default = tuple(literal(d))
            except FoldError:
                pass
    ctx.ob('C07.R3', 'tags:default', tags_default is not None and
           sorted(tags_default) == ['ATOM  ', 'HETATM'],
           'atom records are ATOM and HETATM (default %s)' % (tags_default,), rl.mod, rl.fn)
    # statements outside the atom block touch only MODEL/TER bookkeeping
    for stmt in rl.outside:
        if isinstance(stmt, ast.If):
            t = norm(stmt.test)
            ok = isinstance(stmt.test, ast.Compare) and any(
                isinstance(c, ast.Constant) and isinstance(c.value, str)
                and c.value.strip() in ('MODEL', 'TER')
                for c in stmt.test.comparators) and rl.slice_of(stmt.test.left) == (0, 6)
            ctx.ob('C07.R3', 'non-atom-branch:' + t, ok,
                   'a statement of the record loop outside the atom block runs only for MODEL/TER',
                   rl.mod, stmt)
        elif isinstance(stmt, ast.Assign) and isinstance(stmt.targets[0], ast.Name) \
                and stmt.targets[0].id in rl.aliases:
            continue
        else:
            ctx.ob('C07.R3', 'non-atom-statement:' + norm(stmt)[:60], False,
                   'unexpected unconditional statement in the record loop', rl.mod, stmt)
    # ignore filter: top-level, before any state write, reads resname + parameter only
    ign = [(i, s) for i, s in rl.filters() if 'ignore_residues' in names_in(s.test)]
    ctx.ob('C07.R3', 'ignore-filter:single-top-level', len(ign) == 1,
           'ignorable residues are skipped by one top-level filter of the atom block', rl.mod,
           ign[0][1] if ign else rl.atom_block)
    if len(ign) == 1:
        idx, flt = ign[0]
        early = []
        for stmt in rl.atom_block.body[:idx]:
            early.extend(rl.state_writes(stmt))
            early.extend((n, '<yield>') for n in walk_no_nested(stmt) if isinstance(n, ast.Yield))
        ctx.ob('C07.R3', 'ignore-filter:before-state-writes', not early,
               'nothing before the ignore filter writes loop-carried state or yields (%s)'
               % [w for _n, w in early], rl.mod, early[0][0] if early else flt)
        cols = rl.columns_in(flt.test)
        shape = isinstance(flt.test, ast.Compare) and isinstance(flt.test.ops[0], ast.In) \
            and norm(flt.test.comparators[0]) == 'ignore_residues'
        # the configured names are white-space separated words of the parameter
        # file: a padded column field (' NA', 'CL ') never equals one of them
        left = flt.test.left if isinstance(flt.test, ast.Compare) else None
        stripped = isinstance(left, ast.Call) and isinstance(left.func, ast.Attribute) \
            and left.func.attr == 'strip' and not left.args and rl.slice_of(left.func.value) == (17, 20)
        ctx.ob('C07.R3', 'ignore-filter:compares-unpadded-name', shape and stripped,
               'the residue-name columns are compared without their padding (%s): the names in '
               'ignore_residues are words of the parameter file, so a one- or two-letter residue '
               '(NA, CL, K) in its padded three columns would never be found ignorable'
               % (norm(left) if left is not None else '?'), rl.mod, flt)
        ctx.ob('C07.R3', 'ignore-filter:reads-resname-only', cols == ['resname'] and shape,
               'the filter skips a record iff its residue-name columns are in ignore_residues '
               '(columns %s)' % cols, rl.mod, flt)
    # hydrogen stripping
    ys = [n for n in walk_no_nested(rl.loop) if isinstance(n, ast.Yield)]
    ok = False
    if len(ys) == 1:
        # the local that holds the Atom built from the record
        avars = [st.targets[0].id for st in walk_no_nested(rl.atom_block) if isinstance(st, ast.Assign)
                 and isinstance(st.targets[0], ast.Name) and isinstance(st.value, ast.Call)
                 and (call_name(st.value) or '').split('.')[-1] == 'Atom']
        avar = avars[0] if avars else 'atom'
        atoms = {"%s.element == 'H'" % avar: ('isH', True), "%s.element != 'H'" % avar: ('isH', False),
                 'keep_protons': ('keep', True)}
        # every condition on the way to the yield that mentions the element or
        # the option: enclosing ifs and the `if ...: continue` filters before it
        gs = [(e, pol) for e, pol in facts_at(ys[0], rl.atom_block)
              if e is not rl.atom_block.test and (
                  any(isinstance(x, ast.Attribute) and x.attr == 'element' for x in ast.walk(e))
                  or any(isinstance(x, ast.Name) and x.id == 'keep_protons' for x in ast.walk(e)))]
        tables = [common.bool_table(e, atoms) for e, _pol in gs]
        if gs and all(t is not None for t in tables):
            import itertools
            ok = True
            for is_h, keep in itertools.product([False, True], repeat=2):
                reached = True
                for (e, pol), (variables, table) in zip(gs, tables):
                    env = {'isH': is_h, 'keep': keep}
                    val = table[tuple(env[v] for v in variables)]
                    if val != pol:
                        reached = False
                if reached != ((not is_h) or keep):
                    ok = False
    ctx.ob('C07.R3', 'hydrogens:stripped-unless-keep-protons', ok,
           'an atom is yielded iff it is not a hydrogen or keep_protons is set', rl.mod,
           ys[0] if ys else rl.loop)
    # callers
    for m2, q2, f2 in prog.all_funcs():
        for c in calls_in(f2, nested=False):
            if (call_name(c) or '').split('.')[-1] == rl.fn.name:
                a1 = call_arg(c, rl.fn, 'ignore_residues')
                a2 = call_arg(c, rl.fn, 'keep_protons')
                a3 = call_arg(c, rl.fn, 'tags')
                ctx.ob('C07.R3', 'caller:%s.%s' % (m2.name, q2),
                       a1 is not None and norm(a1).endswith('parameters.ignore_residues')
                       and a2 is not None and norm(a2).endswith('options.keep_protons')
                       and a3 is None,
                       'the reader is called with the configured ignore list, options.keep_protons '
                       'and the default record tags', m2, c)
    ign_list = cfg.get('ignore_residues')
    ctx.ob('C07.R3', 'cfg:water-ignored', 'HOH' in ign_list and 'H2O' in ign_list,
           'the shipped ignore list contains water (HOH, H2O): %s' % sorted(set(ign_list)),
           prog.mod('parameters'), prog.mod('parameters').cls('Parameters'))
    # ignore_residues has no other reader
    readers = set()
    for m2, q2, f2 in prog.all_funcs():
        for n in walk_no_nested(f2):
            if isinstance(n, ast.Attribute) and n.attr == 'ignore_residues':
                readers.add((m2.name, q2))
    ctx.ob('C07.R3', 'ignore-list:single-reader', readers == {('input', 'read_pdb')},
           'parameters.ignore_residues is consumed by the PDB reader only (%s)' % sorted(readers),
           rl.mod, rl.fn)

    # ------------------------------------------------------------------ R4
    lib = prog.mod('lib')
    opts = common.parser_options(prog)
    reads = common.option_reads(prog)
    ocls = lib.cls('Options')
    declared = set()
    declared_unused = dict(UNUSED_OPTIONS)
    for node in ocls.body:
        if isinstance(node, ast.AnnAssign) and isinstance(node.target, ast.Name):
            declared.add(node.target.id)
            if norm(node.annotation) == 'NoReturn':
                declared_unused[node.target.id] = ('annotated NoReturn in the Options class: '
                                                   'declared unused by the project')
    dests = {o['dest'] for o in opts if o.get('dest') and o.get('action') != 'version'
             and o['dest'] != 'version'}
    for d in sorted(dests):
        ok = d in reads or d in declared_unused
        ctx.ob('C07.R4', 'option-consumed:' + d, ok,
               'option %s is read somewhere as options.%s%s' % (
                   d, d, '' if d in reads else ' (%s)' % declared_unused.get(d, 'NOT read: the '
                                                                           'flag has no effect')),
               lib, next(o['node'] for o in opts if o.get('dest') == d))
    for name, sites in sorted(reads.items()):
        ok = name in dests or name in declared
        ctx.ob('C07.R4', 'option-declared:' + name, ok,
               'options.%s read in %s has a parser destination or class default'
               % (name, sites[0][1]), sites[0][0], sites[0][2])
    for flag, dest in (('--keep-protons', 'keep_protons'), ('--protonate-all', 'protonate_all')):
        o = [x for x in opts if flag in x['flags']]
        ctx.ob('C07.R4', 'option:' + flag,
               len(o) == 1 and o[0].get('dest') == dest and o[0].get('action') == 'store_true'
               and o[0].get('default') in ('False', None),
               '%s is a store_true flag into options.%s, default off' % (flag, dest), lib,
               o[0]['node'] if o else lib.func('build_parser'))
    hyd = prog.mod('hydrogens')
    sbp = hyd.func('setup_bonding_and_protonation')
    pcalls = [c for c in calls_in(sbp, nested=False) if last_attr(c) == 'protonate']
    ok = len(pcalls) == 1 and any(p and t.endswith('options.protonate_all')
                                  for t, p in fact_texts(pcalls[0], sbp))
    ctx.ob('C07.R4', 'protonate-all:wired', ok,
           'eager protonation runs exactly under options.protonate_all', hyd,
           pcalls[0] if pcalls else sbp)

    # the heavy-atom view used by the desolvation and buried counts
    ccm = prog.mod('conformation_container')
    gnh = ccm.func('ConformationContainer.get_non_hydrogen_atoms')
    gcan = canon(gnh)
    grets = [gcan.text(r.value) for r in walk_no_nested(gnh) if isinstance(r, ast.Return)
             and r.value is not None]
    ctx.ob('C07.R3', 'heavy-atom-view:filter-of-current-atoms',
           grets == ["[v1 for v1 in self.atoms if v1.element != 'H']"],
           'get_non_hydrogen_atoms returns a fresh filter of the current atom list on every call '
           '(a stored list can alias `atoms` itself - remove_all_hydrogen_atoms assigns the result '
           'to it - and then collects the hydrogens added later); returns: %s' % grets, ccm, gnh)

    # ------------------------------------------------------------------ R5
    pr = prog.mod('protonate')
    pa = pr.func('Protonate.protonate_atom')
    from sa.astutil import effective
    first = effective(pa.body)
    pa_atom = pa.args.args[1].arg
    ok = bool(first) and isinstance(first[0], ast.If) and norm(first[0].test) == pa_atom + '.is_protonated' \
        and block_always_exits(first[0].body)
    ctx.ob('C07.R5', 'protonate_atom:idempotent-guard', ok,
           'protonate_atom returns before any effect when the atom is already protonated', pr,
           first[0] if first else pa)
    last = pa.body[-1]
    ctx.ob('C07.R5', 'protonate_atom:marks-at-end',
           isinstance(last, ast.Assign) and norm(last) == pa_atom + '.is_protonated = True',
           'is_protonated is set as the last step of protonate_atom', pr, last)
    wr = set()
    for m2, q2, f2 in prog.all_funcs():
        for n in walk_no_nested(f2):
            if isinstance(n, ast.Assign) and any(isinstance(t, ast.Attribute)
                                                 and t.attr == 'is_protonated' for t in n.targets):
                wr.add((m2.name, q2))
    ctx.ob('C07.R5', 'is_protonated:single-writer', wr == {('protonate', 'Protonate.protonate_atom')},
           'is_protonated is written only by protonate_atom (%s)' % sorted(wr), pr, pa)
    pp = pr.func('Protonate.protonate')
    calls = [c for c in calls_in(pp, nested=False) if last_attr(c) == 'protonate_atom']
    ok = len(calls) == 1 and 'get_non_hydrogen_atoms()' in norm(pp) and \
        'conformation_names' in norm(pp)
    ctx.ob('C07.R5', 'protonate:same-routine-heavy-atoms', ok,
           'eager protonation applies the same protonate_atom to the heavy atoms of every '
           'conformation', pr, calls[0] if calls else pp)
    # hydrogens created lazily and eagerly come from one construction routine
    ap = [q for m2, q, f2 in prog.all_funcs() if m2.name == 'protonate'
          for c in calls_in(f2, nested=False) if last_attr(c) == 'add_proton']
    ctx.ob('C07.R5', 'add_proton:callers', set(ap) <= {'Protonate.trigonal', 'Protonate.tetrahedral'}
           and bool(ap),
           'hydrogens are created only by trigonal/tetrahedral (callers %s)' % sorted(set(ap)),
           pr, pr.func('Protonate.add_proton'))
    # --protonate-all removes the hydrogens that --keep-protons kept before it
    # rebuilds them: they have to leave the bond lists too (rule shared with C11.L1)
    common.check_bond_writers(ctx, 'C07.R5', prog)
    ctx.assume('equality of eagerly (--protonate-all) and lazily built hydrogens, and the '
               '--keep-protons round trip, are not decided (construction order can matter)')
