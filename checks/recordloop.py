"""Analysis of the PDB record loop (input.get_atom_lines_from_pdb), shared by
C01.R6, C06, C07.R3 and C13."""
import ast

from sa.astutil import (norm, walk_no_nested, names_in, dotted, block_always_exits,
                        try_fold, call_name, guards_of, fact_texts)
from sa.loader import AnalysisError
from sa.tables import subscript_range, columns_of_slice


class RecordLoop:
    def __init__(self, prog):
        self.prog = prog
        self.mod = prog.mod('input')
        self.fn = self._find_fn()
        self.params = [a.arg for a in self.fn.args.args + self.fn.args.kwonlyargs]
        self.loop = self._find_loop()
        self.line = self.loop.target.id
        self.aliases = self._aliases()          # local name -> (lo, hi) record slice
        self.atom_block = self._find_atom_block()
        self.state_vars = self._state_vars()
        self.terminal_var = self._terminal_var()

    def _find_fn(self):
        fn = self.mod.funcs.get('get_atom_lines_from_pdb')
        if fn is not None:
            return fn
        for qual, cand in self.mod.funcs.items():
            if any(isinstance(n, (ast.Yield, ast.YieldFrom)) for n in walk_no_nested(cand)):
                return cand
        raise AnalysisError('record loop: generator over PDB records not found')

    def _find_loop(self):
        loops = [n for n in walk_no_nested(self.fn) if isinstance(n, ast.For)
                 and isinstance(n.target, ast.Name)
                 and any(isinstance(y, ast.Yield) for y in ast.walk(n))]
        if len(loops) != 1:
            raise AnalysisError('record loop: expected one yielding loop, found %d' % len(loops))
        return loops[0]

    def _aliases(self):
        """Locals bound to a fixed slice of the record.  A slice passed through
        string methods (``line[0:6].rstrip().ljust(6)``) still counts as an
        alias of those columns but is remembered in ``self.transformed``: the
        comparisons then no longer see the raw columns."""
        res = {}
        self.transformed = {}
        for node in walk_no_nested(self.loop):
            if isinstance(node, ast.Assign) and len(node.targets) == 1 \
                    and isinstance(node.targets[0], ast.Name):
                val = node.value
                chain = []
                while isinstance(val, ast.Call) and isinstance(val.func, ast.Attribute) \
                        and val.func.attr in ('strip', 'rstrip', 'lstrip', 'ljust', 'rjust', 'upper',
                                              'lower', 'replace', 'center', 'expandtabs', 'casefold',
                                              'title', 'zfill', 'removesuffix', 'removeprefix'):
                    chain.append(val.func.attr)
                    val = val.func.value
                if isinstance(val, ast.Subscript) and dotted(val.value) == self.line:
                    rng = subscript_range(val)
                    if rng is not None:
                        res.setdefault(node.targets[0].id, []).append((rng, node))
                        if chain:
                            plain = all(isinstance(c, ast.Call) and not c.args and not c.keywords
                                        for c in ast.walk(node.value)
                                        if isinstance(c, ast.Call))
                            self.transformed[node.targets[0].id] = (norm(node.value), node, chain, plain)
        return res

    def slice_of(self, expr):
        """Record columns denoted by ``expr``: a direct subscript of the record
        variable, or a local that is only ever assigned such a subscript.
        Returns (lo, hi) or None."""
        if isinstance(expr, ast.Subscript) and dotted(expr.value) == self.line:
            return subscript_range(expr)
        if isinstance(expr, ast.Name) and expr.id in self.aliases:
            defs = self.aliases[expr.id]
            all_defs = [s for s in walk_no_nested(self.fn) if isinstance(s, ast.Assign)
                        and any(isinstance(t, ast.Name) and t.id == expr.id for t in s.targets)]
            if len(defs) == len(all_defs) and len({d[0] for d in defs}) == 1:
                return defs[0][0]
        if isinstance(expr, ast.Call) and isinstance(expr.func, ast.Attribute) \
                and expr.func.attr in ('strip', 'rstrip', 'lstrip') and not expr.args:
            return self.slice_of(expr.func.value)
        return None

    def _find_atom_block(self):
        """The ``if <record tag> in <parameter>:`` statement (record-type filter
        for atoms); the parameter is remembered as ``tags_param``."""
        for stmt in self.loop.body:
            if isinstance(stmt, ast.If) and isinstance(stmt.test, ast.Compare) \
                    and isinstance(stmt.test.ops[0], ast.In) \
                    and any(isinstance(y, ast.Yield) for y in ast.walk(stmt)):
                sl = self.slice_of(stmt.test.left)
                rhs = stmt.test.comparators[0]
                if sl == (0, 6) and isinstance(rhs, ast.Name) and rhs.id in self.params:
                    self.tags_param = rhs.id
                    self.outside = [x for x in self.loop.body if x is not stmt]
                    return stmt
        # guard form (the loader reads a trailing `if T: <block>` of a loop body
        # as `if not T: continue` followed by the block): the atom block is the
        # rest of the loop body behind the record-type guard
        for idx, stmt in enumerate(self.loop.body):
            if isinstance(stmt, ast.If) and not stmt.orelse and len(stmt.body) == 1 \
                    and isinstance(stmt.body[0], ast.Continue) and isinstance(stmt.test, ast.Compare) \
                    and isinstance(stmt.test.ops[0], ast.NotIn):
                sl = self.slice_of(stmt.test.left)
                rhs = stmt.test.comparators[0]
                rest = self.loop.body[idx + 1:]
                if sl == (0, 6) and isinstance(rhs, ast.Name) and rhs.id in self.params \
                        and any(isinstance(y, ast.Yield) for st in rest for y in ast.walk(st)):
                    self.tags_param = rhs.id
                    self.tag_guard = stmt
                    self.outside = self.loop.body[:idx]     # statements run for every record
                    block = ast.If(test=ast.Compare(left=stmt.test.left, ops=[ast.In()],
                                                    comparators=[rhs]), body=rest, orelse=[])
                    ast.copy_location(block, stmt)
                    block.end_lineno = getattr(rest[-1], 'end_lineno', stmt.lineno)
                    block._parent = self.loop
                    block.test._parent = block
                    return block
        raise AnalysisError('record loop: atom-record block (`if <tag> in <parameter>`) not found')

    def _state_vars(self):
        """Loop-carried variables: assigned before the loop and inside it."""
        before = set()
        for stmt in self.fn.body:
            if stmt is self.loop:
                break
            for node in walk_no_nested(stmt):
                if isinstance(node, ast.Assign):
                    for t in node.targets:
                        if isinstance(t, ast.Name):
                            before.add(t.id)
        inside = set()
        for node in walk_no_nested(self.loop):
            if isinstance(node, (ast.Assign, ast.AugAssign)):
                tgts = node.targets if isinstance(node, ast.Assign) else [node.target]
                for t in tgts:
                    if isinstance(t, ast.Name):
                        inside.add(t.id)
        return sorted(before & inside)

    def _terminal_var(self):
        """The loop-carried variable whose value is stored into
        ``<atom>.terminal`` (role: terminus tag of the current record)."""
        for node in walk_no_nested(self.loop):
            if isinstance(node, ast.Assign) and isinstance(node.targets[0], ast.Attribute) \
                    and node.targets[0].attr == 'terminal' and isinstance(node.value, ast.Name):
                return node.value.id
        raise AnalysisError('record loop: no `<atom>.terminal = <tag variable>` store found')

    def state_writes(self, root):
        """Assign/AugAssign statements under ``root`` that store a state var."""
        res = []
        for node in walk_no_nested(root):
            if isinstance(node, (ast.Assign, ast.AugAssign)):
                tgts = node.targets if isinstance(node, ast.Assign) else [node.target]
                for t in tgts:
                    for sub in ast.walk(t):
                        if isinstance(sub, ast.Name) and sub.id in self.state_vars:
                            res.append((node, sub.id))
        return res

    def filters(self):
        """Top-level ``if <test>: continue`` statements of the atom block,
        in order: [(index, stmt)]."""
        res = []
        for idx, stmt in enumerate(self.atom_block.body):
            if isinstance(stmt, ast.If) and not stmt.orelse and len(stmt.body) == 1 \
                    and isinstance(stmt.body[0], ast.Continue):
                res.append((idx, stmt))
        return res

    def columns_in(self, expr):
        """Sorted set of PDB field names read by ``expr`` from the record."""
        cols = set()
        for node in ast.walk(expr):
            sl = None
            if isinstance(node, ast.Subscript) and dotted(node.value) == self.line:
                sl = subscript_range(node)
                if sl is None:
                    cols.add('?')
            elif isinstance(node, ast.Name) and node.id in self.aliases \
                    and isinstance(node.ctx, ast.Load):
                sl = self.slice_of(node)
            elif isinstance(node, ast.Name) and node.id == self.line \
                    and not isinstance(getattr(node, '_parent', None), ast.Subscript):
                cols.add('*')
            if sl is not None:
                cols.update(columns_of_slice(sl[0], sl[1]))
        return sorted(cols)


def check_terminus_latch(ctx, rule, rl):
    """The chain-terminus state machine of the record loop: the "next residue
    is an N-terminus" latch is armed by MODEL, TER and terminal-oxygen records
    and consumed only by ATOM records of a new residue."""
    from sa.tables import columns_of_slice
    term_c = [s for s in walk_no_nested(rl.loop) if isinstance(s, ast.Assign)
              and norm(s.targets[0]) == rl.terminal_var and isinstance(s.value, ast.Constant)
              and s.value.value == 'C-']
    nplus = [s for s in walk_no_nested(rl.loop) if isinstance(s, ast.Assign)
             and norm(s.targets[0]) == rl.terminal_var and isinstance(s.value, ast.Constant)
             and s.value.value == 'N+']
    if len(nplus) != 1 or len(term_c) != 1:
        raise AnalysisError(rule + ': terminus tagging statements not found')
    latch, key_var = None, None
    for t, p, _k in guards_of(nplus[0], rl.loop):
        for sub in ast.walk(t):
            if isinstance(sub, ast.Compare) and isinstance(sub.ops[0], ast.Eq) and p:
                names = [norm(sub.left), norm(sub.comparators[0])]
                st = [n for n in names if n in rl.state_vars]
                al = [n for n in names if n in rl.aliases]
                if len(st) == 1 and len(al) == 1:
                    latch, key_var = st[0], al[0]
    if latch is None:
        raise AnalysisError(rule + ': latch comparison guarding terminal = "N+" not found')
    sentinel = None
    for stmt in rl.fn.body:
        if stmt is rl.loop:
            break
        if isinstance(stmt, ast.Assign) and norm(stmt.targets[0]) == latch:
            sentinel = norm(stmt.value)
    ctx.note('latch', {'variable': latch, 'key': key_var, 'sentinel': sentinel})
    rearm = [s for s in walk_no_nested(rl.loop) if isinstance(s, ast.Assign)
             and norm(s.targets[0]) == latch and norm(s.value) == sentinel]

    def rearmed_under(pred):
        for s in rearm:
            for t, p, _k in guards_of(s, rl.loop):
                if p and pred(t):
                    return s
        return None
    def tag_is(value):
        def pred(t):
            if isinstance(t, ast.Compare) and isinstance(t.ops[0], ast.Eq):
                sides = [t.left, t.comparators[0]]
                lits = [x.value for x in sides if isinstance(x, ast.Constant)]
                recs = [x for x in sides if rl.slice_of(x) == (0, 6)]
                return len(lits) == 1 and isinstance(lits[0], str) \
                    and lits[0].strip() == value.strip() and len(recs) == 1
            return False
        return pred
    s_model = rearmed_under(tag_is('MODEL '))
    s_ter = rearmed_under(tag_is('TER   '))
    ctx.ob(rule, 'latch:re-armed-on-MODEL', s_model is not None,
           'a MODEL record re-arms the N-terminus latch (the first residue of a model is a chain '
           'start)', rl.mod, s_model or rl.loop)
    ctx.ob(rule, 'latch:re-armed-on-TER', s_ter is not None,
           'a TER record re-arms the N-terminus latch', rl.mod, s_ter or rl.loop)
    # a TER record is often written without padding ("TER" + newline): the test
    # must not depend on columns 4-6 being blanks
    unpadded_ok = False
    if s_ter is not None:
        for t, p, _k in guards_of(s_ter, rl.loop):
            if p and tag_is('TER   ')(t):
                sides = [t.left, t.comparators[0]]
                lit = [x.value for x in sides if isinstance(x, ast.Constant)][0]
                rec = [x for x in sides if not isinstance(x, ast.Constant)][0]
                stripped = isinstance(rec, ast.Call) and isinstance(rec.func, ast.Attribute) \
                    and rec.func.attr in ('strip', 'rstrip') and not rec.args
                unpadded_ok = stripped and lit == 'TER'
    ctx.ob(rule, 'latch:TER-recognised-unpadded', unpadded_ok,
           'the TER test compares the stripped record name with "TER", so that a TER line '
           'shorter than six columns ("TER\\n", as many programs write it) ends the chain too',
           rl.mod, s_ter or rl.loop)
    s_oxt = next((s for s in rearm if s._parent is term_c[0]._parent), None)
    ctx.ob(rule, 'latch:re-armed-on-terminal-oxygen', s_oxt is not None,
           'a residue carrying a terminal oxygen re-arms the latch (next residue starts a chain)',
           rl.mod, s_oxt or term_c[0])
    # MODEL/TER tests must not be conditional on anything else
    for name, s in (('MODEL', s_model), ('TER', s_ter)):
        if s is not None:
            gs = [g for g in guards_of(s, rl.loop)]
            ctx.ob(rule, 'latch:%s-unconditional' % name, len(gs) == 1,
                   'the %s re-arm depends on the record tag only' % name, rl.mod, s)
    sl = rl.slice_of(ast.Name(id=key_var, ctx=ast.Load()))
    cols = columns_of_slice(sl[0], sl[1]) if sl else []
    need = {'chain', 'resseq', 'icode'}
    ctx.ob(rule, 'latch:residue-key-columns', sl is not None and need <= set(cols)
           and set(cols) <= need,
           'the residue key compared with the latch covers chain, residue number and insertion '
           'code (columns 22-27); it covers %s. A key of the number alone mistakes the first '
           'residue of a chain for a continuation when it repeats the number of the previous '
           'chain\'s last residue' % cols, rl.mod,
           rl.aliases[key_var][0][1] if key_var in rl.aliases else rl.loop)
    # arming: latch := key only for ATOM records when armed and the residue changed
    arms = [s for s in walk_no_nested(rl.loop) if isinstance(s, ast.Assign)
            and norm(s.targets[0]) == latch and norm(s.value) == key_var]
    ok = False
    if len(arms) == 1:
        facts = fact_texts(arms[0], rl.loop)
        pos = [t for t, p in facts if p]
        ok = any(t == '%s == %s' % (latch, sentinel) for t in pos) and \
            any("== 'ATOM  '" in t for t in pos) and \
            any('!= ' + key_var in t for t in pos)
    ctx.ob(rule, 'latch:arming', ok,
           'the latch takes the key of the next ATOM residue when armed and the residue differs '
           'from the one that carried the terminal oxygen', rl.mod, arms[0] if arms else rl.loop)
    # N+ only for atom name N of ATOM records; C- for terminal oxygen names
    facts = [t for t, p in fact_texts(nplus[0], rl.loop) if p]
    name_ok = False
    for t, p, _k in guards_of(nplus[0], rl.loop):
        for sub in ast.walk(t):
            if isinstance(sub, ast.Compare) and isinstance(sub.comparators[0], ast.Constant) \
                    and sub.comparators[0].value == 'N' and rl.slice_of(sub.left) == (12, 16):
                name_ok = True
    ctx.ob(rule, 'N+:atom-name-N-of-ATOM-record',
           name_ok and any("== 'ATOM  '" in t for t in facts),
           'the N+ tag goes to the atom named N (name columns 13-16) of an ATOM record', rl.mod,
           nplus[0])
    # the tag is attached to the atom and cleared after every record
    blk = rl.atom_block.body
    attach = [s for s in blk if isinstance(s, ast.Assign) and norm(s.targets[0]).endswith('.terminal')
              and norm(s.value) == rl.terminal_var]
    clear = [s for s in blk if isinstance(s, ast.Assign) and norm(s.targets[0]) == rl.terminal_var
             and norm(s.value) == 'None']
    ys = [s for s in blk if any(isinstance(y, ast.Yield) for y in ast.walk(s))]
    ok = len(attach) == 1 and len(clear) == 1 and len(ys) == 1 and \
        blk.index(attach[0]) < blk.index(ys[0]) < blk.index(clear[0])
    ctx.ob(rule, 'terminal:attached-then-cleared', ok,
           'the tag is stored on the atom before it is yielded and reset afterwards, for every '
           'record', rl.mod, attach[0] if attach else rl.atom_block)
    # records that are filtered out (ignored residues, unselected chains) must
    # not take part in the bookkeeping: every `if ...: continue` filter of the
    # atom block comes before the first statement that writes the latch state
    first_write = None
    for i_, stmt in enumerate(rl.atom_block.body):
        if rl.state_writes(stmt):
            first_write = i_
            break
    late = [st for i_, st in rl.filters() if first_write is not None and i_ > first_write]
    ctx.ob(rule, 'latch:filters-precede-bookkeeping', first_write is not None and not late,
           'every record filter of the atom block precedes the terminus bookkeeping, so a record '
           'that is skipped neither consumes nor re-arms the N-terminus latch (late filters: %s)'
           % [norm(st.test)[:50] for st in late], rl.mod, late[0] if late else rl.atom_block)
    # hydrogens that are dropped (no keep-protons) are records that are filtered
    # out as well: the test on the element must come before the bookkeeping too
    h_filters = [i_ for i_, st in rl.filters()
                 if any(isinstance(x, ast.Constant) and x.value == 'H' for x in ast.walk(st.test))
                 and any(isinstance(x, ast.Attribute) and x.attr == 'element' for x in ast.walk(st.test))]
    ctx.ob(rule, 'latch:hydrogens-skipped-before-bookkeeping',
           bool(h_filters) and first_write is not None and max(h_filters) < first_write,
           'a hydrogen record that will be discarded is skipped before the terminus bookkeeping '
           '(a filter on the element in front of the first state write: %s); dropping it only at '
           'the yield lets a stray hydrogen record of another residue consume the N-terminus latch'
           % bool(h_filters), rl.mod, rl.atom_block)
    ctx.need(rule, 8)



def check_raw_record_fields(ctx, rule, rl):
    """The record loop compares record fields as the raw fixed columns: no
    local holding a slice of the record is passed through a string method
    first.  (Stripping or padding a slice that can contain the line terminator
    makes the outcome depend on how the source delivered line ends - a file
    opened in text mode and an in-memory stream differ there - and case or
    white-space normalisation merges records that the format distinguishes.)"""
    from sa.canon import canon
    import re
    it = canon(rl.fn).text(rl.loop.iter)
    raw_lines = bool(re.match(r'^\w+(\.readlines\(\))?$', it))
    ctx.ob(rule, 'reader:records-are-raw-lines', raw_lines,
           'the record loop iterates the lines of the source as they are (readlines() or the '
           'handle itself), not a stripped or otherwise rewritten copy: trailing blanks are part '
           'of fixed-column records such as "TER   " (iterates: %s)' % it, rl.mod, rl.loop)
    # A local bound to a stripped slice is the same program as one that strips
    # at every use (`name = rec[12:16].strip()` ... `name == 'N'` against
    # `name = rec[12:16]` ... `name.strip() == 'N'`): harmless exactly when
    # every use is a comparison with blank-free constants, which is what a
    # strip at the use could be compared with as well.  Padding, case folding,
    # replacement, or a strip with arguments are not comparisons of the raw
    # columns any more.
    bad = []
    for name, (text, node, chain, plain) in sorted(rl.transformed.items()):
        why = None
        if not plain or any(c not in ('strip', 'rstrip', 'lstrip') for c in chain):
            why = 'not a plain strip'
        else:
            for use in walk_no_nested(rl.fn):
                if not (isinstance(use, ast.Name) and use.id == name and isinstance(use.ctx, ast.Load)):
                    continue
                par = use._parent
                if not (isinstance(par, ast.Compare) and len(par.ops) == 1 and par.left is use
                        and isinstance(par.ops[0], (ast.Eq, ast.NotEq, ast.In, ast.NotIn))):
                    why = 'used outside a comparison: %s' % norm(par)[:50]
                    break
                other = par.comparators[0]
                consts = None
                if isinstance(other, ast.Constant) and isinstance(other.value, str) \
                        and isinstance(par.ops[0], (ast.Eq, ast.NotEq)):
                    consts = [other.value]
                elif isinstance(other, (ast.List, ast.Tuple, ast.Set)) and all(
                        isinstance(e, ast.Constant) and isinstance(e.value, str) for e in other.elts):
                    consts = [e.value for e in other.elts]
                if consts is None or any(c != c.strip() or not c for c in consts):
                    why = 'compared with something other than blank-free constants: %s' % norm(par)[:50]
                    break
        if why:
            bad.append((name, text, why, node))
    ctx.ob(rule, 'reader:record-fields-raw', not bad,
           'record fields are compared as raw columns, or stripped and compared with blank-free '
           'constants (%d slice locals; transformed otherwise: %s)'
           % (len(rl.aliases), {b[0]: (b[1], b[2]) for b in bad}), rl.mod,
           bad[0][3] if bad else rl.loop)


def check_membership_params_materialised(ctx, rule, rl):
    """A parameter of the record generator that is tested with ``in`` for every
    record must be a real container by then: a parameter declared as a mere
    Iterable (a generator, ``iter(list)``, a ``filter`` object are Iterables)
    is consumed by the first membership tests, after which every record fails
    the test.  Either the annotation promises a container, or the function
    materialises the argument before the loop."""
    import re
    tested = {}
    for node in walk_no_nested(rl.loop):
        if isinstance(node, ast.Compare) and isinstance(node.ops[0], (ast.In, ast.NotIn)) \
                and isinstance(node.comparators[0], ast.Name) and node.comparators[0].id in rl.params:
            tested.setdefault(node.comparators[0].id, node)
    args = {a.arg: a for a in rl.fn.args.args + rl.fn.args.kwonlyargs}
    for name, site in sorted(tested.items()):
        ann = norm(args[name].annotation) if args[name].annotation is not None else ''
        container = bool(re.search(r'\b(List|Tuple|Set|FrozenSet|Sequence|Collection|Container|'
                                   r'AbstractSet|list|tuple|set|frozenset|str)\b', ann)) \
            and 'Iterable' not in ann and 'Iterator' not in ann
        materialised = False
        for stmt in rl.fn.body:
            if stmt is rl.loop:
                break
            for n in ast.walk(stmt):
                if isinstance(n, ast.Assign) and norm(n.targets[0]) == name and isinstance(n.value, ast.Call) \
                        and call_name(n.value) in ('tuple', 'list', 'set', 'frozenset') \
                        and [norm(a) for a in n.value.args] == [name]:
                    materialised = True
        ctx.ob(rule, 'membership-parameter-is-a-container:' + name, container or materialised,
               'parameter %s (annotated %s) is tested with `in` for every record: it is declared as '
               'a container or materialised before the loop (a one-shot iterable would be used up '
               'by the first records)' % (name, ann or 'nothing'), rl.mod, site)
