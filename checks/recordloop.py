"""Analysis of the PDB record loop (input.get_atom_lines_from_pdb), shared by
C01.R6, C06, C07.R3 and C13."""
import ast

from sa.astutil import (norm, walk_no_nested, names_in, dotted, block_always_exits,
                        try_fold, call_name)
from sa.loader import AnalysisError
from sa.tables import subscript_range, columns_of_slice


class RecordLoop:
    def __init__(self, prog):
        self.prog = prog
        self.mod = prog.mod('input')
        self.fn = self._find_fn()
        self.params = [a.arg for a in self.fn.args.args + self.fn.args.kwonlyargs]
        self.loop = self._find_loop()
        self.line = self.loop.target.id
        self.aliases = self._aliases()          # local name -> (lo, hi) record slice
        self.atom_block = self._find_atom_block()
        self.state_vars = self._state_vars()
        self.terminal_var = self._terminal_var()

    def _find_fn(self):
        fn = self.mod.funcs.get('get_atom_lines_from_pdb')
        if fn is not None:
            return fn
        for qual, cand in self.mod.funcs.items():
            if any(isinstance(n, (ast.Yield, ast.YieldFrom)) for n in walk_no_nested(cand)):
                return cand
        raise AnalysisError('record loop: generator over PDB records not found')

    def _find_loop(self):
        loops = [n for n in walk_no_nested(self.fn) if isinstance(n, ast.For)
                 and isinstance(n.target, ast.Name)
                 and any(isinstance(y, ast.Yield) for y in ast.walk(n))]
        if len(loops) != 1:
            raise AnalysisError('record loop: expected one yielding loop, found %d' % len(loops))
        return loops[0]

    def _aliases(self):
        res = {}
        for node in walk_no_nested(self.loop):
            if isinstance(node, ast.Assign) and len(node.targets) == 1 \
                    and isinstance(node.targets[0], ast.Name) \
                    and isinstance(node.value, ast.Subscript) \
                    and dotted(node.value.value) == self.line:
                rng = subscript_range(node.value)
                if rng is not None:
                    res.setdefault(node.targets[0].id, []).append((rng, node))
        return res

    def slice_of(self, expr):
        """Record columns denoted by ``expr``: a direct subscript of the record
        variable, or a local that is only ever assigned such a subscript.
        Returns (lo, hi) or None."""
        if isinstance(expr, ast.Subscript) and dotted(expr.value) == self.line:
            return subscript_range(expr)
        if isinstance(expr, ast.Name) and expr.id in self.aliases:
            defs = self.aliases[expr.id]
            all_defs = [s for s in walk_no_nested(self.fn) if isinstance(s, ast.Assign)
                        and any(isinstance(t, ast.Name) and t.id == expr.id for t in s.targets)]
            if len(defs) == len(all_defs) and len({d[0] for d in defs}) == 1:
                return defs[0][0]
        if isinstance(expr, ast.Call) and isinstance(expr.func, ast.Attribute) \
                and expr.func.attr == 'strip' and not expr.args:
            return self.slice_of(expr.func.value)
        return None

    def _find_atom_block(self):
        """The ``if tag in tags:`` statement (record-type filter for atoms)."""
        tags_param = 'tags' if 'tags' in self.params else None
        for stmt in self.loop.body:
            if isinstance(stmt, ast.If) and isinstance(stmt.test, ast.Compare) \
                    and isinstance(stmt.test.ops[0], ast.In) \
                    and any(isinstance(y, ast.Yield) for y in ast.walk(stmt)):
                sl = self.slice_of(stmt.test.left)
                if sl == (0, 6) and (tags_param is None or norm(stmt.test.comparators[0]) == tags_param):
                    return stmt
        raise AnalysisError('record loop: atom-record block (`if tag in tags`) not found')

    def _state_vars(self):
        """Loop-carried variables: assigned before the loop and inside it."""
        before = set()
        for stmt in self.fn.body:
            if stmt is self.loop:
                break
            for node in walk_no_nested(stmt):
                if isinstance(node, ast.Assign):
                    for t in node.targets:
                        if isinstance(t, ast.Name):
                            before.add(t.id)
        inside = set()
        for node in walk_no_nested(self.loop):
            if isinstance(node, (ast.Assign, ast.AugAssign)):
                tgts = node.targets if isinstance(node, ast.Assign) else [node.target]
                for t in tgts:
                    if isinstance(t, ast.Name):
                        inside.add(t.id)
        return sorted(before & inside)

    def _terminal_var(self):
        """The loop-carried variable whose value is stored into
        ``<atom>.terminal`` (role: terminus tag of the current record)."""
        for node in walk_no_nested(self.loop):
            if isinstance(node, ast.Assign) and isinstance(node.targets[0], ast.Attribute) \
                    and node.targets[0].attr == 'terminal' and isinstance(node.value, ast.Name):
                return node.value.id
        raise AnalysisError('record loop: no `<atom>.terminal = <tag variable>` store found')

    def state_writes(self, root):
        """Assign/AugAssign statements under ``root`` that store a state var."""
        res = []
        for node in walk_no_nested(root):
            if isinstance(node, (ast.Assign, ast.AugAssign)):
                tgts = node.targets if isinstance(node, ast.Assign) else [node.target]
                for t in tgts:
                    for sub in ast.walk(t):
                        if isinstance(sub, ast.Name) and sub.id in self.state_vars:
                            res.append((node, sub.id))
        return res

    def filters(self):
        """Top-level ``if <test>: continue`` statements of the atom block,
        in order: [(index, stmt)]."""
        res = []
        for idx, stmt in enumerate(self.atom_block.body):
            if isinstance(stmt, ast.If) and not stmt.orelse and len(stmt.body) == 1 \
                    and isinstance(stmt.body[0], ast.Continue):
                res.append((idx, stmt))
        return res

    def columns_in(self, expr):
        """Sorted set of PDB field names read by ``expr`` from the record."""
        cols = set()
        for node in ast.walk(expr):
            sl = None
            if isinstance(node, ast.Subscript) and dotted(node.value) == self.line:
                sl = subscript_range(node)
                if sl is None:
                    cols.add('?')
            elif isinstance(node, ast.Name) and node.id in self.aliases \
                    and isinstance(node.ctx, ast.Load):
                sl = self.slice_of(node)
            elif isinstance(node, ast.Name) and node.id == self.line \
                    and not isinstance(getattr(node, '_parent', None), ast.Subscript):
                cols.add('*')
            if sl is not None:
                cols.update(columns_of_slice(sl[0], sl[1]))
        return sorted(cols)
