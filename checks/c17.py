"""C17 - added hydrogens are chemically placed and complete.

R1 position = parent + rescale(table length), R2 one parent / rounding,
R3 electron counting structure and template arithmetic over the repo's own
tables, R4 the group set-up protonates the atoms the count assumes.
"""
import ast
import math

from sa.astutil import (str_template, anorm, call_name, calls_in, dotted, norm, walk_no_nested, last_attr,
                        fact_texts, facts_at, func_params, enclosing_loops, enclosing_stmt, format_fields, try_fold, literal, FoldError)
from sa.canon import canon
from checks import common
from sa.consteval import eval_init, UNKNOWN
from sa.loader import AnalysisError
from sa.tables import module_constants


def linform(expr, classify):
    """Linear form of an arithmetic expression: {kind: coefficient}; atoms are
    classified by ``classify(node) -> kind or None``.  Returns None when the
    expression is not linear in recognised atoms (the offending node's text is
    stored under the key '?')."""
    form = {}

    def add(node, sign):
        if isinstance(node, ast.BinOp) and isinstance(node.op, (ast.Add, ast.Sub)):
            add(node.left, sign)
            add(node.right, sign if isinstance(node.op, ast.Add) else -sign)
            return
        if isinstance(node, ast.UnaryOp) and isinstance(node.op, (ast.USub, ast.UAdd)):
            add(node.operand, -sign if isinstance(node.op, ast.USub) else sign)
            return
        if isinstance(node, ast.Constant) and isinstance(node.value, (int, float)) \
                and not isinstance(node.value, bool):
            form['1'] = form.get('1', 0) + sign * node.value
            return
        kind = classify(node)
        if kind is None:
            form.setdefault('?', []).append(norm(node))
            return
        form[kind] = form.get(kind, 0) + sign
    add(expr, 1)
    return {k: v for k, v in form.items() if v != 0}


def count_atom_kind(param):
    """Classifier for the atoms of the electron-count formulas of ``param``."""
    def classify(node):
        text = norm(node)
        if isinstance(node, ast.Subscript) and isinstance(node.value, ast.Attribute) \
                and node.value.attr == 'valence_electrons' and norm(node.slice) == param + '.element':
            return 'valence'
        if text == 'len(%s.bonded_atoms)' % param:
            return 'bonds'
        if text == '%s.num_pi_elec_2_3_bonds' % param:
            return 'pi23'
        if text == '%s.num_pi_elec_conj_2_3_bonds' % param:
            return 'conj'
        if text == 'int(%s.charge)' % param:
            return 'intcharge'
        if text == '%s.charge' % param:
            return 'charge'
        if text == '%s.number_of_protons_to_add' % param:
            return 'protons'
        return None
    return classify


def eval_form(form, env):
    total = 0
    for kind, coef in form.items():
        val = 1 if kind == '1' else env[kind]
        total += coef * val
    return total


def mult_operands(node):
    if isinstance(node, ast.BinOp) and isinstance(node.op, ast.Mult):
        return sorted([norm(node.left), norm(node.right)])
    return None


def top_stmt(node, fn):
    """the statement of fn.body that contains node"""
    cur = node
    while getattr(cur, '_parent', None) is not None and cur._parent is not fn:
        cur = cur._parent
    return cur


def run(ctx):
    prog = ctx.prog
    pmod = prog.mod('protonate')
    gmod = prog.mod('group')
    penv = eval_init(prog, 'protonate', 'Protonate')
    benv = eval_init(prog, 'bonds', 'BondMaker')

    def params_of(fn):
        return [p for p in func_params(fn) if p != 'self']

    # ------------------------------------------------------------------ R1
    n_calls = 0
    sbd = pmod.func('Protonate.set_bond_distance')
    for qual in ('Protonate.trigonal', 'Protonate.tetrahedral'):
        fn = pmod.func(qual)
        can = canon(fn)
        atom = params_of(fn)[0]
        seen = {}
        for c in calls_in(fn, nested=False):
            if last_attr(c) != 'add_proton':
                continue
            n_calls += 1
            exp = can.expr(c)
            ok, why = False, 'unexpected argument shape'
            if len(exp.args) == 2 and norm(exp.args[0]) == atom and isinstance(exp.args[1], ast.BinOp) \
                    and isinstance(exp.args[1].op, ast.Add):
                sides = [exp.args[1].left, exp.args[1].right]
                origin = [x for x in sides if norm(x) == 'Vector(atom1=%s)' % atom]
                disp = [x for x in sides if isinstance(x, ast.Call) and last_attr(x) == sbd.name]
                if len(origin) == 1 and len(disp) == 1:
                    d = disp[0]
                    ok = len(d.args) == 2 and norm(d.args[1]) == atom + '.element'
                    why = 'displacement = %s(..., %s)' % (sbd.name, norm(d.args[1]) if len(d.args) == 2 else '?')
                else:
                    why = 'position is not Vector(atom1=%s) + %s(...)' % (atom, sbd.name)
            base = 'position:%s:%s' % (qual, anorm(c, fn)[:50])
            seen[base] = seen.get(base, 0) + 1
            pkey = base if seen[base] == 1 else base + '#%d' % seen[base]
            ctx.ob('C17.R1', pkey, ok,
                   'the hydrogen is placed at the parent position plus a vector rescaled to the '
                   'tabulated X-H bond length of the parent element (%s)' % why, pmod, c)
    ctx.need('C17.R1', 5)
    can = canon(sbd)
    bvec_p, elem_p = params_of(sbd)[:2]
    rets = [r for r in walk_no_nested(sbd) if isinstance(r, ast.Return) and r.value is not None]
    ok = bool(rets)
    found = []
    for r in rets:
        e = can.expr(r.value)
        found.append(norm(e))
        good = isinstance(e, ast.Call) and last_attr(e) == 'rescale' and len(e.args) == 1 \
            and norm(e.func.value) == bvec_p
        if good:
            alts = e.args[0].args if (isinstance(e.args[0], ast.Call) and norm(e.args[0].func) == 'alt') \
                else [e.args[0]]
            texts = [norm(a) for a in alts]
            table = [t for t in texts if t == 'self.bond_lengths[%s]' % elem_p]
            other = [a for a, t in zip(alts, texts) if t not in table]
            good = len(table) == 1 and all(isinstance(a, ast.Constant) and a.value == 1.0 for a in other)
        ok = ok and good
    ctx.ob('C17.R1', 'set_bond_distance:rescale-to-table-length', ok,
           'set_bond_distance returns its vector rescaled to bond_lengths[element] (1.0 only as the '
           'fallback for an element without entry); returns: %s' % found, pmod, sbd)
    # ... and that fallback is never taken: the construction routines are entered
    # only for an element that has an entry (a hydrogen on Se, P or a metal ion at
    # an invented 1.000 A is not at a tabulated length)
    adp = pmod.func('Protonate.add_protons')
    aparam = params_of(adp)[0]
    disp = [c for c in calls_in(adp, nested=False) if isinstance(c.func, ast.Subscript)
            and norm(c.func.value) == 'self.protonation_methods']
    guarded = bool(disp) and all(
        any(pol and isinstance(e, ast.Compare) and isinstance(e.ops[0], ast.In)
            and norm(e.left) == aparam + '.element'
            and norm(e.comparators[0]).replace('list(', '').replace('.keys())', '').replace('.keys()', '')
            == 'self.bond_lengths' for e, pol in facts_at(c, adp)) for c in disp)
    other_callers = sorted({q for m2, q, f2 in prog.all_funcs() for c in calls_in(f2, nested=False)
                            if last_attr(c) in ('trigonal', 'tetrahedral') and q != 'Protonate.add_protons'})
    ctx.ob('C17.R1', 'construction:only-for-tabulated-elements', guarded and not other_callers,
           'add_protons hands an atom to trigonal/tetrahedral only when its element has an X-H length in '
           'bond_lengths (%d dispatching calls; other callers of the construction routines: %s)'
           % (len(disp), other_callers), pmod, disp[0] if disp else adp)
    bl = penv.get('self.bond_lengths')
    ok = isinstance(bl, dict) and all(e in bl and isinstance(bl[e], (int, float)) and 0.8 < bl[e] < 1.7
                                      for e in ('N', 'C', 'O', 'S'))
    ctx.ob('C17.R1', 'bond-lengths:table', ok,
           'bond_lengths has X-H lengths for N, C, O and S (%s)' % (
               {k: bl[k] for k in ('N', 'C', 'O', 'S') if isinstance(bl, dict) and k in bl}), pmod,
           pmod.func('Protonate.__init__'))
    va = prog.mod('vector_algebra')
    rs = va.func('Vector.rescale')
    can = canon(rs)
    newlen = params_of(rs)[0]
    rets = [r for r in walk_no_nested(rs) if isinstance(r, ast.Return) and r.value is not None]
    ok = bool(rets)
    for r in rets:
        e = can.expr(r.value)
        kws = {k.arg: k.value for k in e.keywords} if isinstance(e, ast.Call) else {}
        good = isinstance(e, ast.Call) and norm(e.func) == 'Vector' and not e.args \
            and sorted(kws) == ['xi', 'yi', 'zi']
        for kw, comp in (('xi', 'x'), ('yi', 'y'), ('zi', 'z')):
            good = good and mult_operands(kws.get(kw)) == sorted(
                ['self.' + comp, '%s / self.length()' % newlen])
        ok = ok and good
    ctx.ob('C17.R1', 'rescale:length', ok,
           'Vector.rescale multiplies every component by new_length / length', va, rs)

    # every heavy atom that is visited goes through the electron count: the only
    # atoms protonate_atom leaves alone are those it has done already and the
    # hydrogens themselves.  (A further shortcut - "carries a hydrogen already,
    # leave it" - stops a partially protonated NH2 of --keep-protons input from
    # being completed: ASN 1 of 2, ARG 4 of 5, and the warning.)
    pa17 = pmod.func('Protonate.protonate_atom')
    ap17 = params_of(pa17)[0]
    steps = [c for c in calls_in(pa17, nested=False) if last_attr(c) in (
        'set_number_of_protons_to_add', 'set_steric_number_and_lone_pairs', 'add_protons')]
    allowed17 = {ap17 + '.is_protonated', "%s.element == 'H'" % ap17}
    extra17 = []
    for c in steps:
        for e, pol in facts_at(c, pa17):
            t = norm(e)
            if not ((not pol and t in allowed17) or (pol and t == "%s.element != 'H'" % ap17)):
                extra17.append(('' if pol else 'not ') + t)
    ctx.ob('C17.R3', 'protonate_atom:count-for-every-unvisited-heavy-atom',
           len(steps) == 3 and not extra17,
           'protonate_atom runs the count and the construction for every atom that is not marked '
           'protonated and is not a hydrogen (further conditions: %s)' % sorted(set(extra17)),
           pmod, steps[0] if steps else pa17)
    # a direction obtained by adding up unit vectors to the neighbours is tested
    # for cancellation before it is used: for a linear two-neighbour centre or a
    # symmetric planar three-neighbour centre the sum is zero or rounding noise,
    # the rescaled "direction" then points anywhere (or divides by zero) and a
    # zero rotation axis makes the helper turn about the laboratory z axis
    n_sums = 0
    for qual in ('Protonate.trigonal', 'Protonate.tetrahedral'):
        fn = pmod.func(qual)
        units = {st.targets[0].id for st in walk_no_nested(fn) if isinstance(st, ast.Assign)
                 and isinstance(st.targets[0], ast.Name) and isinstance(st.value, ast.Call)
                 and last_attr(st.value) == 'rescale' and try_fold(st.value.args[0]) == 1.0}

        def terms(e):
            if isinstance(e, ast.BinOp) and isinstance(e.op, (ast.Add, ast.Sub)):
                l, r = terms(e.left), terms(e.right)
                return None if l is None or r is None else l + r
            if isinstance(e, ast.UnaryOp) and isinstance(e.op, (ast.USub, ast.UAdd)):
                return terms(e.operand)
            if isinstance(e, ast.Name) and e.id in units:
                return [e.id]
            return None
        for st in walk_no_nested(fn):
            if not (isinstance(st, ast.Assign) and isinstance(st.targets[0], ast.Name)):
                continue
            ts = terms(st.value)
            if ts is None or len(ts) < 2:
                continue
            n_sums += 1
            var = st.targets[0].id
            # uses of the sum up to its next re-binding, in the same block
            blk = st._parent
            body = blk.body if st in getattr(blk, 'body', []) else getattr(blk, 'orelse', [])
            later = body[body.index(st) + 1:]
            unguarded = []
            for nxt in later:
                rebound = isinstance(nxt, ast.Assign) and norm(nxt.targets[0]) == var
                for n in ast.walk(nxt):
                    if isinstance(n, ast.Name) and n.id == var and isinstance(n.ctx, ast.Load):
                        par = n._parent
                        in_test = isinstance(par, ast.Attribute) and par.attr == 'length'
                        facts = [norm(e) for e, _p in facts_at(n, fn)]
                        if not in_test and not any('%s.length()' % var in t for t in facts):
                            unguarded.append(n)
                if rebound:
                    break
            ctx.ob('C17.R5', 'sum-of-unit-vectors-tested:%s:%s' % (qual, anorm(st, fn)[:50]), not unguarded,
                   'the sum %s of unit vectors to the neighbours is used as a direction or axis only '
                   'after a test of its length (%d uses without)' % (norm(st.value), len(unguarded)),
                   pmod, unguarded[0] if unguarded else st)
        # a sum that is used where it is written (no local of its own) cannot have been tested
        for node in walk_no_nested(fn):
            if not isinstance(node, (ast.BinOp, ast.UnaryOp)):
                continue
            par = node._parent
            if isinstance(par, (ast.BinOp, ast.UnaryOp)) and terms(par) is not None:
                continue            # not maximal
            ts = terms(node)
            if ts is None or len(ts) < 2:
                continue
            if isinstance(par, ast.Assign) and par.value is node and isinstance(par.targets[0], ast.Name):
                continue            # handled above
            n_sums += 1
            txt = norm(node)
            tested = any(('(%s).length()' % txt) in norm(e) or ('%s.length()' % txt) in norm(e)
                         for e, _p in facts_at(node, fn))
            in_test = isinstance(par, ast.Attribute) and par.attr == 'length'
            ctx.ob('C17.R5', 'sum-of-unit-vectors-tested:%s:%s' % (qual, anorm(node, fn)[:50]),
                   tested or in_test,
                   'the sum %s of unit vectors to the neighbours is used as a direction or axis only '
                   'after a test of its length (used where it is written, untested)' % txt, pmod, node)
    ctx.need('C17.R5', 3)
    ctx.note('direction_sums', n_sums)

    # ------------------------------------------------------------------ R2
    ap = pmod.func('Protonate.add_proton')
    can = canon(ap)
    atom, pos = params_of(ap)[:2]
    new_defs = [s for s in walk_no_nested(ap) if isinstance(s, ast.Assign) and len(s.targets) == 1
                and isinstance(s.targets[0], ast.Name) and isinstance(s.value, ast.Call)
                and (call_name(s.value) or '').split('.')[-1] == 'Atom']
    hvar = new_defs[0].targets[0].id if len(new_defs) == 1 else None
    if hvar is None:
        raise AnalysisError('C17.R2: add_proton does not create exactly one new Atom')
    attr_stores = {}
    for s in walk_no_nested(ap):
        if isinstance(s, ast.Assign) and len(s.targets) == 1 and isinstance(s.targets[0], ast.Attribute) \
                and norm(s.targets[0].value) == hvar:
            attr_stores.setdefault(s.targets[0].attr, []).append(s)
    bonded = attr_stores.get('bonded_atoms', [])
    appends = [c for c in calls_in(ap, nested=False) if last_attr(c) == 'append'
               and norm(c.func.value) == atom + '.bonded_atoms']
    other_bond_writes = [c for c in calls_in(ap, nested=False)
                         if last_attr(c) in ('append', 'extend', 'insert', 'remove')
                         and norm(c.func.value) in (hvar + '.bonded_atoms',)]
    ctx.ob('C17.R2', 'add_proton:single-parent',
           len(bonded) == 1 and norm(bonded[0].value) == '[%s]' % atom
           and len(appends) == 1 and [norm(a) for a in appends[0].args] == [hvar]
           and not other_bond_writes,
           'a new hydrogen is bonded to exactly its parent and the parent to it', pmod,
           bonded[0] if bonded else ap)
    coords = {}
    for c in calls_in(ap, nested=False):
        if last_attr(c) == 'set_property' and norm(c.func.value) == hvar:
            for k in c.keywords:
                if k.arg in ('x', 'y', 'z'):
                    coords[k.arg] = can.text(k.value)
    for comp in 'xyz':
        for s in attr_stores.get(comp, []):
            coords[comp] = can.text(s.value)
    ctx.ob('C17.R2', 'add_proton:rounded-to-0.001',
           all(coords.get(a) == 'round(%s.%s, 3)' % (pos, a) for a in 'xyz'),
           'the three coordinates are rounded to 3 decimals (the rounding named in the property); '
           'found %s' % coords, pmod, ap)
    downs = [s for s in walk_no_nested(ap) if isinstance(s, ast.AugAssign)
             and norm(s.target) == atom + '.number_of_protons_to_add']
    elem = attr_stores.get('element', [])
    ctx.ob('C17.R2', 'add_proton:counts-down',
           len(downs) == 1 and isinstance(downs[0].op, ast.Sub) and try_fold(downs[0].value) == 1
           and len(elem) == 1 and isinstance(elem[0].value, ast.Constant) and elem[0].value.value == 'H',
           'each added hydrogen (element H) decrements the number still to add by one', pmod,
           downs[0] if downs else ap)
    enters = [c for c in calls_in(ap, nested=False) if last_attr(c) == 'add_atom'
              and [norm(a) for a in c.args] == [hvar]
              and norm(c.func.value) == atom + '.conformation_container']
    ctx.ob('C17.R2', 'add_proton:enters-container', len(enters) == 1,
           'the hydrogen is added to the conformation of its parent', pmod, ap)

    # ------------------------------------------------------------------ R3a structure
    npa = pmod.func('Protonate.set_number_of_protons_to_add')
    p_atom = params_of(npa)[0]
    finals = canon(npa).final(p_atom + '.number_of_protons_to_add')
    pform = None
    if len(finals) == 1 and finals[0] is not None:
        pform = linform(finals[0], count_atom_kind(p_atom))
    want_p = {'1': 8, 'valence': -1, 'bonds': -1, 'pi23': -1, 'intcharge': 1}
    ctx.ob('C17.R3', 'count:protons-formula', pform == want_p,
           'protons to add = 8 - valence - bonds - pi(2,3) + int(charge) (found %s)' % (
               pform if pform is not None else [norm(f) if f is not None else None for f in finals]),
           pmod, npa)
    ssn = pmod.func('Protonate.set_steric_number_and_lone_pairs')
    s_atom = params_of(ssn)[0]
    sfinals = [f for f in canon(ssn).final(s_atom + '.steric_number') if f is not None]
    sform = None
    if len(sfinals) == 1:
        f = sfinals[0]
        # floor(<linear> / 2)
        if isinstance(f, ast.Call) and norm(f.func) == 'math.floor' and len(f.args) == 1 \
                and isinstance(f.args[0], ast.BinOp) and isinstance(f.args[0].op, ast.Div) \
                and try_fold(f.args[0].right) == 2:
            sform = linform(f.args[0].left, count_atom_kind(s_atom))
    want_s = {'valence': 1, 'bonds': 1, 'protons': 1, 'pi23': -1, 'conj': -1, 'charge': -1}
    ctx.ob('C17.R3', 'count:steric-formula', sform == want_s,
           'steric number = floor((valence + bonds + protons - pi(2,3) - pi(conj) - charge) / 2) '
           '(found %s)' % (sform if sform is not None else [norm(f) for f in sfinals]), pmod, ssn)
    init = pmod.func('Protonate.__init__')
    disp = {}
    for s in walk_no_nested(init):
        if isinstance(s, ast.Assign) and norm(s.targets[0]) == 'self.protonation_methods' \
                and isinstance(s.value, ast.Dict):
            for k, v in zip(s.value.keys, s.value.values):
                disp[try_fold(k)] = norm(v)
    ctx.ob('C17.R3', 'dispatch:3-trigonal-4-tetrahedral',
           disp == {3: 'self.trigonal', 4: 'self.tetrahedral'},
           'steric number 3 -> trigonal, 4 -> tetrahedral (%s)' % disp, pmod, init)
    addp = pmod.func('Protonate.add_protons')
    a_atom = params_of(addp)[0]
    dcalls = [c for c in calls_in(addp, nested=False) if isinstance(c.func, ast.Subscript)
              and norm(c.func.value) == 'self.protonation_methods']
    ctx.ob('C17.R3', 'dispatch:by-steric-number',
           len(dcalls) == 1 and canon(addp).text(dcalls[0].func.slice) == a_atom + '.steric_number'
           and [canon(addp).text(a) for a in dcalls[0].args] == [a_atom],
           'add_protons dispatches on atom.steric_number', pmod, addp)
    pa = pmod.func('Protonate.protonate_atom')
    seq = [last_attr(c) for c in calls_in(pa, nested=False) if norm(c.func).startswith('self.')]
    ctx.ob('C17.R3', 'protonate_atom:order',
           seq == ['set_charge', 'set_number_of_protons_to_add', 'set_steric_number_and_lone_pairs',
                   'add_protons'],
           'protonate_atom sets the charge, counts the protons, derives the steric number and '
           'then builds (%s)' % seq, pmod, pa)
    max_h = {}
    for qual, want_blocks in (('Protonate.trigonal', [1, 2]), ('Protonate.tetrahedral', [1, 2, 3])):
        fn = pmod.func(qual)
        atom = params_of(fn)[0]
        blocks = []
        for s in fn.body:
            if isinstance(s, ast.If) and isinstance(s.test, ast.BoolOp) and isinstance(s.test.op, ast.And) \
                    and not s.orelse:
                k = None
                remaining = False
                for v in s.test.values:
                    if isinstance(v, ast.Compare) and len(v.ops) == 1:
                        lt, rt = norm(v.left), v.comparators[0]
                        if lt == 'len(%s.bonded_atoms)' % atom and isinstance(v.ops[0], ast.Eq):
                            k = try_fold(rt)
                        # oriented by the loader:  0 < atom.number_of_protons_to_add
                        if norm(rt) == atom + '.number_of_protons_to_add' and isinstance(v.ops[0], ast.Lt) \
                                and try_fold(v.left) == 0:
                            remaining = True
                if k is not None and remaining and len(s.test.values) == 2:
                    n_add = sum(1 for c in calls_in(s) if last_attr(c) == 'add_proton')
                    blocks.append((k, n_add))
        ctx.ob('C17.R3', 'blocks:' + qual, blocks == [(k, 1) for k in want_blocks],
               '%s has sequential (not elif) blocks for %s bonded atoms, each adding one hydrogen '
               'while protons remain, so an atom needing n hydrogens passes through n blocks '
               '(found %s)' % (qual, want_blocks, blocks), pmod, fn)
        max_h[qual] = len(blocks)

    # ------------------------------------------------------------------ R3b templates
    val = penv.get('self.valence_electrons')
    chg = penv.get('self.standard_charges')
    pi_sc, cj_sc = benv.get('self.num_pi_elec_bonds_sidechains'), benv.get('self.num_pi_elec_conj_bonds_sidechains')
    pi_bb, cj_bb = benv.get('self.num_pi_elec_bonds_backbone'), benv.get('self.num_pi_elec_conj_bonds_backbone')
    bb_bonds = benv.get('self.intra_residue_backbone_bonds')
    for name, tbl in (('valence_electrons', val), ('standard_charges', chg),
                      ('num_pi_elec_bonds_sidechains', pi_sc),
                      ('num_pi_elec_conj_bonds_sidechains', cj_sc),
                      ('num_pi_elec_bonds_backbone', pi_bb),
                      ('num_pi_elec_conj_bonds_backbone', cj_bb),
                      ('intra_residue_backbone_bonds', bb_bonds)):
        if not isinstance(tbl, dict):
            raise AnalysisError('C17.R3: table %s is not a foldable literal' % name)
    bonds = prog.protein_bonds()
    # charge key format
    sc = pmod.func('Protonate.set_charge')
    c_atom = params_of(sc)[0]
    can = canon(sc)
    res_atom_3 = [('fld', c_atom + '.res_name', '3'), ('lit', '-'), ('fld', c_atom + '.name', '')]
    ok_key = False
    seen_keys = []
    for st in walk_no_nested(sc):
        if isinstance(st, ast.Assign) and norm(st.targets[0]) == c_atom + '.charge' \
                and isinstance(st.value, ast.Subscript) \
                and norm(st.value.value) == 'self.standard_charges':
            k = can.expr(st.value.slice)
            alts = k.args if isinstance(k, ast.Call) and norm(k.func) == 'alt' else [k]
            seen_keys = [norm(a) for a in alts]
            ok_key = any(str_template(a) == res_atom_3 for a in alts) and \
                all(str_template(a) == res_atom_3 or norm(a) == c_atom + '.terminal' for a in alts)
    ctx.ob('C17.R3', 'charge-key-format', ok_key,
           'standard charges are looked up by "RES-ATOM" (or the terminus tag); found %s' % seen_keys,
           pmod, sc)
    # pi tables are applied by the keys the count reads
    bmod = prog.mod('bonds')
    bm = bmod.func('BondMaker.add_pi_electron_table_info')
    can = canon(bm)
    each_atom = 'each(%s)' % params_of(bm)[0]
    res_atom = [('fld', each_atom + '.res_name', ''), ('lit', '-'), ('fld', each_atom + '.name', '')]
    applied = {}
    for st in walk_no_nested(bm):
        if isinstance(st, ast.Assign) and isinstance(st.targets[0], ast.Attribute) \
                and st.targets[0].attr in ('num_pi_elec_2_3_bonds', 'num_pi_elec_conj_2_3_bonds') \
                and can.text(st.targets[0].value) == each_atom \
                and isinstance(st.value, ast.Subscript) and norm(st.value.value).startswith('self.'):
            table = norm(st.value.value)[5:]
            kexp = can.expr(st.value.slice)
            if str_template(kexp) == res_atom:
                ktext = 'RES-ATOM'
            elif norm(kexp) == each_atom + '.name':
                ktext = 'NAME'
            elif norm(kexp) == each_atom + '.sybyl_type':
                ktext = 'SYBYL'
            else:
                ktext = norm(kexp)
            extra = sorted(('' if pol else 'not ') + can.text(e) for e, pol in facts_at(st, bm)
                           if 'bonded_atoms' in norm(e))
            applied[table] = (st.targets[0].attr, ktext, tuple(extra))
    want_applied = {
        'num_pi_elec_bonds_sidechains': ('num_pi_elec_2_3_bonds', 'RES-ATOM', ()),
        'num_pi_elec_conj_bonds_sidechains': ('num_pi_elec_conj_2_3_bonds', 'RES-ATOM', ()),
        'num_pi_elec_bonds_backbone': ('num_pi_elec_2_3_bonds', 'NAME', ()),
        'num_pi_elec_conj_bonds_backbone': ('num_pi_elec_conj_2_3_bonds', 'NAME',
                                            ('1 < len(%s.bonded_atoms)' % each_atom,)),
    }
    ctx.ob('C17.R3', 'pi-table-application',
           all(applied.get(k) == v for k, v in want_applied.items()),
           'pi-electron tables are copied onto protein atoms by "RES-ATOM" key (backbone N only '
           'when it has more than one neighbour); found %s' % {
               k: applied.get(k) for k in want_applied}, bmod, bm)

    if pform != want_p or sform != want_s:
        # the formulas are not the ones the template arithmetic below evaluates;
        # the violation is already recorded
        ctx.note('templates_skipped', 'count formulas not recognised')
        return

    def n_bonds(res, atom):
        if atom == 'N':
            n = len(bb_bonds.get('N', [])) + 1           # CA + previous C
            n += sum(1 for a, nb in bonds.get(res, {}).items() if 'N' in nb and a != 'N')
            return n
        return len(bonds[res][atom])

    def complement(res, atom):
        key = '%s-%s' % (res, atom)
        nb = n_bonds(res, atom)
        env = {'valence': val['N'], 'bonds': nb,
               'pi23': pi_sc.get(key, 0) if atom != 'N' else pi_bb.get('N', 0),
               'conj': cj_sc.get(key, 0) if atom != 'N' else (cj_bb.get('N', 0) if nb > 1 else 0),
               'charge': chg.get(key, 0.0)}
        env['intcharge'] = int(env['charge'])
        protons = eval_form(pform, env)
        env['protons'] = protons
        steric = math.floor(eval_form(sform, env) / 2)
        return protons, steric, nb

    acid = module_constants(gmod, False).get('EXPECTED_ATOMS_ACID_INTERACTIONS')
    if not isinstance(acid, dict):
        raise AnalysisError('C17.R3: EXPECTED_ATOMS_ACID_INTERACTIONS is not a literal')
    cases = [('HIS', [('HIS', 'ND1'), ('HIS', 'NE2')], 2), ('ARG', [('ARG', 'NE'), ('ARG', 'NH1'), ('ARG', 'NH2')], 5),
             ('AMD', [('ASN', 'ND2')], 2), ('AMD', [('GLN', 'NE2')], 2), ('TRP', [('TRP', 'NE1')], 1),
             ('BBN', [('ALA', 'N')], 1)]
    for gtype, atoms, want_h in cases:
        total = 0
        detail = []
        ok = True
        for res, atom in atoms:
            p, st, nb = complement(res, atom)
            total += p
            detail.append('%s-%s: %d H, steric %d, %d bonds' % (res, atom, p, st, nb))
            meth = {3: 'Protonate.trigonal', 4: 'Protonate.tetrahedral'}.get(st)
            if st != 3 or meth is None or p > max_h[meth] - (nb - 1) or p < 0:
                ok = False
        exp = acid.get(gtype, {}).get('H')
        ctx.ob('C17.R3', 'complement:%s:%s' % (gtype, '+'.join(a for _r, a in atoms) + '@' + atoms[0][0]),
               ok and total == want_h and exp == want_h,
               'regular %s gets %d hydrogens (property: %d; expected-atoms table: %s): %s'
               % (atoms[0][0], total, want_h, exp, '; '.join(detail)), pmod, npa)
    p, st, nb = complement('PRO', 'N')
    ctx.ob('C17.R3', 'complement:PRO-N', p == 0 and nb == 3,
           'the proline backbone N (3 heavy neighbours) gets no hydrogen (%d)' % p, pmod, npa)
    # number of nitrogens matches the expected tables too
    ctx.ob('C17.R3', 'expected-nitrogens',
           acid.get('HIS', {}).get('N') == 2 and acid.get('ARG', {}).get('N') == len(bonds['ARG']['CZ'])
           and acid.get('AMD', {}).get('N') == 1 and acid.get('TRP', {}).get('N') == 1
           and acid.get('BBN', {}).get('N') == 1,
           'the expected nitrogen counts equal the template (HIS ring 2, ARG CZ neighbours 3, '
           'amide 1, TRP 1, backbone 1)', gmod, gmod.tree)

    # ------------------------------------------------------------------ R4
    def setup_facts(qual):
        """Canonical facts about a group's set-up: which atoms are protonated
        (and whether unconditionally for every element of the iterable), and
        which hydrogens reach set_interaction_atoms."""
        fn = gmod.func(qual)
        can = canon(fn)
        prot = []
        for c in calls_in(fn, nested=False):
            if last_attr(c) != 'protonate_atom' or len(c.args) != 1:
                continue
            cond = False
            cur = c._parent
            loop = None
            while cur is not fn:
                if isinstance(cur, (ast.If, ast.While, ast.Try)):
                    cond = True
                if isinstance(cur, ast.For):
                    if loop is None:
                        loop = cur
                    if any(isinstance(n, (ast.Break, ast.Continue)) for n in ast.walk(cur)):
                        cond = True
                cur = cur._parent
            prot.append((can.text(c.args[0]), cond))
        # hydrogens: canonical arguments of every get_bonded_elements('H') call whose
        # result flows into set_interaction_atoms (directly or through an accumulator)
        hyd = set()
        accs = {}
        for c in calls_in(fn, nested=False):
            if last_attr(c) in ('extend', 'append') and isinstance(c.func.value, ast.Name) and c.args:
                accs.setdefault(c.func.value.id, []).append(can.text(c.args[0]))
        for c in calls_in(fn, nested=False):
            if last_attr(c) != 'set_interaction_atoms' or not c.args:
                continue
            first = c.args[0]
            texts = [can.text(first)]
            for n in ast.walk(first):
                if isinstance(n, ast.Name) and n.id in accs:
                    texts.extend(accs[n.id])
            for t in texts:
                try:
                    tree = ast.parse(t, mode='eval')
                except SyntaxError:
                    continue
                for n in ast.walk(tree):
                    if isinstance(n, ast.Call) and isinstance(n.func, ast.Attribute) \
                            and n.func.attr == 'get_bonded_elements' and len(n.args) == 1 \
                            and isinstance(n.args[0], ast.Constant) and n.args[0].value == 'H':
                        hyd.add(norm(n.func.value))
        return fn, prot, sorted(hyd)

    ring = 'propka.ligand.is_ring_member(self.atom)'
    ring_n = "[v1 for v1 in %s if v1.element == 'N']" % ring
    cz_n = "self.atom.get_bonded_elements('N')"
    cases4 = [
        ('HISGroup.setup_atoms', 'HIS:protonates-ring', [('each(%s)' % ring, False)],
         ['each(%s)' % ring_n],
         'HIS protonates every ring atom and collects the hydrogens of the ring nitrogens'),
        ('ARGGroup.setup_atoms', 'ARG:protonates-CZ-nitrogens', [('each(%s)' % cz_n, False)],
         ['each(%s)' % cz_n],
         'ARG protonates the nitrogens bonded to CZ and collects their hydrogens'),
        ('AMDGroup.setup_atoms', 'AMD:protonates-amide-N', [(cz_n + '[0]', False)], [cz_n + '[0]'],
         'the amide group protonates its nitrogen and collects its hydrogens'),
        ('TRPGroup.setup_atoms', 'TRPGroup:protonates-own-atom', [('self.atom', False)], ['self.atom'],
         'TRPGroup protonates its own atom and collects its hydrogens'),
        ('BBNGroup.setup_atoms', 'BBNGroup:protonates-own-atom', [('self.atom', False)], ['self.atom'],
         'BBNGroup protonates its own atom and collects its hydrogens'),
    ]
    for qual, key, want_prot, want_h, what in cases4:
        fn, prot, hyd = setup_facts(qual)
        # numbering of comprehension variables is local to each text
        ctx.ob('C17.R4', key, prot == want_prot and hyd == want_h,
               '%s (protonated: %s; hydrogens of: %s)' % (what, prot, hyd), gmod, fn)
    mapping_ok = True
    from sa.tables import Cfg
    cfg = Cfg(prog)
    mp = cfg.get('protein_group_mapping')
    want_map = {'HIS-CG': 'HIS', 'ARG-CZ': 'ARG', 'ASN-CG': 'AMD', 'GLN-CD': 'AMD', 'TRP-NE1': 'TRP'}
    ctx.ob('C17.R4', 'mapping:template-atoms', all(mp.get(k) == v for k, v in want_map.items()),
           'the defining atoms of these groups are the ones the templates assume (%s)'
           % {k: mp.get(k) for k in want_map}, gmod, gmod.tree)
    # every heavy atom of the input is there to be protonated: occupancy, B-factor
    # and serial number never decide whether an atom is read (rule shared with C07)
    common.check_inert_fields(ctx, 'C17.L2', prog, ['numb', 'occ', 'beta'])
    # ... and the hydrogens a structure brings along are recognised as such in
    # both spellings: a neutron structure names them D (deuterium).  Every
    # consumer tests element == 'H', so the symbol has to be folded when the
    # element is derived; otherwise a D stays in the structure as a 'heavy atom',
    # is bonded to its nitrogen by the generic distance rule and uses up the
    # valence the count would have filled with a hydrogen
    amod = prog.mod('atom')
    sp = amod.func('Atom.set_properties')
    folded = []
    el_names = {'self.element'} | {norm(s_.value) for s_ in walk_no_nested(sp) if isinstance(s_, ast.Assign)
                                   and norm(s_.targets[0]) == 'self.element' and isinstance(s_.value, ast.Name)}
    for node in walk_no_nested(sp):
        if isinstance(node, ast.Assign) and norm(node.targets[0]) in el_names \
                and isinstance(node.value, ast.Constant) and node.value.value == 'H':
            for e, pol in facts_at(node, sp):
                if not (pol and isinstance(e, ast.Compare) and len(e.ops) == 1
                        and norm(e.left) in el_names):
                    continue
                cmp_ = e.comparators[0]
                rhs = [x.value for x in (cmp_.elts if isinstance(cmp_, (ast.Tuple, ast.List, ast.Set))
                                         else [cmp_]) if isinstance(x, ast.Constant)]
                if isinstance(e.ops[0], (ast.Eq, ast.In)) and 'D' in rhs:
                    folded.append(node)
    derive = [n for n in walk_no_nested(sp) if isinstance(n, ast.Assign)
              and norm(n.targets[0]) in el_names and not (
                  norm(n.targets[0]) == 'self.element' and isinstance(n.value, ast.Name))]
    ctx.ob('C17.L3', 'isotope:deuterium-is-hydrogen',
           bool(folded) and all(d.lineno <= folded[-1].lineno for d in derive),
           'Atom.set_properties ends the derivation of the element by turning the deuterium symbol D '
           'into H (%d such assignment(s), %d assignments to self.element): the %d element == \'H\' '
           'tests of the reader, the bond maker, the builder and the group set-up then see a '
           'deuterated amide/ring/guanidinium hydrogen as the hydrogen it is' % (
               len(folded), len(derive),
               sum(1 for m2, q2, f2 in prog.all_funcs() for n in walk_no_nested(f2)
                   if isinstance(n, ast.Compare) and len(n.ops) == 1
                   and isinstance(n.comparators[0], ast.Constant) and n.comparators[0].value == 'H'
                   and norm(n.left).endswith('.element'))),
           amod, folded[-1] if folded else sp)
    # ... and the hydrogens a file lists are recognised as hydrogens, whatever
    # shape their name has (else they stay as bonded heavy atoms and their parent
    # counts one bond too many: no hydrogens for a complete residue)
    common.check_element_name_shapes(ctx, 'C17.L3', prog, only=('H',))
    # the builder starts from a structure without hydrogens *once*: the removal
    # comes before every protonate_atom call and is not repeated between them
    # (it empties all conformations, also those already protonated, while their
    # heavy atoms stay marked as done)
    pfn = pmod.func('Protonate.protonate')
    rem = [c for c in calls_in(pfn, nested=False) if last_attr(c) == 'remove_all_hydrogen_atoms']
    pro = [c for c in calls_in(pfn, nested=False) if last_attr(c) == 'protonate_atom']
    once = len(rem) == 1 and bool(pro) and not enclosing_loops(rem[0], pfn) \
        and enclosing_stmt(rem[0]) in pfn.body \
        and all(pfn.body.index(enclosing_stmt(rem[0])) < pfn.body.index(top_stmt(c, pfn)) for c in pro)
    ctx.ob('C17.R3', 'protonate:hydrogens-removed-once-before-building', once,
           'Protonate.protonate removes the listed hydrogens in one unconditional statement in front '
           'of the loop that builds them (%d removal call(s), %d inside a loop)'
           % (len(rem), sum(1 for c in rem if enclosing_loops(c, pfn))), pmod, rem[0] if rem else pfn)
    # bond perception feeds the count: record type, residue or chain must not enter
    common.check_pair_routine(ctx, 'C17.L1', prog.mod('bonds'))
    ctx.assume('distance-based bond perception reproduces the templates for residues with regular '
               'covalent geometry (C11 decides the perception rule, not the geometry)')
    # the same positions in every orientation: the one helper that turns a
    # direction about an axis must return its result in the frame it got it in -
    # whatever it applies to the vector before the rotation is undone after it
    from checks import c20
    vmod = prog.mod('vector_algebra')
    hfn, _axis, hangle, hvec = c20.helper_roles(vmod)
    c20.check_undo_paths(ctx, 'C17.L4', vmod, hfn, hvec, hangle)
    ctx.assume('geometry (H-H separation >= 0.5 A, angles) and the rest of orientation independence '
               'are not decided here (C04/C20)')
