"""C17 - added hydrogens are chemically placed and complete.

R1 position = parent + rescale(table length), R2 one parent / rounding,
R3 electron counting structure and template arithmetic over the repo's own
tables, R4 the group set-up protonates the atoms the count assumes.
"""
import ast
import math

from sa.astutil import (anorm, call_name, calls_in, dotted, norm, walk_no_nested, last_attr,
                        fact_texts, try_fold, literal, FoldError)
from sa.consteval import eval_init, UNKNOWN
from sa.loader import AnalysisError
from sa.tables import module_constants


def counter_terms(fn, attr):
    """Ordered (op, term text) list of the updates of ``atom.<attr>``."""
    terms = []
    for s in fn.body:
        for node in ([s] if isinstance(s, (ast.Assign, ast.AugAssign)) else []):
            tgt = node.targets[0] if isinstance(node, ast.Assign) else node.target
            if isinstance(tgt, ast.Attribute) and tgt.attr == attr:
                if isinstance(node, ast.Assign):
                    terms.append(('=', norm(node.value), node))
                else:
                    terms.append(('+' if isinstance(node.op, ast.Add) else
                                  '-' if isinstance(node.op, ast.Sub) else '?',
                                  norm(node.value), node))
    return terms


def eval_term(text, env):
    table = {
        'self.valence_electrons[atom.element]': env['valence'],
        'len(atom.bonded_atoms)': env['nbonds'],
        'atom.num_pi_elec_2_3_bonds': env['pi23'],
        'atom.num_pi_elec_conj_2_3_bonds': env['conj'],
        'int(atom.charge)': int(env['charge']),
        'atom.charge': env['charge'],
        'atom.number_of_protons_to_add': env.get('protons'),
        'atom.steric_number': env.get('steric'),
    }
    if text in table and table[text] is not None:
        return table[text]
    try:
        return float(text) if '.' in text else int(text)
    except ValueError:
        raise AnalysisError('C17.R3: unknown term in the electron count: ' + text)


def run(ctx):
    prog = ctx.prog
    pmod = prog.mod('protonate')
    gmod = prog.mod('group')
    penv = eval_init(prog, 'protonate', 'Protonate')
    benv = eval_init(prog, 'bonds', 'BondMaker')

    # ------------------------------------------------------------------ R1
    n_calls = 0
    for qual in ('Protonate.trigonal', 'Protonate.tetrahedral'):
        fn = pmod.func(qual)
        cvec = [s for s in walk_no_nested(fn) if isinstance(s, ast.Assign)
                and norm(s.value) == 'Vector(atom1=atom)']
        cname = norm(cvec[0].targets[0]) if cvec else None
        for c in calls_in(fn, nested=False):
            if last_attr(c) != 'add_proton':
                continue
            n_calls += 1
            pos = c.args[1] if len(c.args) == 2 else None
            ok, why = False, 'unexpected argument shape'
            if norm(c.args[0]) == 'atom' and isinstance(pos, ast.BinOp) and isinstance(pos.op, ast.Add):
                parts = [norm(pos.left), norm(pos.right)]
                if cname in parts:
                    v = [p for p in parts if p != cname][0]
                    # nearest preceding definition of v in the same block
                    stmt = c._parent
                    blk = stmt._parent
                    body = blk.body if stmt in getattr(blk, 'body', []) else getattr(blk, 'orelse', [])
                    idx = body.index(stmt)
                    prev = [s for s in body[:idx] if isinstance(s, ast.Assign) and norm(s.targets[0]) == v]
                    if prev:
                        last = prev[-1].value
                        ok = isinstance(last, ast.Call) and last_attr(last) == 'set_bond_distance' \
                            and len(last.args) == 2 and norm(last.args[1]) == 'atom.element'
                        why = 'displacement %s = %s' % (v, norm(last)[:60])
                    else:
                        why = 'no definition of %s before the call' % v
                else:
                    why = 'position is not Vector(atom1=atom) + displacement'
            pkey = 'position:%s:%s' % (qual, anorm(c, fn)[:50])
            dup = sum(1 for o in ctx.obligations if o['key'].split('#')[0] == pkey)
            if dup:
                pkey += '#%d' % (dup + 1)
            ctx.ob('C17.R1', pkey, ok,
                   'the hydrogen is placed at the parent position plus a vector rescaled to the '
                   'tabulated X-H bond length of the parent element (%s)' % why, pmod, c)
    ctx.need('C17.R1', 5)
    sbd = pmod.func('Protonate.set_bond_distance')
    src = norm(sbd)
    ok = 'dist = self.bond_lengths[element]' in src and 'bvec = bvec.rescale(dist)' in src and \
        'return bvec' in src and 'dist = 1.0' in src
    ctx.ob('C17.R1', 'set_bond_distance:rescale-to-table-length', ok,
           'set_bond_distance rescales the vector to bond_lengths[element] (1.0 with a warning '
           'for unknown elements)', pmod, sbd)
    bl = penv.get('self.bond_lengths')
    ok = isinstance(bl, dict) and all(e in bl and isinstance(bl[e], (int, float)) and 0.8 < bl[e] < 1.7
                                      for e in ('N', 'C', 'O', 'S'))
    ctx.ob('C17.R1', 'bond-lengths:table', ok,
           'bond_lengths has X-H lengths for N, C, O and S (%s)' % (
               {k: bl[k] for k in ('N', 'C', 'O', 'S') if isinstance(bl, dict) and k in bl}), pmod,
           pmod.func('Protonate.__init__'))
    va = prog.mod('vector_algebra')
    rs = va.func('Vector.rescale')
    ok = 'frac = new_length / self.length()' in norm(rs) and \
        'Vector(xi=self.x * frac, yi=self.y * frac, zi=self.z * frac)' in norm(rs)
    ctx.ob('C17.R1', 'rescale:length', ok,
           'Vector.rescale multiplies every component by new_length / length', va, rs)

    # ------------------------------------------------------------------ R2
    ap = pmod.func('Protonate.add_proton')
    src = norm(ap)
    ctx.ob('C17.R2', 'add_proton:single-parent',
           'new_h.bonded_atoms = [atom]' in src and 'atom.bonded_atoms.append(new_h)' in src,
           'a new hydrogen is bonded to exactly its parent and the parent to it', pmod, ap)
    ctx.ob('C17.R2', 'add_proton:rounded-to-0.001',
           all(('%s=round(position.%s, 3)' % (a, a)) in src for a in 'xyz'),
           'the three coordinates are rounded to 3 decimals (the rounding named in the property)',
           pmod, ap)
    ctx.ob('C17.R2', 'add_proton:counts-down',
           'atom.number_of_protons_to_add -= 1' in src and "new_h.element = 'H'" in src,
           'each added hydrogen decrements the number still to add', pmod, ap)
    ctx.ob('C17.R2', 'add_proton:enters-container', 'atom.conformation_container.add_atom(new_h)' in src,
           'the hydrogen is added to the conformation of its parent', pmod, ap)

    # ------------------------------------------------------------------ R3a structure
    npa = pmod.func('Protonate.set_number_of_protons_to_add')
    terms = counter_terms(npa, 'number_of_protons_to_add')
    got = sorted((op, t) for op, t, _n in terms)
    want = sorted([('=', '8'), ('-', 'self.valence_electrons[atom.element]'),
                   ('-', 'len(atom.bonded_atoms)'), ('-', 'atom.num_pi_elec_2_3_bonds'),
                   ('+', 'int(atom.charge)')])
    ctx.ob('C17.R3', 'count:protons-formula', got == want,
           'protons to add = 8 - valence - bonds - pi(2,3) + int(charge) (found %s)' % got, pmod, npa)
    ssn = pmod.func('Protonate.set_steric_number_and_lone_pairs')
    sterms = counter_terms(ssn, 'steric_number')
    final = [t for t in sterms if t[0] == '=' and 'math.floor' in t[1]]
    adds = sorted((op, t) for op, t, _n in sterms if not (op == '=' and 'math.floor' in t))
    want_s = sorted([('=', '0'), ('+', 'self.valence_electrons[atom.element]'),
                     ('+', 'len(atom.bonded_atoms)'), ('+', 'atom.number_of_protons_to_add'),
                     ('-', 'atom.num_pi_elec_2_3_bonds'), ('-', 'atom.num_pi_elec_conj_2_3_bonds'),
                     ('+', '0')])
    ok = adds == want_s and len(final) == 1 and \
        final[0][1].replace(' ', '') == 'math.floor((atom.steric_number-atom.charge)/2)'
    ctx.ob('C17.R3', 'count:steric-formula', ok,
           'steric number = floor((valence + bonds + protons - pi(2,3) - pi(conj) - charge) / 2) '
           '(found %s; %s)' % (adds, [t[1] for t in final]), pmod, ssn)
    init = pmod.func('Protonate.__init__')
    disp = {}
    for s in walk_no_nested(init):
        if isinstance(s, ast.Assign) and norm(s.targets[0]) == 'self.protonation_methods' \
                and isinstance(s.value, ast.Dict):
            for k, v in zip(s.value.keys, s.value.values):
                disp[try_fold(k)] = norm(v)
    ctx.ob('C17.R3', 'dispatch:3-trigonal-4-tetrahedral',
           disp == {3: 'self.trigonal', 4: 'self.tetrahedral'},
           'steric number 3 -> trigonal, 4 -> tetrahedral (%s)' % disp, pmod, init)
    addp = pmod.func('Protonate.add_protons')
    ctx.ob('C17.R3', 'dispatch:by-steric-number',
           'self.protonation_methods[atom.steric_number](atom)' in norm(addp),
           'add_protons dispatches on atom.steric_number', pmod, addp)
    pa = pmod.func('Protonate.protonate_atom')
    seq = [last_attr(c) for c in calls_in(pa, nested=False) if norm(c.func).startswith('self.')]
    ctx.ob('C17.R3', 'protonate_atom:order',
           seq == ['set_charge', 'set_number_of_protons_to_add', 'set_steric_number_and_lone_pairs',
                   'add_protons'],
           'protonate_atom sets the charge, counts the protons, derives the steric number and '
           'then builds (%s)' % seq, pmod, pa)
    max_h = {}
    for qual, want_blocks in (('Protonate.trigonal', [1, 2]), ('Protonate.tetrahedral', [1, 2, 3])):
        fn = pmod.func(qual)
        blocks = []
        for s in fn.body:
            if isinstance(s, ast.If) and isinstance(s.test, ast.BoolOp) and \
                    'len(atom.bonded_atoms) ==' in norm(s.test) and \
                    'atom.number_of_protons_to_add > 0' in norm(s.test) and not s.orelse:
                k = try_fold(s.test.values[0].comparators[0])
                n_add = sum(1 for c in calls_in(s) if last_attr(c) == 'add_proton')
                blocks.append((k, n_add))
        ctx.ob('C17.R3', 'blocks:' + qual, blocks == [(k, 1) for k in want_blocks],
               '%s has sequential (not elif) blocks for %s bonded atoms, each adding one hydrogen '
               'while protons remain, so an atom needing n hydrogens passes through n blocks '
               '(found %s)' % (qual, want_blocks, blocks), pmod, fn)
        max_h[qual] = len(blocks)

    # ------------------------------------------------------------------ R3b templates
    val = penv.get('self.valence_electrons')
    chg = penv.get('self.standard_charges')
    pi_sc, cj_sc = benv.get('self.num_pi_elec_bonds_sidechains'), benv.get('self.num_pi_elec_conj_bonds_sidechains')
    pi_bb, cj_bb = benv.get('self.num_pi_elec_bonds_backbone'), benv.get('self.num_pi_elec_conj_bonds_backbone')
    bb_bonds = benv.get('self.intra_residue_backbone_bonds')
    for name, tbl in (('valence_electrons', val), ('standard_charges', chg),
                      ('num_pi_elec_bonds_sidechains', pi_sc),
                      ('num_pi_elec_conj_bonds_sidechains', cj_sc),
                      ('num_pi_elec_bonds_backbone', pi_bb),
                      ('num_pi_elec_conj_bonds_backbone', cj_bb),
                      ('intra_residue_backbone_bonds', bb_bonds)):
        if not isinstance(tbl, dict):
            raise AnalysisError('C17.R3: table %s is not a foldable literal' % name)
    bonds = prog.protein_bonds()
    # charge key format
    sc = pmod.func('Protonate.set_charge')
    ctx.ob('C17.R3', 'charge-key-format', "key = '{0:3s}-{1:s}'.format(atom.res_name, atom.name)" in norm(sc)
           and 'key = atom.terminal' in norm(sc),
           'standard charges are looked up by "RES-ATOM" (or the terminus tag)', pmod, sc)
    # pi tables are applied by the keys the count reads
    bm = prog.mod('bonds').func('BondMaker.add_pi_electron_table_info')
    src = norm(bm)
    ctx.ob('C17.R3', 'pi-table-application',
           "key = '{0:s}-{1:s}'.format(atom.res_name, atom.name)" in src
           and 'atom.num_pi_elec_2_3_bonds = self.num_pi_elec_bonds_sidechains[key]' in src
           and 'atom.num_pi_elec_conj_2_3_bonds = self.num_pi_elec_conj_bonds_sidechains[key]' in src
           and 'atom.num_pi_elec_conj_2_3_bonds = self.num_pi_elec_conj_bonds_backbone[atom.name]' in src
           and 'len(atom.bonded_atoms) > 1' in src,
           'pi-electron tables are copied onto protein atoms by "RES-ATOM" key (backbone N only '
           'when it has more than one neighbour)', prog.mod('bonds'), bm)

    def n_bonds(res, atom):
        if atom == 'N':
            n = len(bb_bonds.get('N', [])) + 1           # CA + previous C
            n += sum(1 for a, nb in bonds.get(res, {}).items() if 'N' in nb and a != 'N')
            return n
        return len(bonds[res][atom])

    def complement(res, atom):
        key = '%s-%s' % (res, atom)
        nb = n_bonds(res, atom)
        env = {'valence': val['N'], 'nbonds': nb,
               'pi23': pi_sc.get(key, 0) if atom != 'N' else pi_bb.get('N', 0),
               'conj': cj_sc.get(key, 0) if atom != 'N' else (cj_bb.get('N', 0) if nb > 1 else 0),
               'charge': chg.get(key, 0.0)}
        protons = 0
        for op, t, _n in terms:
            v = eval_term(t, env)
            protons = v if op == '=' else (protons + v if op == '+' else protons - v)
        env['protons'] = protons
        steric = 0
        for op, t, _n in sterms:
            if op == '=' and 'math.floor' in t:
                steric = math.floor((steric - env['charge']) / 2)
            else:
                v = eval_term(t, env)
                steric = v if op == '=' else (steric + v if op == '+' else steric - v)
        return protons, steric, nb

    acid = module_constants(gmod, False).get('EXPECTED_ATOMS_ACID_INTERACTIONS')
    if not isinstance(acid, dict):
        raise AnalysisError('C17.R3: EXPECTED_ATOMS_ACID_INTERACTIONS is not a literal')
    cases = [('HIS', [('HIS', 'ND1'), ('HIS', 'NE2')], 2), ('ARG', [('ARG', 'NE'), ('ARG', 'NH1'), ('ARG', 'NH2')], 5),
             ('AMD', [('ASN', 'ND2')], 2), ('AMD', [('GLN', 'NE2')], 2), ('TRP', [('TRP', 'NE1')], 1),
             ('BBN', [('ALA', 'N')], 1)]
    for gtype, atoms, want_h in cases:
        total = 0
        detail = []
        ok = True
        for res, atom in atoms:
            p, st, nb = complement(res, atom)
            total += p
            detail.append('%s-%s: %d H, steric %d, %d bonds' % (res, atom, p, st, nb))
            meth = {3: 'Protonate.trigonal', 4: 'Protonate.tetrahedral'}.get(st)
            if st != 3 or meth is None or p > max_h[meth] - (nb - 1) or p < 0:
                ok = False
        exp = acid.get(gtype, {}).get('H')
        ctx.ob('C17.R3', 'complement:%s:%s' % (gtype, '+'.join(a for _r, a in atoms) + '@' + atoms[0][0]),
               ok and total == want_h and exp == want_h,
               'regular %s gets %d hydrogens (property: %d; expected-atoms table: %s): %s'
               % (atoms[0][0], total, want_h, exp, '; '.join(detail)), pmod, npa)
    p, st, nb = complement('PRO', 'N')
    ctx.ob('C17.R3', 'complement:PRO-N', p == 0 and nb == 3,
           'the proline backbone N (3 heavy neighbours) gets no hydrogen (%d)' % p, pmod, npa)
    # number of nitrogens matches the expected tables too
    ctx.ob('C17.R3', 'expected-nitrogens',
           acid.get('HIS', {}).get('N') == 2 and acid.get('ARG', {}).get('N') == len(bonds['ARG']['CZ'])
           and acid.get('AMD', {}).get('N') == 1 and acid.get('TRP', {}).get('N') == 1
           and acid.get('BBN', {}).get('N') == 1,
           'the expected nitrogen counts equal the template (HIS ring 2, ARG CZ neighbours 3, '
           'amide 1, TRP 1, backbone 1)', gmod, gmod.tree)

    # ------------------------------------------------------------------ R4
    def protonated(qual):
        fn = gmod.func(qual)
        return fn, [norm(c.args[0]) for c in calls_in(fn) if last_attr(c) == 'protonate_atom']

    def loop_over(fn, var):
        """iter text of the unconditional loop that binds ``var`` around protonate_atom"""
        for node in walk_no_nested(fn):
            if isinstance(node, ast.For) and norm(node.target) == var and any(
                    last_attr(c) == 'protonate_atom' for c in calls_in(node)) and not any(
                        isinstance(n, (ast.If, ast.Break, ast.Continue)) for n in ast.walk(node)):
                return norm(node.iter)
        return None
    fn, args = protonated('HISGroup.setup_atoms')
    ctx.ob('C17.R4', 'HIS:protonates-ring', args == ['ring_atom'] and
           loop_over(fn, 'ring_atom') == 'ring_atoms' and
           "nitrogens = [ra for ra in ring_atoms if ra.element == 'N']" in norm(fn) and
           "hydrogens.extend(nitrogen.get_bonded_elements('H'))" in norm(fn),
           'HIS protonates every ring atom and collects the hydrogens of the ring nitrogens',
           gmod, fn)
    fn, args = protonated('ARGGroup.setup_atoms')
    ctx.ob('C17.R4', 'ARG:protonates-CZ-nitrogens', args == ['nitrogen'] and
           loop_over(fn, 'nitrogen') == 'nitrogens' and
           "nitrogens = self.atom.get_bonded_elements('N')" in norm(fn) and
           "hydrogens.extend(nitrogen.get_bonded_elements('H'))" in norm(fn),
           'ARG protonates the nitrogens bonded to CZ and collects their hydrogens', gmod, fn)
    fn, args = protonated('AMDGroup.setup_atoms')
    ctx.ob('C17.R4', 'AMD:protonates-amide-N', args == ['the_nitrogen[0]'] and
           "the_hydrogens = the_nitrogen[0].get_bonded_elements('H')" in norm(fn),
           'the amide group protonates its nitrogen and collects its hydrogens', gmod, fn)
    for qual in ('TRPGroup.setup_atoms', 'BBNGroup.setup_atoms'):
        fn, args = protonated(qual)
        ctx.ob('C17.R4', qual.split('.')[0] + ':protonates-own-atom', args == ['self.atom'] and
               "self.atom.get_bonded_elements('H')" in norm(fn),
               '%s protonates its own atom and collects its hydrogens' % qual.split('.')[0], gmod, fn)
    mapping_ok = True
    from sa.tables import Cfg
    cfg = Cfg(prog)
    mp = cfg.get('protein_group_mapping')
    want_map = {'HIS-CG': 'HIS', 'ARG-CZ': 'ARG', 'ASN-CG': 'AMD', 'GLN-CD': 'AMD', 'TRP-NE1': 'TRP'}
    ctx.ob('C17.R4', 'mapping:template-atoms', all(mp.get(k) == v for k, v in want_map.items()),
           'the defining atoms of these groups are the ones the templates assume (%s)'
           % {k: mp.get(k) for k in want_map}, gmod, gmod.tree)
    ctx.assume('distance-based bond perception reproduces the templates for residues with regular '
               'covalent geometry (C11 decides the perception rule, not the geometry)')
    ctx.assume('geometry (H-H separation >= 0.5 A, angles) and orientation independence are not '
               'decided here (C04/C20)')
