"""C19 - hybrid-36 serials decode correctly over the whole range.

R1 segment contiguity by constant folding of the two offsets for widths 1-5,
R2 sibling validation of every branch, R3 the serial is inert.
"""
import ast
import string

from sa.astutil import (facts_at, try_fold, call_name, calls_in, dotted, fact_texts, guards_of, norm,
                        walk_no_nested, last_attr, block_always_exits)
from sa.consteval import ConstEval, UNKNOWN
from sa.loader import AnalysisError
from sa.canon import canon
from checks import common

STRING_ENV = {'string.ascii_uppercase': string.ascii_uppercase,
              'string.ascii_lowercase': string.ascii_lowercase,
              'string.digits': string.digits,
              'string.ascii_letters': string.ascii_letters}


def _branch_of(fn, set_name_pred):
    """The If node (within the first-character dispatch) whose test is
    ``first_char in <set>`` with set satisfying the predicate."""
    for node in walk_no_nested(fn):
        if isinstance(node, ast.If) and isinstance(node.test, ast.Compare) \
                and len(node.test.ops) == 1 and isinstance(node.test.ops[0], ast.In):
            if set_name_pred(node.test.comparators[0]):
                return node
    return None


def run(ctx):
    prog = ctx.prog
    mod = prog.mod('hybrid36')
    fn = mod.func('decode')
    ce = ConstEval(STRING_ENV)
    ce.run([s for s in mod.tree.body if isinstance(s, (ast.Assign, ast.AnnAssign))])
    menv = ce.env
    upper, lower, digits = set(string.ascii_uppercase), set(string.ascii_lowercase), set(string.digits)

    def is_set(node, want):
        val = ConstEval(menv).ev(node)
        return isinstance(val, (set, frozenset, str, list, tuple)) and set(val) == want

    b_digit = _branch_of(fn, lambda n: is_set(n, digits))
    b_upper = _branch_of(fn, lambda n: is_set(n, upper))
    b_lower = _branch_of(fn, lambda n: is_set(n, lower))
    if not (b_digit and b_upper and b_lower):
        raise AnalysisError('C19: cannot find the three first-character branches of decode')
    # which variable is the first character / the length
    first_var = norm(b_upper.test.left)
    defs = {norm(s.targets[0]): s.value for s in walk_no_nested(fn)
            if isinstance(s, ast.Assign) and len(s.targets) == 1}
    str_var = None
    if first_var in defs and isinstance(defs[first_var], ast.Subscript) \
            and norm(defs[first_var].slice) == '0':
        str_var = norm(defs[first_var].value)
    elif isinstance(b_upper.test.left, ast.Subscript) and norm(b_upper.test.left.slice) == '0':
        str_var = norm(b_upper.test.left.value)      # tested directly as s[0]
    ctx.ob('C19.R2', 'dispatch:on-first-character', str_var is not None,
           'the branch variable is the first character of the (stripped, unsigned) field',
           mod, b_upper)
    if str_var is None:
        raise AnalysisError('C19: dispatch variable is not s[0]')
    len_vars = [k for k, v in defs.items() if norm(v) == 'len(%s)' % str_var]

    # ------------------------------------------------------------------ R1
    def ref_expr(branch):
        stores = [s for s in branch.body if isinstance(s, ast.Assign)
                  and isinstance(s.targets[0], ast.Name)]
        return stores

    def fold_ref(branch, n):
        ev = ConstEval(dict(menv))
        for lv in len_vars:
            ev.env[lv] = n
        ev.env['len(%s)' % str_var] = n
        ev.env[str_var] = 'A' * n          # a field of that width (len() of it folds)
        # statements in front of the dispatch (tables looked up by width, ...)
        top = branch
        while getattr(top, '_parent', None) is not fn and getattr(top, '_parent', None) is not None:
            top = top._parent
        if top in fn.body:
            for st in fn.body[:fn.body.index(top)]:
                if isinstance(st, (ast.Assign, ast.AnnAssign, ast.If)) and not any(
                        isinstance(x, (ast.Raise, ast.Return)) for x in ast.walk(st)):
                    try:
                        ev.step(st)
                    except Exception:      # a statement the folder cannot model
                        pass
                    for lv in len_vars:
                        ev.env[lv] = n
                    ev.env[str_var] = 'A' * n
        ev.run([s for s in branch.body if isinstance(s, ast.Assign)])
        return ev.env

    # the final conversion: sign * (int(s, 36) + reference)
    rets = [r for r in walk_no_nested(fn) if isinstance(r, ast.Return)]
    final = rets[-1] if rets else None
    ref_name, set_name = None, None
    conv_ok = False
    if final is not None and isinstance(final.value, ast.BinOp) and isinstance(final.value.op, ast.Mult):
        sides = [final.value.left, final.value.right]
        signs = [s for s in sides if isinstance(s, ast.Name)]
        sums = [s for s in sides if isinstance(s, ast.BinOp) and isinstance(s.op, ast.Add)]
        if len(signs) == 1 and len(sums) == 1:
            parts = [sums[0].left, sums[0].right]
            def base36(e):
                # the literal 36, or a branch variable that folds to 36 in both letter branches
                if norm(e) == '36':
                    return True
                return isinstance(e, ast.Name) and all(
                    fold_ref(b_, 1).get(e.id, UNKNOWN) == 36 for b_ in (b_upper, b_lower))
            ints = [p for p in parts if isinstance(p, ast.Call) and call_name(p) == 'int'
                    and len(p.args) == 2 and norm(p.args[0]) == str_var and base36(p.args[1])]
            refs = [p for p in parts if isinstance(p, ast.Name)]
            if len(ints) == 1 and len(refs) == 1:
                ref_name = refs[0].id
                conv_ok = True
                sign_var = signs[0].id
    ctx.ob('C19.R1', 'conversion:sign*(int(s,36)+offset)', conv_ok,
           'letter-initial fields convert as sign * (int(field, 36) + offset)', mod, final or fn)
    if not conv_ok:
        raise AnalysisError('C19: final conversion has an unexpected shape')
    for n in range(1, 6):
        eu = fold_ref(b_upper, n).get(ref_name, UNKNOWN)
        el = fold_ref(b_lower, n).get(ref_name, UNKNOWN)
        if not isinstance(eu, int) or not isinstance(el, int):
            raise AnalysisError('C19.R1: offset not foldable for width %d (%r, %r)' % (n, eu, el))
        first_u = int('A' + '0' * (n - 1), 36)
        last_u = int('Z' * n, 36)
        first_l = int('a' + '0' * (n - 1), 36)
        last_l = int('z' * n, 36)
        ctx.ob('C19.R1', 'contiguous:decimal->upper:width=%d' % n, first_u + eu == 10 ** n,
               "width %d: decode('A%s') = %d must follow the last decimal value %d" % (
                   n, '0' * (n - 1), first_u + eu, 10 ** n - 1), mod, b_upper)
        ctx.ob('C19.R1', 'contiguous:upper->lower:width=%d' % n, first_l + el == last_u + eu + 1,
               "width %d: decode('a%s') = %d must follow decode('%s') = %d" % (
                   n, '0' * (n - 1), first_l + el, 'Z' * n, last_u + eu), mod, b_lower)
        ctx.ob('C19.R1', 'top:width=%d' % n, last_l + el == 10 ** n + 52 * 36 ** (n - 1) - 1,
               "width %d: decode('%s') = %d must be 10^n + 52*36^(n-1) - 1 = %d" % (
                   n, 'z' * n, last_l + el, 10 ** n + 52 * 36 ** (n - 1) - 1), mod, b_lower)
    ctx.assume("int(s, 36) is strictly increasing along the encoding order inside one "
               "letter segment of fixed width (CPython semantics, trusted)")
    # module alphabets
    sets_ok = True
    for branch, base in ((b_upper, upper), (b_lower, lower)):
        sname = None
        for s in branch.body:
            if isinstance(s, ast.Assign) and isinstance(s.targets[0], ast.Name) \
                    and s.targets[0].id != ref_name:
                val = ConstEval(menv).ev(s.value)
                if isinstance(val, (set, frozenset)):
                    sname = s.targets[0].id
                    if set(val) != base | digits:
                        sets_ok = False
        if sname is None:
            sets_ok = False
        set_name = sname
    ctx.ob('C19.R2', 'alphabets:case-consistent', sets_ok,
           'the upper (lower) branch validates against exactly A-Z (a-z) plus 0-9', mod, b_upper)

    # ------------------------------------------------------------------ R2
    # letter branches: the character loop
    loops = [n for n in walk_no_nested(fn) if isinstance(n, ast.For)]
    val_loop = None
    for lp in loops:
        if norm(lp.iter) in (str_var + '[1:]', str_var) and set_name and any(
                isinstance(n, ast.Compare) and isinstance(n.ops[0], ast.NotIn)
                and norm(n.comparators[0]) == set_name for n in ast.walk(lp)):
            val_loop = lp
    ok_loop = False
    if val_loop is not None and final is not None:
        raises = [n for n in ast.walk(val_loop) if isinstance(n, ast.Raise)]
        ok_loop = (len(raises) >= 1 and all(_is_value_error(r) for r in raises)
                   and val_loop.lineno < final.lineno
                   and val_loop in fn.body and final in fn.body)
    ctx.ob('C19.R2', 'validate:letter-branches', ok_loop,
           'before converting, every remaining character of a letter-initial field is '
           'checked against the branch alphabet and ValueError is raised otherwise',
           mod, val_loop or fn)
    # digit branch: must validate too (sibling rule)
    d_rets = [r for r in ast.walk(b_digit) if isinstance(r, ast.Return)
              and any(r is s for s in b_digit.body)]
    digit_set_names = {k for k, v in menv.items() if isinstance(v, (set, frozenset))
                       and set(v) == digits}
    validated = False
    for stmt in b_digit.body:
        if isinstance(stmt, ast.Return):
            break
        if isinstance(stmt, ast.For) and norm(stmt.iter) in (str_var + '[1:]', str_var):
            tests = [n for n in ast.walk(stmt) if isinstance(n, ast.Compare)
                     and isinstance(n.ops[0], ast.NotIn)
                     and (norm(n.comparators[0]) in digit_set_names
                          or is_set(n.comparators[0], digits))]
            raises = [n for n in ast.walk(stmt) if isinstance(n, ast.Raise)]
            if tests and raises and all(_is_value_error(r) for r in raises):
                validated = True
        if isinstance(stmt, ast.If) and block_always_exits(stmt.body) and \
                any(isinstance(n, ast.Raise) and _is_value_error(n) for n in ast.walk(stmt)):
            t = norm(stmt.test)
            if ('all(' in t or 'any(' in t) and any(d in t for d in digit_set_names | {'string.digits'}):
                validated = True
            if ('.isascii()' in t and ('.isdigit()' in t or '.isdecimal()' in t)):
                validated = True
    if not validated and not d_rets and set_name is not None and ok_loop:
        # the digit branch shares the validation loop and the conversion of the
        # letter branches: it selects the digit alphabet, base 10 and offset 0
        env_d = fold_ref(b_digit, 1)
        sel = env_d.get(set_name, UNKNOWN)
        base_name = next((norm(p_.args[1]) for p_ in ast.walk(final.value) if isinstance(p_, ast.Call)
                          and call_name(p_) == 'int' and len(p_.args) == 2), None)
        validated = isinstance(sel, (set, frozenset)) and set(sel) == digits \
            and env_d.get(base_name, UNKNOWN) == 10 and env_d.get(ref_name, UNKNOWN) == 0
    # the digit conversion itself
    conv = [c for c in calls_in(b_digit) if call_name(c) == 'int']
    ctx.ob('C19.R2', 'validate:digit-branch', validated,
           "the digit-initial branch checks every character against 0-9 before "
           "delegating to int() (int('1_0') == 10 and non-ASCII digits are accepted "
           "by int(); the sibling branches validate, this one must too)",
           mod, conv[0] if conv else b_digit)
    # dispatch ends in raise ValueError; all raises are ValueError
    # (a raise reached exactly when the first character is in none of the three
    # alphabets - whether the branches are an elif chain or early returns)
    def outside_all(r):
        seen = set()
        for e, pol in facts_at(r, fn):
            if pol and isinstance(e, ast.Compare) and len(e.ops) == 1 and isinstance(e.ops[0], ast.NotIn) \
                    and norm(e.left) == first_var:
                for name, want in (('digits', digits), ('upper', upper), ('lower', lower)):
                    if is_set(e.comparators[0], want):
                        seen.add(name)
        return seen == {'digits', 'upper', 'lower'}
    rejecting = [r for r in walk_no_nested(fn) if isinstance(r, ast.Raise) and _is_value_error(r)
                 and outside_all(r)]
    ctx.ob('C19.R2', 'dispatch:else-raises-ValueError', len(rejecting) == 1,
           'a first character outside the three alphabets is rejected with ValueError',
           mod, rejecting[0] if rejecting else b_digit)
    all_raises = [r for r in walk_no_nested(fn) if isinstance(r, ast.Raise)]
    ctx.ob('C19.R2', 'raises:only-ValueError', all(_is_value_error(r) for r in all_raises),
           'decode raises nothing but ValueError', mod, fn)
    # no except clause swallowing errors
    ctx.ob('C19.R2', 'no-error-swallowing',
           not any(isinstance(n, ast.Try) for n in walk_no_nested(fn)),
           'decode does not catch (and thereby hide) conversion errors', mod, fn)
    # empty string rejected before indexing
    idx_stmt = next((s for s in fn.body if isinstance(s, ast.Assign)
                     and norm(s.targets[0]) == first_var), None)
    if idx_stmt is None:
        # the first character is read where it is tested: the first statement that does so
        idx_stmt = next((s for s in fn.body if any(norm(n) == first_var for n in ast.walk(s)
                                                    if isinstance(n, ast.Subscript))), None)
    empty_ok = False
    for stmt in fn.body:
        if stmt is idx_stmt:
            break
        if isinstance(stmt, ast.If) and block_always_exits(stmt.body) and \
                norm(stmt.test).replace(' ', '') in (
                    'len(%s)==0' % str_var, 'not%s' % str_var, '%s==""' % str_var,
                    "%s==''" % str_var, 'len(%s)<1' % str_var) and \
                any(isinstance(n, ast.Raise) and _is_value_error(n) for n in stmt.body):
            empty_ok = True
    # a minus sign is legal in front of a decimal body only ("-999"); in front of a
    # letter body ("-A000") it is an illegal character of the field
    sign_vars = [st.targets[0].id for st in walk_no_nested(fn) if isinstance(st, ast.Assign)
                 and isinstance(st.targets[0], ast.Name) and isinstance(st.value, ast.UnaryOp)
                 and isinstance(st.value.op, ast.USub) and try_fold(st.value) == -1]
    sign_checked = False
    for br in (b_upper, b_lower):
        for e, pol in facts_at(br.body[0] if br.body else br, fn):
            pass
    for n in walk_no_nested(fn):
        if isinstance(n, ast.If) and any(isinstance(x, ast.Name) and x.id in sign_vars for x in ast.walk(n.test)) \
                and any(isinstance(x, ast.Raise) for x in ast.walk(n)):
            sign_checked = True
    ctx.ob('C19.R2', 'sign:only-for-decimal-fields', sign_checked or not sign_vars,
           'a field whose body starts with a letter is rejected when it carries a minus sign '
           '(sign variables: %s; a test on the sign that raises: %s)' % (sign_vars, sign_checked),
           mod, b_upper)
    # only the padding blank may be stripped from the field: str.strip() without
    # argument also removes TAB, CR, LF, FF, NBSP ... which are illegal characters
    # of a hybrid-36 field and must be rejected, not ignored
    strips = [c for c in calls_in(fn, nested=False) if last_attr(c) in ('strip', 'lstrip', 'rstrip')]
    strip_ok = all(len(c.args) == 1 and isinstance(c.args[0], ast.Constant) and c.args[0].value == ' '
                   for c in strips)
    ctx.ob('C19.R2', 'padding:only-blanks-stripped', strip_ok,
           'the field is stripped of blanks only (calls: %s)' % [norm(c) for c in strips], mod,
           next((c for c in strips if not (len(c.args) == 1)), strips[0] if strips else fn))
    ctx.ob('C19.R2', 'empty-rejected-before-indexing', empty_ok,
           'an empty field is rejected with ValueError before its first character is read',
           mod, idx_stmt or fn)
    # sign handling: '-' prefix -> sign -1 and stripped; else +1
    sign_ok = False
    for i_, stmt in enumerate(fn.body):
        if isinstance(stmt, ast.If) and 'startswith' in norm(stmt.test) and "'-'" in norm(stmt.test).replace('"', "'"):
            # the value the sign has on either branch, starting from what the
            # statements in front of the test left in it (a default set first
            # and overwritten for '-' is the same as an else branch)
            before = ConstEval({}).run([s_ for s_ in fn.body[:i_] if isinstance(s_, ast.Assign)
                                        and all(isinstance(t_, ast.Name) for t_ in s_.targets)])
            before = {k_: v_ for k_, v_ in before.items() if isinstance(v_, (int, float))}
            env_t = ConstEval(dict(before)).run(stmt.body)
            env_f = ConstEval(dict(before)).run(stmt.orelse)
            strip = any(isinstance(s, ast.Assign) and norm(s.targets[0]) == str_var
                        and norm(s.value) == str_var + '[1:]' for s in stmt.body)
            sign_ok = env_t.get(sign_var) == -1 and env_f.get(sign_var) == 1 and strip
    ctx.ob('C19.R1', 'sign-handling', sign_ok,
           "a leading '-' gives sign -1 and is removed; otherwise the sign is +1", mod, fn)
    # the padding is removed before the sign is looked for, and nothing is
    # stripped afterwards: a right-justified negative serial ('   -1') has its
    # sign behind the blanks, and blanks between sign and digits ('- 12') are
    # illegal characters of the field, not padding
    dcan = canon(fn)
    fparam = [a.arg for a in fn.args.args][0]
    sign_tests = [n for n in walk_no_nested(fn) if isinstance(n, ast.Call) and last_attr(n) == 'startswith'
                  and n.args and isinstance(n.args[0], ast.Constant) and n.args[0].value == '-']
    on_stripped = bool(sign_tests) and all(
        dcan.text(t.func.value).replace('"', "'") == "%s.strip(' ')" % fparam for t in sign_tests)
    first_sign = min((t.lineno for t in sign_tests), default=0)
    late = [c for c in strips if c.lineno > first_sign]
    ctx.ob('C19.R2', 'padding:stripped-before-the-sign-test', on_stripped and not late and len(strips) == 1,
           "the '-' is looked for in the field with its blanks already stripped (tested string: %s) and "
           'nothing is stripped after that (%d later strip calls)'
           % ([dcan.text(t.func.value) for t in sign_tests], len(late)), mod,
           late[0] if late else (sign_tests[0] if sign_tests else fn))

    # ------------------------------------------------------------------ R3
    sites = []
    for m2, q2, f2 in prog.all_funcs():
        for c in calls_in(f2, nested=False):
            cn = call_name(c) or ''
            if cn.endswith('hybrid36.decode') or (m2 is mod and cn == 'decode'):
                sites.append((m2, q2, c))
    ok_site = len(sites) == 1 and sites[0][0].name == 'atom' and \
        sites[0][1] == 'Atom.set_properties'
    col_ok = False
    if ok_site:
        arg = sites[0][2].args[0]
        from sa.tables import subscript_range, columns_of_slice
        if isinstance(arg, ast.Subscript):
            rng = subscript_range(arg)
            col_ok = rng is not None and rng[1] is not None and \
                columns_of_slice(*rng) == ['serial']
    ctx.ob('C19.R3', 'decode:single-call-on-serial-columns', ok_site and col_ok,
           'hybrid36.decode is applied exactly once, to the serial-number columns 7-11',
           sites[0][0] if sites else mod, sites[0][2] if sites else fn)
    common.check_inert_fields(ctx, 'C19.R3', prog, ['numb'])
    # sort_atoms overwrites numb before output
    cc = prog.mod('conformation_container')
    sa = cc.func('ConformationContainer.sort_atoms')
    ctx.ob('C19.R3', 'numb:renumbered-after-sorting',
           any(isinstance(n, ast.Assign) and isinstance(n.targets[0], ast.Attribute)
               and n.targets[0].attr == 'numb' for n in ast.walk(sa)),
           'sort_atoms renumbers atoms, so parsed serials never reach the output', cc, sa)
    ctx.need('C19.R1', 16)
    ctx.need('C19.R3', 3)


def _is_value_error(node):
    if node.exc is None:
        return False
    exc = node.exc
    if isinstance(exc, ast.Call):
        exc = exc.func
    return dotted(exc) == 'ValueError'
