"""C14 - titrate_only restricts titration exactly to the listed residues."""
import ast

from sa.astutil import (facts_at, call_name, calls_in, dotted, norm, walk_no_nested, fact_texts,
                        last_attr, names_in)
from sa.loader import AnalysisError
from sa.symexpand import expanded_returns
from sa.canon import canon
from checks import common

TITRATABLE_READERS = {
    ('conformation_container', 'ConformationContainer.get_titratable_groups'):
        'the list of groups that titrate',
    ('group', 'Group.use_in_calculations'): 'report filter',
    ('group', 'Group.calculate_folding_energy'): 'non-titratable groups contribute 0',
    ('group', 'Group.clone'): 'copy into the averaged group',
    ('conformation_container', 'ConformationContainer.find_bonded_titratable_groups'):
        'covalent coupling is between titratable groups only',
    ('energy', 'check_coulomb_pair'): 'Coulomb pairs need two titratable groups',
    ('group', 'Group.calculate_intrinsic_pka'):
        'a non-titratable partner keeps its hydrogen bond in the intrinsic pKa (C14.R2 partner-titratable)',
}


def demotion_rules(ctx, rule, prog):
    """With a titrate-only list the groups of unlisted residues are demoted to
    non-titratable at one site, under exactly "option given and residue not
    listed", after setup(); and every unlisted CYS group - bridged or free - is
    hidden from the results, because the report filter admits any CYS that is
    not hidden (shared with C01: nothing is reported that was not asked for)."""
    cc = prog.mod('conformation_container')
    ig = cc.func('ConformationContainer.init_group')
    demote = []
    hide = []
    for m2, q2, f2 in prog.all_funcs():
        for node in walk_no_nested(f2):
            if isinstance(node, ast.Assign) and isinstance(node.targets[0], ast.Attribute):
                t = node.targets[0]
                if t.attr == 'titratable' and norm(node.value) == 'False' \
                        and not (m2.name == 'group' and q2 in ('Group.__init__', 'Group.setup')):
                    demote.append((m2, q2, node))
                if t.attr == 'exclude_cys_from_results' and norm(node.value) == 'True':
                    hide.append((m2, q2, node))
    ctx.ob(rule, 'demotion:single-site',
           len(demote) == 1 and demote[0][1] == 'ConformationContainer.init_group',
           'groups are demoted to non-titratable at exactly one site, in init_group (sites: %s)'
           % [m.name + '.' + q for m, q, _ in demote], demote[0][0] if demote else cc,
           demote[0][2] if demote else ig)
    ctx.ob(rule, 'cys-hiding:single-site',
           len(hide) == 1 and hide[0][1] == 'ConformationContainer.init_group',
           'unlisted cysteines are hidden at exactly one site, in init_group', cc,
           hide[0][2] if hide else ig)
    for what, sites in (('demotion', demote), ('cys-hiding', hide)):
        for m2, q2, node in sites:
            if q2 != 'ConformationContainer.init_group':
                continue
            ican = canon(ig)
            facts = [(ican.text(e), p) for e, p in facts_at(node, ig)]
            OPT = '.options.titrate_only'
            given = any(p and t.endswith(OPT + ' is not None') for t, p in facts) or \
                any((not p) and t.endswith(OPT + ' is None') for t, p in facts)

            def _mem(t):
                if ' not in ' in t and OPT in t.split(' not in ', 1)[1]:
                    return 'notin'
                if ' in ' in t and OPT in t.split(' in ', 1)[1]:
                    return 'in'
                return None
            unlisted = any((_mem(t) == 'notin' and p) or (_mem(t) == 'in' and not p)
                           for t, p in facts)
            ctx.ob(rule, what + ':only-when-option-given-and-unlisted', given and unlisted,
                   'the %s happens only when the option is given and the residue is NOT listed'
                   % what, cc, node, detail=str(facts))
            # after setup()
            setup_calls = [c for c in calls_in(ig, nested=False) if last_attr(c) == 'setup']
            ctx.ob(rule, what + ':after-setup',
                   len(setup_calls) == 1 and setup_calls[0].lineno < node.lineno,
                   'it follows group.setup(), which resets titratable and the hiding flag', cc, node)
    if hide and hide[0][1] == 'ConformationContainer.init_group':
        facts = fact_texts(hide[0][2], ig)
        ctx.ob(rule, 'cys-hiding:only-cys',
               any(p and "residue_type == 'CYS'" in t for t, p in facts),
               'only CYS groups are hidden from the results', cc, hide[0][2])


def run(ctx):
    prog = ctx.prog
    lib = prog.mod('lib')
    cc = prog.mod('conformation_container')
    gmod = prog.mod('group')

    # ------------------------------------------------------------------ R1
    common.check_res_string_parse(ctx, 'C14.R1', prog)
    # the membership test in init_group
    ig = cc.func('ConformationContainer.init_group')
    tests = [n for n in walk_no_nested(ig) if isinstance(n, ast.Compare)
             and isinstance(n.ops[0], (ast.NotIn, ast.In)) and isinstance(n.left, ast.Tuple)]
    key_ok = False
    if len(tests) == 1:
        elts = [norm(e) for e in tests[0].left.elts]
        atom_v = elts[0].split('.')[0] if elts else ''
        key_ok = [e.split('.')[-1] for e in elts] == ['chain_id', 'res_num', 'icode'] and \
            all(e.startswith(atom_v + '.') for e in elts)
    ctx.ob('C14.R1', 'membership:triple-order', key_ok,
           'the membership key is (atom.chain_id, atom.res_num, atom.icode): same arity and '
           'order as the parsed triples', cc, tests[0] if tests else ig)
    # Atom fields have the matching types
    sp = prog.mod('atom').func('Atom.set_properties')
    defs = {norm(s.targets[0]): s.value for s in walk_no_nested(sp) if isinstance(s, ast.Assign)}
    ctx.ob('C14.R1', 'atom:res_num-int',
           isinstance(defs.get('self.res_num'), ast.Call) and call_name(defs['self.res_num']) == 'int',
           'Atom.res_num is an int', prog.mod('atom'), defs.get('self.res_num') or sp)
    ic = defs.get('self.icode')
    ic_ok = isinstance(ic, ast.Subscript) and norm(ic.slice) in ('26:27', '26')
    ctx.ob('C14.R1', 'atom:icode-raw-column', ic_ok,
           'Atom.icode is the raw insertion-code column (blank = " ")', prog.mod('atom'), ic or sp)
    opts = [o for o in common.parser_options(prog) if '-i' in o['flags']]
    ctx.ob('C14.R1', 'option:-i', len(opts) == 1 and opts[0].get('dest') == 'titrate_only'
           and opts[0].get('type') == 'parse_res_list',
           '-i/--titrate_only is parsed by parse_res_list into options.titrate_only', lib,
           opts[0]['node'] if opts else lib.func('build_parser'))
    # a list may be given in several pieces: with the default "store" action a
    # second -i silently replaces the first (the residues of the first become
    # non-titratable), while -c and -f accumulate
    ctx.ob('C14.R1', 'option:-i-accumulates', len(opts) == 1 and opts[0].get('action') in ('extend',),
           'repeated -i options extend one list (action %r; parse_res_list returns a list per '
           'option, so "append" would nest them)' % (opts[0].get('action') if opts else None), lib,
           opts[0]['node'] if opts else lib.func('build_parser'))
    prl = lib.func('parse_res_list')
    ctx.ob('C14.R1', 'parse-list:every-entry',
           any(last_attr(c) == 'split' for c in calls_in(prl)) and
           any(call_name(c) == 'parse_res_string' for c in calls_in(prl)) and
           any(last_attr(c) == 'append' for c in calls_in(prl)),
           'every comma-separated entry is parsed and kept', lib, prl)

    # ------------------------------------------------------------------ R2
    demotion_rules(ctx, 'C14.R2', prog)
    # "exactly the listed residues' groups are reported" - in every report, not only
    # in the averaged one: both section writers print a group only if it passes
    # the same filter as the groups that go into the average (use_in_calculations)
    outm = prog.mod('output')
    for secq, meth in (('get_determinant_section', 'get_determinant_string'),
                       ('get_summary_section', 'get_summary_string')):
        sec = outm.func(secq)
        scan = canon(sec)
        emits = [c for c in calls_in(sec, nested=False) if last_attr(c) == meth]
        okf = False
        if len(emits) == 1:
            gv = norm(emits[0].func.value)
            okf = any(p and t == gv + '.use_in_calculations()' for t, p in fact_texts(emits[0], sec))
            if not okf:
                loops = [n for n in ast.walk(sec) if isinstance(n, ast.For)
                         and any(emits[0] is x for x in ast.walk(n))]
                src = scan.expr(loops[-1].iter) if loops else None
                if isinstance(src, ast.ListComp) and len(src.generators) == 1:
                    tv = norm(src.generators[0].target)
                    from sa.astutil import flatten_and
                    okf = norm(src.elt) == tv and any(
                        pol and norm(e) == tv + '.use_in_calculations()'
                        for cond in src.generators[0].ifs for e, pol in flatten_and(cond, True))
        ctx.ob('C14.R2', 'report:only-groups-in-calculations:' + secq, okf,
               '%s prints a group only if use_in_calculations() admits it: with a titrate-only list '
               'the unlisted residues stay in every conformation as non-titratable groups, and the '
               'report of a single conformation (write_pka / print_result on "1A") listed all of them'
               % secq, outm, emits[0] if emits else sec)
    # whether a hydrogen-bond partner counts as titratable is read from its flag:
    # a residue left out of the list is a non-titratable partner whatever its
    # name, so a classification by residue-name prefix alone treats it as titratable
    gmod14 = prog.mod('group')
    n_name_tests = 0
    for q14, f14 in sorted(gmod14.funcs.items()):
        for node in walk_no_nested(f14):
            if isinstance(node, ast.Compare) and len(node.ops) == 1 \
                    and isinstance(node.ops[0], (ast.In, ast.NotIn)) \
                    and isinstance(node.left, ast.Subscript) and isinstance(node.left.slice, ast.Slice) \
                    and norm(node.left.value).endswith('.label') \
                    and isinstance(node.comparators[0], (ast.List, ast.Tuple, ast.Set)) \
                    and {getattr(e, 'value', None) for e in node.comparators[0].elts} >= {'ASP', 'LYS'}:
                n_name_tests += 1
                par = node._parent
                mates = par.values if isinstance(par, ast.BoolOp) else []
                flagged = any(isinstance(x, ast.Attribute) and x.attr == 'titratable'
                              for m in mates for x in ast.walk(m)) or any(
                    'titratable' in t for t, _p in fact_texts(node, f14))
                ctx.ob('C14.R2', 'partner-titratable:by-flag:' + q14, flagged,
                       '%s classifies a partner as titratable by the residue name in its label together '
                       'with its titratable flag (a residue left out of --titrate_only keeps its name)'
                       % q14, gmod14, node)
    ctx.note('name_based_titratable_tests', n_name_tests)
    # the list is used for membership only and read in one place
    reads = common.option_reads(prog).get('titrate_only', [])
    ctx.ob('C14.R2', 'option:single-reader',
           {(m.name, q) for m, q, _n in reads} == {('conformation_container',
                                                    'ConformationContainer.init_group')},
           'options.titrate_only is read only by init_group (readers %s)'
           % sorted({m.name + '.' + q for m, q, _n in reads}), cc, reads[0][2] if reads else ig)
    ican = canon(ig)
    holders = {st.targets[0].id for st in walk_no_nested(ig) if isinstance(st, ast.Assign)
               and isinstance(st.targets[0], ast.Name)
               and ican.text(st.value).endswith('.options.titrate_only')}
    uses = [n for n in walk_no_nested(ig) if isinstance(n, ast.Name) and n.id in holders
            and isinstance(n.ctx, ast.Load)]
    uses += [n for n in walk_no_nested(ig) if isinstance(n, ast.Attribute) and n.attr == 'titrate_only'
             and isinstance(n.ctx, ast.Load) and not (
                 isinstance(n._parent, ast.Assign) and n._parent.value is n
                 and isinstance(n._parent.targets[0], ast.Name))]
    def _member_use(u):
        par = u._parent
        if isinstance(par, ast.Call) and call_name(par) in ('set', 'frozenset', 'tuple', 'list'):
            par = par._parent
        return isinstance(par, ast.Compare)
    only_member = all(_member_use(u) for u in uses)
    ctx.ob('C14.R2', 'list:membership-only', only_member and len(uses) >= 2,
           'the list is only compared with None and tested for membership (unknown entries and '
           'complete lists are therefore no-ops)', cc, ig)

    # unlisted groups stay hydrogen-bond partners *with the same strength*: the
    # pair energies read the buried-ness (num_volume) of both partners, which
    # calculate_pka computes only for the groups it iterates over
    cpk = cc.func('ConformationContainer.calculate_pka')
    des_loops = [n for n in walk_no_nested(cpk) if isinstance(n, ast.For)
                 and any(last_attr(c) == 'calculate_desolvation' for c in calls_in(n))]
    covers_all = bool(des_loops) and all('get_titratable_groups' not in norm(l.iter) for l in des_loops)
    readers = sorted({'%s.%s' % (m2.name, q2) for m2, q2, f2 in prog.all_funcs()
                      for n in walk_no_nested(f2) if isinstance(n, ast.Attribute) and n.attr == 'num_volume'
                      and isinstance(n.ctx, ast.Load) and m2.name in ('energy', 'determinants', 'version')})
    ctx.ob('C14.R2', 'environment:desolvation-of-unlisted-groups', covers_all,
           'the buried-ness of a group that is not listed is still computed: it is read for both '
           'partners of every hydrogen bond and Coulomb pair (%s), and with num_volume left at 0 the '
           'bond to an unlisted residue changes strength (iterates: %s)'
           % (readers, [norm(l.iter) for l in des_loops]), cc, des_loops[0] if des_loops else cpk)
    dmod14 = prog.mod('determinants')
    sdet = dmod14.func('set_determinants')
    iter_calls = [c for c in calls_in(sdet) if last_attr(c) == 'add_to_determinant_list']
    guarded_titr = bool(iter_calls) and all(
        any('titratable' in norm(e) for e, pol in facts_at(c, sdet)) for c in iter_calls)
    ctx.ob('C14.R2', 'environment:iterative-scheme-for-titratable-pairs-only', guarded_titr,
           'a pair enters the iterative (mutually titrating) scheme only when both groups are '
           'titratable; an unlisted group would otherwise compete with its bare model pKa and can '
           'lose or flip the hydrogen bond it should merely provide', dmod14,
           iter_calls[0] if iter_calls else sdet)

    # ------------------------------------------------------------------ R3
    removals = []
    for m2, q2, f2 in prog.all_funcs():
        for node in walk_no_nested(f2):
            if isinstance(node, ast.Call) and last_attr(node) in ('remove', 'pop', 'clear') \
                    and norm(node.func.value).endswith('.groups'):
                removals.append((m2, q2, node))
            if isinstance(node, ast.Delete) and any('.groups' in norm(t) for t in node.targets):
                removals.append((m2, q2, node))
            if isinstance(node, ast.Assign) and any(
                    isinstance(t, ast.Attribute) and t.attr == 'groups' for t in node.targets) \
                    and not q2.endswith('__init__'):
                removals.append((m2, q2, node))
    ctx.ob('C14.R3', 'groups:never-removed', not removals,
           'no group is ever removed from a conformation (demoted groups stay as hydrogen-bond '
           'partners and desolvating environment); offenders %s'
           % [m.name + '.' + q for m, q, _ in removals], removals[0][0] if removals else cc,
           removals[0][2] if removals else ig)
    readers = {}
    for m2, q2, f2 in prog.all_funcs():
        for node in walk_no_nested(f2):
            if isinstance(node, ast.Attribute) and node.attr == 'titratable' \
                    and isinstance(node.ctx, ast.Load):
                readers.setdefault((m2.name, q2), (m2, node))
    # a private helper (leading underscore) that is called only from listed
    # readers - itself included: a recursive helper - reads the flag on their behalf
    from sa import callgraph as _cg
    cg14 = _cg.build(prog)

    def on_behalf(key, seen=()):
        name = key[1].split('.')[-1]
        if not (name.startswith('_') and not name.startswith('__')) or key in seen:
            return False
        callers = [c for c in cg14.callers_of(key) if c != key]
        return bool(callers) and all(c in TITRATABLE_READERS or on_behalf(c, seen + (key,)) for c in callers)
    for key, (m2, node) in sorted(readers.items()):
        ctx.ob('C14.R3', 'titratable-reader:%s.%s' % key, key in TITRATABLE_READERS or on_behalf(key),
               'reader of the titratable flag is one of the reviewed sites (%s)'
               % TITRATABLE_READERS.get(key, 'NOT reviewed: a new dependence on the flag can '
                                        'remove demoted groups from the environment'), m2, node)
    ctx.need('C14.R3', 5)
    # environment lists do not filter on the flag
    for qual in ('ConformationContainer.get_sidechain_groups',
                 'ConformationContainer.get_backbone_groups',
                 'ConformationContainer.get_non_hydrogen_atoms'):
        f = cc.func(qual)
        ctx.ob('C14.R3', 'environment:' + qual, 'titratable' not in norm(f),
               '%s does not depend on the titratable flag' % qual, cc, f)

    # ------------------------------------------------------------------ R4
    uic = gmod.func('Group.use_in_calculations')
    r = [x for x in walk_no_nested(uic) if isinstance(x, ast.Return)]
    ok = False
    if len(r) == 1 and isinstance(r[0].value, ast.BoolOp) and isinstance(r[0].value.op, ast.Or) \
            and len(r[0].value.values) == 2:
        vals = r[0].value.values
        tit = [v for v in vals if norm(v) == 'self.titratable']
        conj = [v for v in vals if isinstance(v, ast.BoolOp) and isinstance(v.op, ast.And)]
        if len(tit) == 1 and len(conj) == 1 and len(conj[0].values) == 2:
            parts = sorted(norm(v).replace('(', '').replace(')', '') for v in conj[0].values)
            ok = parts == sorted(["self.residue_type == 'CYS'",
                                  'not self.exclude_cys_from_results'])
    ctx.ob('C14.R4', 'report-filter', ok,
           'a group is reported iff it is titratable, or it is a CYS that is not hidden', gmod,
           r[0] if r else uic)
    gfc = cc.func('ConformationContainer.get_groups_for_calculations')
    ctx.ob('C14.R4', 'report-list', 'use_in_calculations()' in norm(gfc), 
           'get_groups_for_calculations applies use_in_calculations to every group', cc, gfc)
    ctx.assume('equality of the numbers with and without the option is not decided')
