"""C08 - the conformation average is the mean over the conformations that
contain the group."""
import ast

from sa.astutil import (str_template, effective, facts_at, call_name, calls_in, dotted, norm, walk_no_nested, try_fold,
                        names_in, last_attr, guards_of, fact_texts, enclosing_loops,
                        format_fields, concat_str)
from sa.loader import AnalysisError
from checks import common
from checks.recordloop import RecordLoop


def _find_avg(prog):
    mc = prog.mod('molecular_container')
    fn = mc.funcs.get('MolecularContainer.average_of_conformations')
    if fn is None:
        for qual, cand in mc.funcs.items():
            if any(last_attr(c) == 'clone' for c in calls_in(cand)):
                fn = cand
    if fn is None:
        raise AnalysisError('C08: averaging function not found')
    return mc, fn


def averaging_rules(ctx, rule):
    """R1/R2: how average_of_conformations enumerates, de-duplicates, sums and
    divides.  ``rule(name)`` maps R1/R2 to the caller's rule id."""
    prog = ctx.prog
    mc, fn = _find_avg(prog)
    clones = [s for s in walk_no_nested(fn) if isinstance(s, ast.Assign)
              and isinstance(s.value, ast.Call) and last_attr(s.value) == 'clone']
    if len(clones) != 1:
        raise AnalysisError('C08: expected one clone() in the averaging function')
    acc = norm(clones[0].targets[0])
    cand_var = norm(clones[0].value.func.value)
    accums = [s for s in walk_no_nested(fn) if isinstance(s, ast.AugAssign)
              and isinstance(s.op, ast.Add) and norm(s.target) == acc]
    divs = [s for s in walk_no_nested(fn) if isinstance(s, ast.Assign)
            and isinstance(s.value, ast.BinOp) and isinstance(s.value.op, ast.Div)
            and norm(s.value.left) == acc] + \
           [s for s in walk_no_nested(fn) if isinstance(s, ast.AugAssign)
            and isinstance(s.op, ast.Div) and norm(s.target) == acc]
    if not divs:
        # the quotient written where it is appended: `groups.append(acc / n)`
        class _Quot:
            def __init__(self, node):
                self.value, self.targets, self.lineno = node, [node], node.lineno
                self.col_offset, self._parent = node.col_offset, node._parent
        divs = [_Quot(n) for n in walk_no_nested(fn) if isinstance(n, ast.BinOp) and isinstance(n.op, ast.Div)
                and norm(n.left) == acc and isinstance(n._parent, ast.Call) and last_attr(n._parent) == 'append']
    if len(accums) != 1 or len(divs) != 1:
        raise AnalysisError('C08: expected one `acc += g` and one `acc / n` (found %d, %d)'
                            % (len(accums), len(divs)))
    accum, div = accums[0], divs[0]
    divisor = div.value.right if isinstance(div, ast.Assign) or not isinstance(div, ast.AST) else div.value

    # ------------------------------------------------------------------ R1
    ok, why = False, 'divisor is %s' % norm(divisor)
    if isinstance(divisor, ast.Name):
        n = divisor.id
        defs = [s for s in walk_no_nested(fn) if isinstance(s, (ast.Assign, ast.AugAssign))
                and norm(s.targets[0] if isinstance(s, ast.Assign) else s.target) == n]
        incs = [s for s in defs if isinstance(s, ast.AugAssign) and isinstance(s.op, ast.Add)
                and try_fold(s.value) == 1]
        inits = [s for s in defs if isinstance(s, ast.Assign) and try_fold(s.value) == 0]
        same_block = len(incs) == 1 and incs[0]._parent is accum._parent
        reset = len(inits) == 1 and inits[0]._parent is clones[0]._parent
        ok = same_block and reset and len(defs) == 2
        why = ('counter %s: incremented beside the accumulation: %s; reset per averaged group: %s'
               % (n, same_block, reset))
    elif isinstance(divisor, ast.Call) and call_name(divisor) == 'len' and \
            isinstance(divisor.args[0], ast.Name):
        lst = divisor.args[0].id
        apps = [c for c in calls_in(fn, nested=False) if last_attr(c) == 'append'
                and norm(c.func.value) == lst]
        inits = [s for s in walk_no_nested(fn) if isinstance(s, ast.Assign)
                 and norm(s.targets[0]) == lst and norm(s.value) in ('[]', 'list()')]
        if apps and inits:
            st = apps[0]
            while not isinstance(st, ast.stmt):
                st = st._parent
            ok = len(apps) == 1 and st._parent is accum._parent and \
                inits[0]._parent is clones[0]._parent
            why = 'length of %s, appended beside the accumulation' % lst
    ctx.ob(rule('R1'), 'divisor:counts-contributors', ok,
           'the accumulated group is divided by the number of conformations that contributed '
           '(%s); dividing by the number of all conformations halves a group present in one of '
           'two conformations' % why, mc, div)
    # accumulation happens exactly when the group was found
    facts = fact_texts(accum, fn)
    lookup_var = norm(accum.value)
    found_ok = any(p and t == lookup_var for t, p in facts)
    ctx.ob(rule('R1'), 'accumulate:iff-found', found_ok,
           'the group is added exactly when the look-up in that conformation succeeded',
           mc, accum)
    lookup = [s for s in walk_no_nested(fn) if isinstance(s, ast.Assign)
              and norm(s.targets[0]) == lookup_var]
    look_ok = False
    name_loop = None
    if len(lookup) == 1 and isinstance(lookup[0].value, ast.Call) \
            and last_attr(lookup[0].value) == 'find_group' \
            and [norm(a) for a in lookup[0].value.args] == [cand_var]:
        loops = enclosing_loops(lookup[0], fn)
        if loops and 'conformation_names' in norm(loops[0].iter):
            name_loop = loops[0]
            recv = norm(lookup[0].value.func.value)
            look_ok = recv == 'self.conformations[%s]' % norm(name_loop.target)
    ctx.ob(rule('R1'), 'lookup:every-conformation', look_ok,
           'the candidate is looked up with find_group in every named conformation', mc,
           lookup[0] if lookup else fn)

    # a cysteine that is bridged in some conformations only: its pka_value is the
    # fixed 99.99 there, which must not be averaged with real values
    acc_facts = [norm(e) for e, pol in facts_at(accum, fn) if pol]
    sentinel_guard = any('cysteine_bridge' in t or 'titratable' in t for t in acc_facts)
    ctx.ob(rule('R1'), 'accumulate:bridge-sentinel-not-averaged', sentinel_guard,
           'a copy of the group whose pKa is the fixed 99.99 of a bridged cysteine is not summed '
           'with the computed values of the other conformations (conditions on the accumulation: '
           '%s)' % acc_facts, mc, accum)

    # ------------------------------------------------------------------ R2
    enum = [c for c in calls_in(fn, nested=False) if last_attr(c) == 'get_groups_for_calculations']
    if len(enum) != 1:
        raise AnalysisError(rule('R2') + ': candidate enumeration call not found')
    recv = enum[0].func.value
    loops = enclosing_loops(enum[0], fn)
    cand_loop = next((l for l in walk_no_nested(fn) if isinstance(l, ast.For)
                      and l.iter is enum[0]), None)
    union_ok = False
    detail = 'receiver %s' % norm(recv)
    # receiver must derive from a loop variable over all conformations
    recv_names = names_in(recv)
    recv_defs = {}
    for s in walk_no_nested(fn):
        if isinstance(s, ast.Assign) and isinstance(s.targets[0], ast.Name) \
                and s.targets[0].id in recv_names:
            recv_defs[s.targets[0].id] = s
    outer_loops = enclosing_loops(cand_loop, fn) if cand_loop is not None else []
    for lp in outer_loops:
        it = norm(lp.iter)
        if 'conformation_names' in it or 'conformations.values()' in it or \
                'conformations.items()' in it:
            tnames = names_in(lp.target)
            through = set(recv_names)
            for nm, s in recv_defs.items():
                through |= names_in(s.value)
            if tnames & through and '[0]' not in norm(recv) and \
                    not any('[0]' in norm(s.value) for s in recv_defs.values()):
                union_ok = True
    ctx.ob(rule('R2'), 'candidates:union-over-conformations', union_ok,
           'the groups to average are enumerated from every conformation, not from one '
           'selected by a constant index (%s); a group living only in another conformation '
           'would vanish from the report' % detail, mc, enum[0])
    # de-duplication before the clone with the same look-up key
    dedup = False
    by_identity = False
    if cand_loop is not None:
        for stmt in cand_loop.body:
            if stmt is clones[0]:
                break
            if isinstance(stmt, ast.If) and len(stmt.body) >= 1 and \
                    isinstance(effective(stmt.body)[-1], ast.Continue):
                for c in calls_in(stmt.test):
                    if last_attr(c) == 'find_group' and [norm(a) for a in c.args] == [cand_var]:
                        dedup = True
                # identity form: id(<candidate>) in <set of consumed groups>
                t = stmt.test
                if isinstance(t, ast.Compare) and isinstance(t.ops[0], ast.In) \
                        and isinstance(t.left, ast.Call) and call_name(t.left) == 'id' \
                        and [norm(a) for a in t.left.args] == [cand_var] \
                        and isinstance(t.comparators[0], ast.Name):
                    used_name = t.comparators[0].id
                    marks = [c for c in calls_in(fn, nested=False) if last_attr(c) == 'add'
                             and norm(c.func.value) == used_name and c.args
                             and isinstance(c.args[0], ast.Call) and call_name(c.args[0]) == 'id'
                             and norm(c.args[0].args[0]) == lookup_var]
                    same_block = bool(marks) and all(
                        any(m is x for x in ast.walk(accum._parent)) for m in marks)
                    if same_block:
                        dedup = True
                        by_identity = True
    ctx.ob(rule('R2'), 'candidates:dedupe-by-identity', by_identity or not union_ok,
           'a candidate is skipped because this very object went into an earlier average, not '
           'because the average container holds a group with the same key: two different groups '
           'of one conformation can share the key (chains without identifier and equal numbering), '
           'and the second would be dropped from the report', mc, cand_loop or fn)
    ctx.ob(rule('R2'), 'candidates:de-duplicated', dedup or not union_ok,
           'a candidate already averaged (found by the same find_group key in the average '
           'container) is skipped, so no group is reported twice', mc, cand_loop or fn)
    # the averaged group is appended once to the average container
    apps = [c for c in calls_in(fn, nested=False) if last_attr(c) == 'append'
            and norm(c.func.value).endswith('.groups')]
    # (what is appended is the quotient: the accumulator divided in place, the
    # local the quotient is bound to, or the quotient itself)
    quotient = {acc} if isinstance(div, ast.AugAssign) else {norm(div.targets[0]), norm(div.value)}
    ctx.ob(rule('R2'), 'average:appended-once',
           len(apps) == 1 and norm(apps[0].args[0]) in quotient,
           'each averaged group is appended exactly once to the average container', mc,
           apps[0] if apps else fn)
    return dict(prog=prog, mc=mc)


def run(ctx):
    shared = averaging_rules(ctx, lambda name: 'C08.' + name)
    prog, mc = shared['prog'], shared['mc']

    # ------------------------------------------------------------------ R3
    common.check_linear_fields(ctx, 'C08.R3', prog)

    # identical models change nothing - also in what is printed: the mean of n
    # equal values carries round-off ((b+b+b)/3 = 0.35 - 1 ulp), so a percentage
    # obtained by truncation (int(100*b)) drops by one for some n
    gm8 = prog.mod('group')
    gds = gm8.func('Group.get_determinant_string')
    trunc = [c for c in calls_in(gds) if call_name(c) == 'int' and c.args
             and any(isinstance(x, ast.Attribute) and x.attr == 'buried' for x in ast.walk(c.args[0]))]
    ok_r = bool(trunc) and all(isinstance(c.args[0], ast.Call) and call_name(c.args[0]) == 'round'
                               for c in trunc)
    ctx.ob('C08.R3', 'buried:percent-not-truncated-from-noisy-mean', ok_r,
           'the printed buried percentage is rounded before it is cut to an integer (%d conversions)'
           % len(trunc), gm8, trunc[0] if trunc else gds)
    # ------------------------------------------------------------------ R4
    cc = prog.mod('conformation_container')
    tu = cc.func('ConformationContainer.top_up_from_atoms')
    copies = [c for c in calls_in(tu, nested=False) if last_attr(c) == 'copy_atom']
    ok = False
    if len(copies) == 1:
        facts = fact_texts(copies[0], tu)
        for t, p in facts:
            if 'res_name' in t and (('!=' in t and not p) or ('==' in t and p)):
                ok = True
    ctx.ob('C08.R4', 'top-up:residue-type-guard', ok,
           'an atom is copied into a conformation only when the residue already present under '
           'the same residue key has the same residue name', cc, copies[0] if copies else tu)
    # ... but two different residues may legitimately share chain and number
    # inside ONE conformation as read (a protein residue and an ion or ligand
    # numbered alike, as in files where every molecule is numbered from 1):
    # those positions are exempt from the guard, else the one that comes second
    # is never copied into a conformation that lacks it
    exempt_ok = False
    if len(copies) == 1:
        tparams = [a.arg for a in tu.args.args if a.arg != 'self']
        for e, pol in facts_at(copies[0], tu):
            for sub in ast.walk(e):
                if isinstance(sub, ast.Compare) and len(sub.ops) == 1 \
                        and isinstance(sub.ops[0], (ast.In, ast.NotIn)) \
                        and isinstance(sub.comparators[0], ast.Name) \
                        and sub.comparators[0].id in tparams[1:]:
                    exempt_ok = True
        tuc_ = mc.func('MolecularContainer.top_up_conformations')
        passes = [c for c in calls_in(tuc_) if last_attr(c) == 'top_up_from_atoms'
                  and (len(c.args) >= 2 or c.keywords)]
        exempt_ok = exempt_ok and len(passes) == 1
    ctx.ob('C08.R4', 'top-up:guard-exempts-positions-shared-within-a-conformation', exempt_ok,
           'top_up_from_atoms takes the positions that carry more than one residue name within one '
           'conformation as read, does not apply the residue-type guard to them, and '
           'top_up_conformations passes them', cc, copies[0] if copies else tu)
    # the residue table the guard consults must learn the residues that are
    # copied in: otherwise a residue missing from this conformation is filled
    # from two other conformations with two different residue types
    if len(copies) == 1:
        guard_names = set()
        for e, _p in facts_at(copies[0], tu):
            if 'res_name' in norm(e):
                guard_names |= {n.id for n in ast.walk(e) if isinstance(n, ast.Name)}
        tables = []
        for st in walk_no_nested(tu):
            if isinstance(st, ast.Assign) and isinstance(st.targets[0], ast.Name) \
                    and st.targets[0].id in guard_names \
                    and isinstance(st.value, (ast.DictComp, ast.Dict, ast.Call)) \
                    and 'self.atoms' in norm(st.value):
                tables.append(st.targets[0].id)
        loops = enclosing_loops(copies[0], tu)
        learned = {}
        for tname in tables:
            learned[tname] = False
            for n in ast.walk(loops[0]) if loops else []:
                if isinstance(n, ast.Call) and last_attr(n) in ('setdefault', 'update') \
                        and norm(n.func.value) == tname:
                    learned[tname] = True
                if isinstance(n, ast.Subscript) and isinstance(n.ctx, ast.Store) \
                        and norm(n.value) == tname:
                    learned[tname] = True
        ctx.ob('C08.R4', 'top-up:residue-table-learns-copies', all(learned.values()),
               'the residue-name table the guard consults is snapshotted before the loop (%s) and '
               'is extended inside the loop for every residue that is copied in, so the first '
               'residue type copied for a missing residue wins and a second type is refused '
               '(extended: %s)' % (tables or 'none: recomputed from self.atoms', learned),
               cc, copies[0])
    ok2 = False
    if len(copies) == 1:
        facts = fact_texts(copies[0], tu)
        ok2 = any(('residue_label' in t and (('not in' in t and p) or (' in ' in t and 'not in' not in t and not p)))
                  for t, p in facts)
    ctx.ob('C08.R4', 'top-up:only-missing-atoms', ok2,
           'only atoms whose label is missing from the conformation are copied', cc,
           copies[0] if copies else tu)
    tuc = mc.func('MolecularContainer.top_up_conformations')
    src = norm(tuc)
    all_conf = 'self.conformation_names' in src and '.atoms' in src
    calls = [c for c in calls_in(tuc) if last_attr(c) == 'top_up_from_atoms']
    every = False
    if len(calls) == 1:
        lps = enclosing_loops(calls[0], tuc)
        every = bool(lps) and ('conformations.values()' in norm(lps[0].iter)
                               or 'conformation_names' in norm(lps[0].iter))
    # the reference table is filled from the full atom list of every conformation
    # (not from a filtered view: kept hydrogens are atoms to be handed on too)
    fills = [c for c in calls_in(tuc) if last_attr(c) in ('setdefault', 'update', 'append', 'add')
             and isinstance(c.func.value, ast.Name) and calls and calls[0].args
             and c.func.value.id in {n.id for n in ast.walk(calls[0].args[0]) if isinstance(n, ast.Name)}]
    full = bool(fills)
    for c in fills:
        lps_f = enclosing_loops(c, tuc)
        its = [norm(l.iter) for l in lps_f]
        full = full and len(lps_f) == 2 and its[1] == 'self.conformation_names' \
            and its[0] == 'self.conformations[%s].atoms' % norm(lps_f[1].target)
    ctx.ob('C08.R4', 'top-up:reference-from-all-conformations', all_conf and every and full,
           'the reference atoms are all atoms of all conformations and every conformation is topped up '
           '(%d filling calls)' % len(fills), mc, fills[0] if fills else tuc)
    # a completed conformation lists its atoms in the order of the input, as the
    # same structure read on its own would: copied atoms are appended behind the
    # conformation's own, and ligand typing, hydrogen construction and the pair
    # loops all go by list order (a ligand atom given as alt-loc A/B came first
    # in 1B and changed the types of its neighbours: ASP 27 B 3.99 -> 6.88)
    sorts = []
    if len(calls) == 1:
        owner = norm(calls[0].func.value)
        loop_body = enclosing_loops(calls[0], tuc)
        scope = loop_body[0] if loop_body else tuc
        for c in calls_in(scope):
            if last_attr(c) == 'sort' and norm(c.func.value) == owner + '.atoms' \
                    and any(kw.arg == 'key' for kw in c.keywords):
                keyf = [kw.value for kw in c.keywords if kw.arg == 'key'][0]
                # key: position of the atom's donor key in the reference table
                table_names = {n.id for n in ast.walk(keyf) if isinstance(n, ast.Name)}
                from_ref = any(
                    isinstance(st, ast.Assign) and isinstance(st.targets[0], ast.Name)
                    and st.targets[0].id in table_names and 'enumerate(' in norm(st.value)
                    for st in walk_no_nested(tuc))
                if from_ref and c.lineno > calls[0].lineno:
                    sorts.append(c)
    ctx.ob('C08.R4', 'top-up:input-order-restored', len(sorts) == 1,
           'after topping a conformation up its atom list is sorted by position in the reference '
           'table (order of first appearance in the input); found %d such sort' % len(sorts),
           mc, sorts[0] if sorts else (calls[0] if calls else tuc))
    # the reference table keeps one donor per key; top_up_from_atoms refuses a
    # donor of another residue type.  If the key does not contain the residue
    # type, a point mutant that owns the key shadows the donors of the right type
    # (the donor table is the one handed to top_up_from_atoms)
    donor_tbl = None
    if len(calls) == 1 and calls[0].args:
        root = calls[0].args[0]
        while isinstance(root, (ast.Call, ast.Attribute)):
            root = root.func if isinstance(root, ast.Call) else root.value
        donor_tbl = root.id if isinstance(root, ast.Name) else None
    donor_keys = [st.value.key for st in walk_no_nested(tuc) if isinstance(st, ast.Assign)
                  and isinstance(st.value, ast.DictComp) and norm(st.targets[0]) == donor_tbl]
    donor_keys += [c.args[0] for c in calls_in(tuc, nested=False) if last_attr(c) == 'setdefault' and c.args
                   and norm(c.func.value) == donor_tbl]
    donor_keys += [n.slice for n in walk_no_nested(tuc) if isinstance(n, ast.Subscript)
                   and isinstance(n.ctx, ast.Store) and norm(n.value) == donor_tbl]
    key_has_type = bool(donor_keys) and all(
        any(isinstance(x, ast.Attribute) and x.attr == 'res_name' for x in ast.walk(k)) for k in donor_keys)
    ctx.ob('C08.R4', 'top-up:donor-key-includes-residue-type', key_has_type,
           'the table of donor atoms is keyed by atom label and residue type (key: %s), so a '
           'conformation lacking atoms is completed from a donor of its own residue type when one '
           'exists' % [norm(k) for k in donor_keys], mc, donor_keys[0] if donor_keys else tuc)
    # add_atom and copy_atom are the two ways an atom enters a container: they
    # must keep the same container-level books (atoms, chains)
    aa_f = cc.func('ConformationContainer.add_atom')
    ca_f = cc.func('ConformationContainer.copy_atom')

    def books(fn):
        res = set()
        for c in calls_in(fn, nested=False):
            if last_attr(c) in ('append', 'add', 'extend', 'insert') and norm(c.func.value).startswith('self.'):
                res.add(norm(c.func.value))
        return res
    missing_books = books(aa_f) - books(ca_f)
    ctx.ob('C08.R4', 'copy_atom:same-bookkeeping-as-add_atom', not missing_books,
           'copy_atom updates every container-level list that add_atom updates (missing: %s); a '
           'chain that reaches a conformation only through topping-up is otherwise unknown to the '
           'chain list the determinant table loops over' % sorted(missing_books), cc, ca_f)
    avgf = mc.func('MolecularContainer.average_of_conformations')
    first_only = [n for n in walk_no_nested(avgf) if isinstance(n, ast.Assign)
                  and isinstance(n.targets[0], ast.Attribute) and n.targets[0].attr == 'chains'
                  and 'conformation_names[0]' in norm(n.value)]
    ctx.ob('C08.R4', 'average:chains-from-all-conformations', not first_only,
           'the chain list of the averaged container is not taken from the first conformation alone',
           mc, first_only[0] if first_only else avgf)
    # copy_atom really copies (does not alias the atom into two containers)
    ca = cc.func('ConformationContainer.copy_atom')
    ctx.ob('C08.R4', 'copy_atom:makes-copy',
           any(last_attr(c) == 'make_copy' for c in calls_in(ca)) and
           any(last_attr(c) == 'append' for c in calls_in(ca)),
           'copy_atom appends a copy made by make_copy', cc, ca)

    # ------------------------------------------------------------------ R5
    rl = RecordLoop(prog)
    conf_defs = [s for s in walk_no_nested(rl.loop) if isinstance(s, ast.Assign)
                 and str_template(s.value) is not None
                 and any(isinstance(y, ast.Yield) and isinstance(y.value, ast.Tuple)
                         and norm(y.value.elts[0]) == norm(s.targets[0])
                         for y in ast.walk(rl.loop))]
    # ... or built where it is yielded
    class _Def:
        def __init__(self, value, node):
            self.value, self.node = value, node
    if not conf_defs:
        for y in ast.walk(rl.loop):
            if isinstance(y, ast.Yield) and isinstance(y.value, ast.Tuple) and y.value.elts \
                    and str_template(y.value.elts[0]) is not None:
                st_y = y
                while not isinstance(st_y, ast.stmt):
                    st_y = st_y._parent
                conf_defs.append(_Def(y.value.elts[0], st_y))
    ok = False
    conf_fields = []
    if len(conf_defs) == 1:
        tpl = str_template(conf_defs[0].value)
        conf_fields = [f for f in tpl if f[0] == 'fld']
        ok = len(tpl) == 2 and len(conf_fields) == 2 and conf_fields[0][2].endswith('d')
    ctx.ob('C08.R5', 'name:producer-format', ok,
           'the conformation name is "<model:int><alt-loc:1 char>" with nothing in between',
           rl.mod, getattr(conf_defs[0], 'node', conf_defs[0]) if conf_defs else rl.fn)
    srt = rl.mod.func('conformation_sorter')
    s_src = norm(srt).replace(' ', '')
    arg = srt.args.args[0].arg
    ctx.ob('C08.R5', 'name:consumer-split',
           'int(%s[:-1])' % arg in s_src and ('%s[-1:]' % arg in s_src or '%s[-1]' % arg in s_src),
           'conformation_sorter splits the name into int(name[:-1]) and the last character',
           rl.mod, srt)
    # the alt-loc tag is one record column
    tag_ok = False
    if conf_defs:
        alt = None
        alt_field = None
        if len(conf_fields) == 2:
            alt = ast.parse(conf_fields[1][1], mode='eval').body
            alt_field = alt
        # the character may pass through a string method on its way (`.translate(table)`)
        while isinstance(alt, ast.Call) and isinstance(alt.func, ast.Attribute) and not isinstance(
                alt.func.value, ast.Constant):
            alt = alt.func.value
        if alt is not None:
            defs0 = [s for s in walk_no_nested(rl.loop) if isinstance(s, ast.Assign)
                     and norm(s.targets[0]) == norm(alt)]
            tag_ok = any(isinstance(s.value, ast.Subscript) and rl.slice_of(s.value) == (16, 17)
                         for s in defs0)
    ctx.ob('C08.R5', 'name:altloc-is-column-17', tag_ok,
           'the alt-loc part is the single alt-loc column of the record', rl.mod,
           getattr(conf_defs[0], 'node', conf_defs[0]) if conf_defs else rl.fn)
    # digits and letters name the same conformations: '1'..'9' -> 'A'..'I', blank -> 'A'
    if conf_defs and alt is not None and isinstance(alt, ast.Name):
        from sa.consteval import ConstEval, UNKNOWN
        cnode = getattr(conf_defs[0], 'node', conf_defs[0])
        blk = cnode._parent
        body = getattr(blk, 'body', [])
        upto = body.index(cnode) if cnode in body else 0
        stmts = [st for st in body[:upto] if isinstance(st, ast.If)
                 and any(isinstance(t, ast.Assign) and norm(t.targets[0]) == alt.id for t in st.body)
                 and {n.id for n in ast.walk(st.test) if isinstance(n, ast.Name)} <= {alt.id}]
        want = dict(zip('123456789', 'ABCDEFGHI'))
        want.update({' ': 'A', 'A': 'A', 'B': 'B', 'Z': 'Z'})
        got = {}
        # module-level tables the field may be passed through (str.maketrans(...))
        menv = {}
        for st in rl.mod.tree.body:
            if isinstance(st, ast.Assign) and len(st.targets) == 1 and isinstance(st.targets[0], ast.Name):
                v_ = ConstEval({}).ev(st.value)
                if v_ is not UNKNOWN:
                    menv[st.targets[0].id] = v_
        for ch, exp in want.items():
            ev = ConstEval(dict(menv, **{alt.id: ch}))
            try:
                ev.run(stmts)
                # ... the mapping statements, then the expression that is printed
                got[ch] = ev.ev(alt_field) if alt_field is not None else ev.env.get(alt.id, UNKNOWN)
            except Exception:
                got[ch] = UNKNOWN
        bad = {k: got[k] for k in want if got[k] != want[k]}
        ctx.ob('C08.R5', 'name:digit-tags-are-letters', not bad,
               "alternate-location digits name the same conformations as letters: '1'..'9' -> "
               "'A'..'I', blank -> 'A', letters unchanged (constant folding of the %d mapping "
               "statements; wrong: %s)" % (len(stmts), bad), rl.mod,
               stmts[0] if stmts else getattr(conf_defs[0], 'node', conf_defs[0]))
    # sorted names come from conformation_sorter
    rp = rl.mod.func('read_pdb')
    ctx.ob('C08.R5', 'names:sorted-with-sorter',
           any(call_name(c) == 'sorted' and any(kw.arg == 'key' and norm(kw.value) == srt.name
                                                for kw in c.keywords) for c in calls_in(rp)),
           'conformation names are ordered by conformation_sorter', rl.mod, rp)
    # the averaging step matches "the same group" across conformations with
    # find_group: the match has to include the residue type, or the groups of an
    # alt-loc / model point mutant whose atoms share names (adenine N1 / guanine
    # N1, two different ligands) are averaged into one group that carries the
    # label and model pKa of the first
    cc8 = prog.mod('conformation_container')
    fg = cc8.func('ConformationContainer.find_group')
    fparam = [a.arg for a in fg.args.args if a.arg != 'self'][0]
    rets = [r for r in walk_no_nested(fg) if isinstance(r, ast.Return) and r.value is not None
            and not (isinstance(r.value, ast.Constant) and r.value.value in (False, None))]
    typed = bool(rets)
    for r in rets:
        ok = False
        for e, pol in facts_at(r, fg):
            for cmp_ in [x for x in ast.walk(e) if isinstance(x, ast.Compare) and len(x.ops) == 1]:
                sides = [norm(cmp_.left), norm(cmp_.comparators[0])]
                if pol and isinstance(cmp_.ops[0], ast.Eq) and all(t.endswith('.res_name') for t in sides) \
                        and any(t.startswith(fparam + '.') for t in sides) and sides[0] != sides[1]:
                    ok = True
        typed = typed and ok
    ctx.ob('C08.R4', 'match:includes-residue-type', typed,
           'ConformationContainer.find_group returns a group only when its residue name equals the '
           'residue name of the group looked for (%d returning exits)' % len(rets), cc8,
           rets[0] if rets else fg)
    ctx.assume('matching of a group across conformations relies on find_group; completeness '
               'of the rest of its key is decided by C06.R1')
