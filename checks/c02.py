"""C02 - reported pKa equals model pKa plus the contributions listed for it.

R1 recompute discipline (dirty/clean typestate with call summaries),
R2 the total is complete, R3 averaging is linear on the same field set,
R4 writers print what was summed.
"""
import ast

from sa import callgraph, typestate
from sa.astutil import (string_builders, func_params, facts_at, call_name, calls_in, dotted, norm, walk_no_nested, last_attr,
                        try_fold, format_fields, concat_str, enclosing_loops)
from sa.loader import AnalysisError
from sa.canon import canon
from checks import common

BOUNDARIES = [
    (('conformation_container', 'ConformationContainer.calculate_pka'),
     'pKa values of a conformation are final when calculate_pka returns'),
    (('coupled_groups', 'NonCovalentlyCoupledGroups.identify_non_covalently_coupled_groups'),
     'the coupling search must leave every group recomputed'),
    (('coupled_groups', 'NonCovalentlyCoupledGroups.is_coupled_protonation_state_probability'),
     'the coupling probe must leave both groups recomputed'),
    (('coupled_groups', 'NonCovalentlyCoupledGroups.swap_interactions'),
     'a swap recomputes both groups before returning'),
]


def make_world(prog):
    cg = callgraph.build(prog)
    reach = cg.reachable(callgraph.ENTRY_POINTS, callgraph.versionA_exclude)
    world = typestate.World(cg, callgraph.versionA_exclude, reach)
    world.solve()
    return cg, reach, world


def dirt_chain(world, fid, depth=0, seen=None):
    """Human-readable chain from a function to a leaf mutation it performs
    (for the report only)."""
    seen = seen or set()
    if fid in seen or depth > 6:
        return []
    seen.add(fid)
    fn = world.cg.funcs[fid]
    best = None
    # start after the last top-level loop that recomputes all groups
    start_line = 0
    for stmt in fn.body:
        if isinstance(stmt, ast.For) and 'calculate_total_pka' in norm(stmt) \
                and isinstance(stmt.iter, ast.Attribute) and stmt.iter.attr == 'groups':
            start_line = stmt.lineno
    for call, targets, _k in sorted(world.cg.sites.get(fid, []), key=lambda s: s[0].lineno):
        if call.lineno <= start_line or best is not None:
            continue
        for t in targets:
            s = world.summaries.get(t)
            if s is not None and s.dirty and not world.exclude(t):
                best = (call, t)
    if best is None:
        # leaf: a direct mutation
        for node in walk_no_nested(fn):
            if isinstance(node, ast.Call) and last_attr(node) in typestate.LIST_MUTATORS \
                    and 'determinants' in norm(node.func):
                return ['%s.%s:%d %s' % (fid[0], fid[1], node.lineno, norm(node)[:70])]
            if isinstance(node, (ast.Assign, ast.AugAssign)):
                tgt = node.targets[0] if isinstance(node, ast.Assign) else node.target
                if isinstance(tgt, ast.Attribute) and tgt.attr in (
                        typestate.SUM_FIELDS + typestate.DET_FIELDS):
                    return ['%s.%s:%d %s' % (fid[0], fid[1], node.lineno, norm(node)[:70])]
        return ['%s.%s' % fid]
    call, t = best
    return ['%s.%s:%d %s' % (fid[0], fid[1], call.lineno, norm(call)[:60])] + \
        dirt_chain(world, t, depth + 1, seen)


def run(ctx):
    prog = ctx.prog
    cg, reach, world = make_world(prog)
    ctx.note('callgraph', dict(cg.stats, functions=len(cg.funcs), reachable=len(reach),
                               summary_rounds=world.rounds))
    n_dirty_sites = sum(1 for fid in reach
                        if world.summaries[fid].dirty or world.summaries[fid].mut_params)
    ctx.note('functions_with_dirtying_effect', n_dirty_sites)

    # ------------------------------------------------------------------ R1
    for fid, why in BOUNDARIES:
        if fid not in cg.funcs:
            raise AnalysisError('C02.R1: boundary function missing: %s.%s' % fid)
        exits = world.exit_states.get(fid)
        if exits is None:
            raise AnalysisError('C02.R1: boundary function unreachable: %s.%s' % fid)
        mod = cg.mod_of[fid]
        fn = cg.funcs[fid]
        seen_keys = {}
        for stmt, st in sorted(exits, key=lambda e: e[0].lineno if e[0] is not None else 10**9):
            dirty = sorted(d for d in st if d != typestate.ENTRY)
            where = 'return at line %d' % stmt.lineno if stmt is not None else 'end of function'
            key = 'clean-at-exit:%s:%s' % (fid[1], 'return' if stmt is not None else 'fall-through')
            if stmt is not None:
                key += ':' + norm(stmt)[:40]
            seen_keys[key] = seen_keys.get(key, 0) + 1
            if seen_keys[key] > 1:
                key += '#%d' % seen_keys[key]
            chain = dirt_chain(world, fid) if dirty else []
            ctx.ob('C02.R1', key, not dirty,
                   '%s: at the %s no group may have determinants/energies that changed after '
                   'its last calculate_total_pka() (dirty designators: %s%s)' % (
                       why, where, dirty,
                       '; last dirtying chain: ' + ' -> '.join(chain) if chain else ''),
                   mod, stmt or fn)
    # the first boundary must also clean whatever came before it
    fid0 = BOUNDARIES[0][0]
    ctx.ob('C02.R1', 'calculate_pka:recomputes-all-groups', world.summaries[fid0].cleans_all,
           'every path through ConformationContainer.calculate_pka passes a loop that '
           'recomputes all groups after the determinants were set', cg.mod_of[fid0], cg.funcs[fid0])
    # state just before averaging / reporting in MolecularContainer.calculate_pka
    mfid = ('molecular_container', 'MolecularContainer.calculate_pka')
    mfn = cg.funcs.get(mfid)
    if mfn is None:
        raise AnalysisError('C02.R1: MolecularContainer.calculate_pka missing')
    probes = {}

    class Probe(typestate.DirtyState):
        def _apply_call(self, call, state):
            if last_attr(call) in ('average_of_conformations', 'print_result'):
                probes.setdefault(last_attr(call), []).append(
                    (call, sorted(d for d in state if d != typestate.ENTRY)))
            return typestate.DirtyState._apply_call(self, call, state)
    Probe(world, mfid).exit_states(mfn)
    avg = probes.get('average_of_conformations', [])
    ctx.ob('C02.R1', 'before-averaging:clean', bool(avg) and all(not d for _c, d in avg),
           'when the conformations are averaged (which sums pKa values and contributions '
           'separately) every group has been recomputed (dirty: %s)' % [d for _c, d in avg],
           cg.mod_of[mfid], avg[0][0] if avg else mfn)
    # nothing between calculate_pka and write_pka in the drivers
    run_mod = prog.mod('run')
    for qual in ('single', 'main'):
        fn = run_mod.func(qual)
        mvars = {norm(s_.targets[0]) for s_ in walk_no_nested(fn) if isinstance(s_, ast.Assign)
                 and isinstance(s_.value, ast.Call)
                 and call_name(s_.value) in ('MolecularContainer', 'read_molecule_file')}
        dcan = canon(fn)

        def is_molecule(e):
            t = dcan.text(e)
            return t.startswith('read_molecule_file(') or t.startswith('MolecularContainer(')
        seq = [last_attr(c) for c in calls_in(fn, nested=False)
               if isinstance(c.func, ast.Attribute) and is_molecule(c.func.value)]
        mvars = {dcan.text(c.func.value) for c in calls_in(fn, nested=False)
                 if isinstance(c.func, ast.Attribute) and is_molecule(c.func.value)}
        ctx.ob('C02.R1', 'driver:%s:report-follows-calculation' % qual,
               seq == ['calculate_pka', 'write_pka'] and len(mvars) == 1,
               'run.%s calls calculate_pka and then only write_pka on the molecule (%s)'
               % (qual, seq), run_mod, fn)
    # reporters have no dirtying effect
    out_mod = prog.mod('output')
    bad = []
    for fid in sorted(reach):
        if fid[0] == 'output' or fid[1] in ('Group.get_determinant_string',
                                            'Group.get_summary_string',
                                            'Group.get_determinant_for_string',
                                            'MolecularContainer.write_pka'):
            s = world.summaries[fid]
            if s.dirty or s.mut_params:
                bad.append(fid)
    ctx.ob('C02.R1', 'reporters:no-effect', not bad,
           'no report-writing function changes determinants or energies (offenders %s)' % bad,
           out_mod, out_mod.tree)
    ctx.need('C02.R1', 8)

    # ------------------------------------------------------------------ R2
    gmod = prog.mod('group')
    total = gmod.func('Group.calculate_total_pka')
    base = [s for s in walk_no_nested(total) if isinstance(s, ast.Assign)
            and norm(s.targets[0]) == 'self.pka_value' and not isinstance(s.value, ast.Constant)]
    ok = False
    if len(base) == 1:
        terms = sorted(t.strip() for t in norm(base[0].value).strip('()').split('+'))
        ok = terms == ['self.energy_local', 'self.energy_volume', 'self.model_pka']
    ctx.ob('C02.R2', 'total:base-terms', ok,
           'the total starts from model_pka + energy_volume + energy_local', gmod,
           base[0] if base else total)
    lists = common._det_type_lists(total)
    ctx.ob('C02.R2', 'total:all-three-types',
           len(lists) == 1 and sorted(lists[0][1]) == sorted(common.DET_TYPES),
           'the total iterates all three determinant types (%s)' % [v for _n, v in lists],
           gmod, lists[0][0] if lists else total)
    aug = [n for n in walk_no_nested(total) if isinstance(n, ast.AugAssign)]
    ok = len(aug) == 1 and isinstance(aug[0].op, ast.Add) and norm(aug[0].target) == 'self.pka_value' \
        and norm(aug[0].value).endswith('.value')
    if ok:
        lps = enclosing_loops(aug[0], total)
        ok = len(lps) == 2 and 'self.determinants[' in norm(lps[0].iter) and \
            not any(isinstance(n, (ast.If, ast.Continue, ast.Break)) for n in ast.walk(lps[-1]))
    ctx.ob('C02.R2', 'total:adds-every-determinant', ok,
           'every determinant value of every type is added, unconditionally', gmod,
           aug[0] if aug else total)

    # ------------------------------------------------------------------ R3
    common.check_linear_fields(ctx, 'C02.R3', prog)

    # ------------------------------------------------------------------ R4
    ds = gmod.func('Group.get_determinant_string')
    rng = [n for n in walk_no_nested(ds) if isinstance(n, ast.For) and isinstance(n.iter, ast.Call)
           and call_name(n.iter) == 'range']
    ok = False
    if len(rng) == 1 and len(rng[0].iter.args) == 1:
        nvar = norm(rng[0].iter.args[0])
        ndef = [s for s in walk_no_nested(ds) if isinstance(s, ast.Assign)
                and norm(s.targets[0]) == nvar]
        if len(ndef) == 1 and isinstance(ndef[0].value, ast.Call) and call_name(ndef[0].value) == 'max':
            args = [norm(a) for a in ndef[0].value.args]
            lens = {}
            for s in walk_no_nested(ds):
                if isinstance(s, ast.Assign) and isinstance(s.value, ast.Call) \
                        and call_name(s.value) == 'len':
                    lens[norm(s.targets[0])] = norm(s.value.args[0])
            covered = {lens.get(a, a.replace('len(', '').rstrip(')')) for a in args}
            ok = all("self.determinants['%s']" % t in covered for t in common.DET_TYPES) \
                and '1' in args
    ctx.ob('C02.R4', 'determinant-rows:max-of-all-types', ok,
           'the number of printed rows is max(1, len(sidechain), len(backbone), len(coulomb)) '
           'so no determinant row is dropped', gmod, rng[0] if rng else ds)
    lists = common._det_type_lists(ds)
    cell = [c for c in calls_in(ds, nested=False) if last_attr(c) == 'get_determinant_for_string']
    ok = len(lists) == 1 and sorted(lists[0][1]) == sorted(common.DET_TYPES) and len(cell) == 1 \
        and rng and norm(cell[0].args[1]) == norm(rng[0].target)
    ctx.ob('C02.R4', 'determinant-rows:every-type-every-row', ok,
           'row i prints entry i of each of the three determinant types', gmod,
           cell[0] if cell else ds)
    dfs = gmod.func('Group.get_determinant_for_string')
    dparams = [a.arg for a in dfs.args.args]
    ok = False
    if len(dparams) == 3:
        tp, num = dparams[1], dparams[2]
        dd = [s_ for s_ in walk_no_nested(dfs) if isinstance(s_, ast.Assign)
              and norm(s_.value) == 'self.determinants[%s][%s]' % (tp, num)]
        short_ = any(isinstance(n, ast.If) and norm(n.test).replace(' ', '') ==
                     'len(self.determinants[%s])<=%s' % (tp, num) for n in walk_no_nested(dfs))
        # the determinant may be read through a local or where it is printed
        dvs = [norm(d.targets[0]) for d in dd] + ['self.determinants[%s][%s]' % (tp, num)]
        fm = [n for n, tpl in string_builders(dfs) for dv in dvs
              if [f[1] for f in tpl if f[0] == 'fld'] == [dv + '.value', dv + '.label']]
        ok = len(fm) == 1 and short_
    ctx.ob('C02.R4', 'determinant-cell', ok,
           'a cell prints value and label of determinant [type][row], or the placeholder when '
           'the list is shorter', gmod, dfs)
    pk = [(n, tpl) for n, tpl in string_builders(ds)
          if [f[1] for f in tpl if f[0] == 'fld'] == ['self.pka_value']]
    ok = len(pk) == 1 and [f[2] for f in pk[0][1] if f[0] == 'fld'][0].endswith('.2f')
    pk = [n for n, _t in pk]
    ctx.ob('C02.R4', 'determinant-row:pKa-column', ok,
           'the pKa column of the determinant table prints pka_value with two decimals', gmod,
           pk[0] if pk else ds)
    # both sections list the same groups: selected by residue type (and, in the
    # determinant table, by chain) and by nothing else
    omod = prog.mod('output')
    for sec_name, meth, may_chain in (('get_determinant_section', 'get_determinant_string', True),
                                      ('get_summary_section', 'get_summary_string', False)):
        sec = omod.func(sec_name)
        scan = canon(sec)
        emits = [c for c in calls_in(sec, nested=False) if last_attr(c) == meth]
        kinds = []
        ok = len(emits) == 1
        if ok:
            for e, pol in facts_at(emits[0], sec):
                t = scan.text(e)
                if pol and t.endswith('.residue_type == each(parameters.write_out_order)'.replace(
                        'parameters', func_params(sec)[2])):
                    kinds.append('residue-type')
                elif pol and t.endswith('.use_in_calculations()'):
                    pass        # the report filter itself (C01.R4 / C14.R2 decide what it admits)
                else:
                    kinds.append('other: %s%s' % ('' if pol else 'not ', t[:80]))
            # the list the emitting loop runs over
            loops = [n for n in ast.walk(sec) if isinstance(n, ast.For)
                     and any(emits[0] is x for x in ast.walk(n))]
            inner = loops[-1] if loops else None
            src = scan.expr(inner.iter) if inner is not None else None
            flt = []
            if isinstance(src, ast.ListComp):
                from sa.astutil import flatten_and
                for g in src.generators:
                    for cond in g.ifs:
                        for e, pol in flatten_and(cond, True):
                            if pol and norm(e).endswith('.use_in_calculations()'):
                                continue
                            flt.append(('' if pol else 'not ') + norm(e))
                src_iter = norm(src.generators[0].iter) if len(src.generators) == 1 else '?'
            else:
                src_iter = norm(src) if src is not None else '?'
            groups_ok = src_iter.endswith('.conformations[%s].groups' % func_params(sec)[1])
            flt_ok = all(may_chain and f.endswith('.atom.chain_id == each(%s.conformations[%s].chains)'
                                                  % (func_params(sec)[0], func_params(sec)[1]))
                         for f in flt)
            ok = kinds == ['residue-type'] and groups_ok and flt_ok
        ctx.ob('C02.R4', 'section-lists-every-group:' + sec_name, ok,
               '%s prints every group of the conformation whose residue type is in '
               'write_out_order, selected by nothing else (conditions: %s)' % (sec_name, kinds),
               omod, emits[0] if emits else sec)
    ss = gmod.func('Group.get_summary_string')
    fmts = []
    for r_ in walk_no_nested(ss):
        if isinstance(r_, ast.Return) and isinstance(r_.value, ast.Call) \
                and last_attr(r_.value) == 'format':
            base = r_.value.func.value
            txt = concat_str(base)
            if txt is None and isinstance(base, ast.Name):
                for s_ in walk_no_nested(ss):
                    if isinstance(s_, ast.Assign) and norm(s_.targets[0]) == base.id:
                        txt = concat_str(s_.value)
            if txt and 'pka_value' in txt:
                fmts.append(txt)
    ok = False
    if len(fmts) == 1 and fmts[0]:
        ff = format_fields(fmts[0])
        names = [f for f, _s, _c in ff]
        specs = {f: s for f, s, _c in ff}
        ok = 'g.pka_value' in names and 'g.model_pka' in names and \
            names.index('g.pka_value') < names.index('g.model_pka') and \
            specs['g.pka_value'].endswith('.2f') and specs['g.model_pka'].endswith('.2f')
    ctx.ob('C02.R4', 'summary-row:pKa-then-model', ok,
           'the summary row prints pka_value then model_pka, both with two decimals', gmod, ss)
    hdr = prog.mod('output').func('get_summary_header')
    htxt = ' '.join(s for s in (concat_str(n.value) for n in walk_no_nested(hdr)
                                if isinstance(n, (ast.Assign, ast.AugAssign))) if s)
    ok = 'pKa' in htxt and 'model-pKa' in htxt and htxt.index('pKa') < htxt.index('model-pKa')
    ctx.ob('C02.R4', 'summary-header:order', ok,
           'the summary heading lists pKa before model-pKa, like the row', prog.mod('output'), hdr)
    ctx.assume('the numeric identity to printed precision (float summation order after swaps, '
               'rounding at the 0.005 boundary) is not decided')
