"""C09 - charge curves and isoelectric points follow Henderson-Hasselbalch."""
import ast

from sa import absint
from sa.absint import AV, INF, const
from sa.astutil import (effective, call_name, calls_in, dotted, norm, walk_no_nested, try_fold,
                        names_in, last_attr, joined_str_parts, format_fields, concat_str, facts_at)
from sa.loader import AnalysisError
from sa.canon import canon
from sa.symexpand import Expand, substitute, clone
from sa.tables import Cfg
from checks import common


def _tag_of_name(name):
    low = name.lower()
    if 'unfolded' in low or low.endswith('_mod') or low.startswith('mod_') or '_mod_' in low:
        return 'unfolded'
    if 'folded' in low or low.endswith('_pro') or low.startswith('pro_') or '_pro_' in low:
        return 'folded'
    return None


class _Replace(ast.NodeTransformer):
    def __init__(self, name, new):
        self.name, self.new = name, new

    def visit_Name(self, node):
        if node.id == self.name:
            return clone(self.new)
        return node


def run(ctx):
    prog = ctx.prog
    gmod = prog.mod('group')
    cfg = Cfg(prog)
    fn = gmod.func('Group.calculate_charge')
    params = [a.arg for a in fn.args.args]
    if 'ph' not in params or 'state' not in params:
        raise AnalysisError('C09: calculate_charge lacks ph/state parameters')

    # ------------------------------------------------------------------ R1
    tests = [n for n in walk_no_nested(fn) if isinstance(n, ast.If)
             and isinstance(n.test, ast.Compare) and norm(n.test.left) == 'state'
             and isinstance(n.test.comparators[0], ast.Constant)]
    if len(tests) != 1 or tests[0].test.comparators[0].value not in ('unfolded', 'folded'):
        raise AnalysisError('C09: state dispatch of calculate_charge not recognised')
    lit = tests[0].test.comparators[0].value
    is_eq = isinstance(tests[0].test.ops[0], ast.Eq)
    branch_exprs = {}
    for pol in (True, False):
        class Br(Expand):
            def assume(self, test, p, state, _pol=pol):
                if test is tests[0].test:
                    return state if p == _pol else None
                return state
        ana = Br()
        rets = []
        for stmt, st in ana.exit_states(fn):
            if stmt is not None and stmt.value is not None:
                rets.append(substitute(stmt.value, ana.env_of(st)))
        if len(rets) != 1:
            raise AnalysisError('C09: calculate_charge has %d returns on one branch' % len(rets))
        tag = lit if (pol == is_eq) else ('folded' if lit == 'unfolded' else 'unfolded')
        branch_exprs[tag] = rets[0]
    want_attr = {'unfolded': 'self.model_pka', 'folded': 'self.pka_value'}
    other_attr = {'unfolded': 'self.pka_value', 'folded': 'self.model_pka'}
    # formal charges of titratable types
    pkas = cfg.get('model_pkas')
    charge = cfg.get('charge')
    from checks import groups as G
    r2t = G.residue_type_to_group_type(prog, cfg)
    qs = set()
    for key in pkas:
        for tp in r2t.get(key, ()):
            if tp in charge:
                qs.add(charge[tp])
    ctx.ob('C09.R1', 'formal-charges:unit', qs <= {1.0, -1.0} and len(qs) == 2,
           'every titratable type of the shipped file has formal charge +1 or -1 (found %s); '
           'the curve shape is decided for these two cases' % sorted(qs), gmod, fn)
    for tag, expr in sorted(branch_exprs.items()):
        text = norm(expr)
        ctx.ob('C09.R1', 'curve:%s:uses-right-pK' % tag,
               want_attr[tag] in text and other_attr[tag] not in text,
               'the %s charge is computed from %s only' % (tag, want_attr[tag]), gmod, fn,
               detail=text)
        for q in (1.0, -1.0):
            env = {'self.charge': const(q), want_attr[tag]: AV(-INF, INF, 'const')}
            ev = absint.Evaluator(env, var='ph')
            val = ev.ev(expr)
            lo, hi = min(0.0, q), max(0.0, q)
            ctx.ob('C09.R1', 'curve:%s:q=%+d:range' % (tag, q), val.within(lo, hi),
                   'for formal charge %+d the group charge lies in [%g, %g] (abstract value %r)'
                   % (q, lo, hi, val), gmod, fn, detail=text)
            ctx.ob('C09.R1', 'curve:%s:q=%+d:non-increasing' % (tag, q),
                   val.mono in ('dec', 'const') and val.mono == 'dec',
                   'for formal charge %+d the group charge never increases with pH '
                   '(monotonicity %s)' % (q, val.mono), gmod, fn, detail=text)
            # ... also in floating point: a composition of monotone steps in which
            # the pH enters once is monotone after rounding as well, whereas a
            # quotient whose numerator and denominator both move with the pH
            # (r/(1+r)) may go up by one unit in the last place
            n_ph = sum(1 for n in ast.walk(expr) if isinstance(n, ast.Name) and n.id == 'ph')
            if q > 0:
                ctx.ob('C09.R1', 'curve:%s:pH-enters-once' % tag, n_ph == 1,
                       'the pH occurs once in the expression of the %s charge (%d occurrences): with '
                       'several, rounding makes the charge increase between neighbouring pH values '
                       '(N+ 16 E of 3SGB-subset: 0.9960978675159623 at pH 5.593, ...625 at the next '
                       'representable pH)' % (tag, n_ph), gmod, fn, detail=text)
            # half point: pH := pK
            pk_node = ast.parse(want_attr[tag], mode='eval').body
            half = _Replace('ph', pk_node).visit(clone(expr))
            hv = absint.Evaluator(env, var=None).ev(half)
            ctx.ob('C09.R1', 'curve:%s:q=%+d:half-at-pK' % (tag, q),
                   abs(hv.lo - q / 2) < 1e-12 and abs(hv.hi - q / 2) < 1e-12,
                   'at pH = pKa the charge is exactly half the formal charge (%r)' % hv,
                   gmod, fn)
    ctx.need('C09.R1', 13)

    # ------------------------------------------------------------------ R2
    cc = prog.mod('conformation_container')
    ccf = cc.func('ConformationContainer.calculate_charge')
    acc_tags = {}
    for node in walk_no_nested(ccf):
        if isinstance(node, ast.AugAssign) and isinstance(node.op, ast.Add) \
                and isinstance(node.value, ast.Call) and last_attr(node.value) == 'calculate_charge':
            st = [kw.value.value for kw in node.value.keywords
                  if kw.arg == 'state' and isinstance(kw.value, ast.Constant)]
            acc_tags.setdefault(norm(node.target), set()).update(st or ['folded'])
    rets = [r for r in walk_no_nested(ccf) if isinstance(r, ast.Return)]
    t_cc = None
    if len(rets) == 1 and isinstance(rets[0].value, ast.Tuple) and len(rets[0].value.elts) == 2:
        tags = [acc_tags.get(norm(e), set()) for e in rets[0].value.elts]
        if all(len(t) == 1 for t in tags):
            t_cc = [next(iter(t)) for t in tags]
    ctx.ob('C09.R2', 'container:returns-(unfolded, folded)', t_cc == ['unfolded', 'folded'],
           'ConformationContainer.calculate_charge returns (unfolded, folded), each accumulated '
           'from one state only (found %s)' % t_cc, cc, rets[0] if rets else ccf)
    if t_cc is None or sorted(t_cc) != ['folded', 'unfolded']:
        t_cc = ['unfolded', 'folded']
    for var, tags in acc_tags.items():
        nt = _tag_of_name(var)
        ctx.ob('C09.R2', 'container:accumulator-name:' + var, nt is None or tags == {nt},
               'accumulator %s holds the %s charge' % (var, sorted(tags)), cc, ccf)
    # same pH and both states in the same iteration
    loops = [n for n in walk_no_nested(ccf) if isinstance(n, ast.For)]
    both = len(loops) == 1 and sum(1 for n in loops[0].body if isinstance(n, ast.AugAssign)) == 2 \
        and all('ph=ph' in norm(n.value).replace(' ', '') for n in loops[0].body
                if isinstance(n, ast.AugAssign))
    ctx.ob('C09.R2', 'container:both-states-same-ph', both,
           'both charges are accumulated for every group at the same pH', cc, ccf)

    mc = prog.mod('molecular_container')
    gcp = mc.func('MolecularContainer.get_charge_profile')
    row_tags = None
    for node in walk_no_nested(gcp):
        if isinstance(node, ast.Assign) and isinstance(node.targets[0], ast.Tuple) \
                and 'calculate_charge' in norm(node.value) and len(node.targets[0].elts) == 2:
            names = [norm(e) for e in node.targets[0].elts]
            tagmap = dict(zip(names, t_cc))
            for nm in names:
                nt = _tag_of_name(nm)
                ctx.ob('C09.R2', 'profile:unpack-name:' + nm, nt is None or nt == tagmap[nm],
                       '%s receives the %s charge (position %d of the container result)'
                       % (nm, tagmap[nm], names.index(nm)), mc, node)
            for call in calls_in(gcp, nested=False):
                if last_attr(call) == 'append' and isinstance(call.args[0], (ast.List, ast.Tuple)) \
                        and len(call.args[0].elts) == 3:
                    row_tags = [tagmap.get(norm(e)) for e in call.args[0].elts]
    ctx.ob('C09.R2', 'profile:row-is-(pH, unfolded, folded)',
           row_tags == [None, 'unfolded', 'folded'],
           'charge-profile rows are [pH, unfolded, folded] (found %s)' % row_tags, mc, gcp)
    row_tags = row_tags or [None, 'unfolded', 'folded']
    out = prog.mod('output')
    sec = out.func('get_charge_profile_section')
    printed = None
    header_words = None
    for node in walk_no_nested(sec):
        if isinstance(node, ast.For) and isinstance(node.target, ast.Tuple) \
                and len(node.target.elts) == 3 and 'get_charge_profile(' in canon(sec).text(node.iter):
            names = [norm(e) for e in node.target.elts]
            tagmap = dict(zip(names, row_tags))
            for nm in names[1:]:
                nt = _tag_of_name(nm)
                ctx.ob('C09.R2', 'section:unpack-name:' + nm, nt is None or nt == tagmap[nm],
                       '%s is the %s charge of the row' % (nm, tagmap[nm]), out, node)
            for call in calls_in(node):
                if last_attr(call) == 'format':
                    fmt = concat_str(call.func.value)
                    if fmt is None:
                        continue
                    kw = {k.arg: norm(k.value) for k in call.keywords}
                    pos = [norm(a) for a in call.args]
                    seq = []
                    for field, _spec, _c in format_fields(fmt):
                        src = kw.get(field) if not field.isdigit() else pos[int(field)]
                        seq.append(tagmap.get(src))
                    printed = [t for t in seq if t]
    for c in ast.walk(sec):
        if isinstance(c, ast.Constant) and isinstance(c.value, str) and 'pH' in c.value \
                and 'unfolded' in c.value and 'function' not in c.value:
            words = c.value.split()
            header_words = [w for w in words if w in ('folded', 'unfolded')]
    ctx.ob('C09.R2', 'section:columns-match-header',
           printed is not None and header_words is not None and printed == header_words,
           'the printed charge columns %s are in the order of the header words %s'
           % (printed, header_words), out, sec)
    # get_pi
    gpi = mc.func('MolecularContainer.get_pi')
    which = {}
    for node in walk_no_nested(gpi):
        if isinstance(node, ast.Assign) and isinstance(node.targets[0], ast.Name) \
                and try_fold(node.value) in (0, 1) and isinstance(node.value, ast.Constant):
            which[node.targets[0].id] = int(node.value.value)
    for nm, idx in which.items():
        nt = _tag_of_name(nm)
        ctx.ob('C09.R2', 'pi:index-constant:' + nm, nt is None or t_cc[idx] == nt,
               '%s = %d selects the %s charge of the container result' % (nm, idx, t_cc[idx]),
               mc, gpi)
    inner = next((f for q, f in mc.funcs.items() if q.startswith('MolecularContainer.get_pi.<locals>.')), None)
    pi_ret_tags = None
    if inner is not None:
        wparam = inner.args.args[0].arg
        sel = [n for n in walk_no_nested(inner) if isinstance(n, ast.Subscript)
               and 'calculate_charge' in norm(n.value)]
        ctx.ob('C09.R2', 'pi:selects-by-index',
               len(sel) == 1 and norm(sel[0].slice) == wparam,
               'the bisection reads position [which] of the container result', mc,
               sel[0] if sel else inner)
        rets = [r for r in walk_no_nested(gpi) if isinstance(r, ast.Return)]
        if len(rets) == 1 and isinstance(rets[0].value, ast.Tuple):
            tags = []
            for e in rets[0].value.elts:
                if isinstance(e, ast.Call) and call_name(e) == inner.name and e.args:
                    a0 = e.args[0]
                    idx = which.get(norm(a0), try_fold(a0))
                    tags.append(t_cc[int(idx)] if idx in (0, 1) else None)
            pi_ret_tags = tags
    ctx.ob('C09.R2', 'pi:returns-(folded, unfolded)', pi_ret_tags == ['folded', 'unfolded'],
           'get_pi returns (folded pI, unfolded pI) (found %s)' % pi_ret_tags, mc, gpi)
    pi_ret_tags = pi_ret_tags if pi_ret_tags and None not in pi_ret_tags and len(pi_ret_tags) == 2 \
        else ['folded', 'unfolded']
    pi_ok = None
    for node in walk_no_nested(sec):
        if isinstance(node, ast.Assign) and isinstance(node.targets[0], ast.Tuple) \
                and 'get_pi' in norm(node.value) and len(node.targets[0].elts) == 2:
            names = [norm(e) for e in node.targets[0].elts]
            tagmap = dict(zip(names, pi_ret_tags))
            for nm in names:
                nt = _tag_of_name(nm)
                ctx.ob('C09.R2', 'section:pi-unpack-name:' + nm, nt is None or nt == tagmap[nm],
                       '%s receives the %s pI' % (nm, tagmap[nm]), out, node)
            for js in ast.walk(sec):
                if isinstance(js, ast.JoinedStr):
                    parts = joined_str_parts(js)
                    flat = []
                    for p in parts:
                        flat.append(p)
                    for i, p in enumerate(flat):
                        if p[0] == 'expr' and norm(p[1]) in tagmap:
                            nxt = next((q[1] for q in flat[i + 1:] if q[0] == 'lit'), '')
                            word = 'unfolded' if '(unfolded)' in nxt.split(')')[0] + ')' else (
                                'folded' if '(folded)' in nxt.split(')')[0] + ')' else None)
                            ok = word == tagmap[norm(p[1])]
                            pi_ok = ok if pi_ok is None else (pi_ok and ok)
    ctx.ob('C09.R2', 'section:pi-words-match', bool(pi_ok),
           'each printed pI is followed by the word (folded)/(unfolded) that matches its value',
           out, sec)

    # ------------------------------------------------------------------ R3
    ok = len(loops) == 1 and norm(loops[0].iter) == 'self.get_titratable_groups()'
    inits = [s for s in ccf.body if isinstance(s, ast.Assign) and try_fold(s.value) == 0]
    init_names = set()
    for s in inits:
        for t in s.targets:
            init_names.add(norm(t))
    ctx.ob('C09.R3', 'sum:over-titratable-groups', ok,
           'the protein charge sums over get_titratable_groups() (ions and demoted groups carry '
           'a formal charge too and must not be counted)', cc, loops[0] if loops else ccf)
    common.check_charge_sum_unconditional(ctx, 'C09.R3', prog)
    ctx.ob('C09.R3', 'sum:starts-at-zero', set(acc_tags) <= init_names,
           'both accumulators start at 0', cc, ccf)
    gt = cc.func('ConformationContainer.get_titratable_groups')
    ctx.ob('C09.R3', 'titratable-filter', 'if group.titratable' in norm(gt) or
           'if g.titratable' in norm(gt),
           'get_titratable_groups filters on the titratable flag', cc, gt)

    common.check_ph_label_precision(ctx, 'C09.R2', prog, ['get_charge_profile_section'])
    # ------------------------------------------------------------------ R4
    if inner is not None:
        ps = [a.arg for a in inner.args.args]
        ph_p, lo_p, hi_p = ps[1], ps[2], ps[3]
        ifs = [n for n in walk_no_nested(inner) if isinstance(n, ast.If)
               and 'charge' in norm(n.test) and '<' in norm(n.test)]
        dir_ok = False
        if len(ifs) == 1:
            t = ifs[0]
            pos = norm(t.test).replace(' ', '') in ('0.0<charge', '0<charge')
            b_t = [norm(s) for s in effective(t.body)]
            b_f = [norm(s) for s in effective(t.orelse)]
            dir_ok = pos and b_t == ['%s = %s' % (lo_p, ph_p)] and b_f == ['%s = %s' % (hi_p, ph_p)]
        ctx.ob('C09.R4', 'bisection:direction', dir_ok,
               'a positive total charge moves the lower bound up, otherwise the upper bound down '
               '(consistent with a non-increasing curve)', mc, ifs[0] if ifs else inner)
        mid_texts = ('(%s+%s)/2' % (lo_p, hi_p), '(%s+%s)/2' % (hi_p, lo_p), '(%s+%s)/2.0' % (lo_p, hi_p))
        mids = [s for s in walk_no_nested(inner) if isinstance(s, ast.Assign)
                and norm(s.value).replace(' ', '') in mid_texts]
        # ... or written where it is handed to the next step
        mids += [c for c in calls_in(inner) if call_name(c) == inner.name and len(c.args) >= 2
                 and norm(c.args[1]).replace(' ', '') in mid_texts]
        ctx.ob('C09.R4', 'bisection:midpoint', len(mids) == 1,
               'the next probe is the midpoint of the bracket', mc, mids[0] if mids else inner)
        # the recursion runs exactly under `precision < hi - lo`, the plain return
        # of the probe under its negation (nested or as an early return)
        wide = 'precision<%s-%s' % (hi_p, lo_p)
        rec = [c for c in calls_in(inner) if call_name(c) == inner.name]
        plain = [r for r in walk_no_nested(inner) if isinstance(r, ast.Return)
                 and r.value is not None and norm(r.value) == ph_p]
        stops = rec + plain

        def under(node, polarity):
            return [(norm(e).replace(' ', ''), p) for e, p in facts_at(node, inner)
                    if 'precision' in norm(e)] == [(wide, polarity)]
        stop_ok = len(rec) == 1 and len(plain) == 1 and under(rec[0], True) and under(plain[0], False)
        ctx.ob('C09.R4', 'bisection:stop-on-precision', stop_ok,
               'the search continues while the bracket is wider than the precision', mc,
               stops[0] if stops else inner)
        # start: midpoint of the window, window ends as bracket
        starts = [s for s in walk_no_nested(gpi) if isinstance(s, ast.Assign)
                  and isinstance(s.value, ast.Tuple) and len(s.value.elts) == 3]
        gcan = canon(gpi)
        gname = next((a.arg for a in gpi.args.args if a.arg not in ('self', 'conformation')), 'grid')
        elts = [gcan.text(e).replace(' ', '') for e in starts[0].value.elts] if len(starts) == 1 else []
        ends = ('%s[0]' % gname, '%s[1]' % gname)
        lows = {'min(%s,%s)' % ends, 'min(%s,%s)' % ends[::-1]}
        highs = {'max(%s,%s)' % ends, 'max(%s,%s)' % ends[::-1]}
        mids = {'(%s+%s)/2' % (l, h) for l in lows for h in highs} | \
            {'(%s+%s)/2' % (h, l) for l in lows for h in highs} | \
            {'(%s+%s)/2' % ends, '(%s+%s)/2' % ends[::-1]}
        st_ok = len(elts) == 3 and elts[0] in mids and \
            ((elts[1] in lows and elts[2] in highs) or (elts[1], elts[2]) == ends)
        ctx.ob('C09.R4', 'bisection:start', st_ok,
               'the search starts at the middle of the window with the window as bracket', mc,
               starts[0] if starts else gpi)
        # the stop test is `precision < upper - lower`: a window given from high to
        # low pH (as grids may be) must be put in order first, or the search stops
        # at once and reports the midpoint as pI
        ctx.ob('C09.R4', 'bisection:bracket-ordered', len(elts) == 3 and elts[1] in lows and elts[2] in highs,
               'the bracket handed to the bisection is (min, max) of the two window ends (found %s)'
               % elts[1:], mc, starts[0] if starts else gpi)
    ctx.need('C09.R4', 4)
    ctx.assume('that the reported pI is within the stated precision of a root is numeric and '
               'not decided; overflow of 10**e for |e| > 308 is not modelled')
