"""Name-free canonical form of expressions at their program point.

``Canon(fn)`` runs the forward-substitution analysis (symexpand.Expand) once
over a function and remembers the environment in front of every statement and
test.  ``expr(node)`` then gives the node with every local replaced by what
it denotes there - parameters, attribute reads, calls, ``each(<iterable>)``
for loop targets - so that rules can be stated on the *meaning* of a
construct instead of on the spelling of the locals it happens to use:
renaming a local, introducing a temporary, or inlining one leaves the
canonical form unchanged.

Names that remain local after substitution (comprehension targets, merged
definitions ``phi_x``, with/except targets) are numbered by first appearance
inside the expression (``v1``, ``v2``...).
"""
import ast

from .astutil import norm, dotted, func_params, local_names
from .symexpand import Expand, substitute, clone


MUTATORS = {'append', 'extend', 'add', 'update', 'insert', 'pop', 'remove', 'sort', 'reverse',
            'clear', 'setdefault', 'discard', 'popitem', 'appendleft'}


def mutated_locals(fn):
    """Names that receive a mutating method call, a subscript store or a
    ``del x[...]`` somewhere in ``fn``: containers built up in place, whose
    initial value says nothing about their later content."""
    res = set()
    for node in ast.walk(fn):
        if isinstance(node, ast.Call) and isinstance(node.func, ast.Attribute) \
                and node.func.attr in MUTATORS and isinstance(node.func.value, ast.Name):
            res.add(node.func.value.id)
        elif isinstance(node, ast.Subscript) and isinstance(node.ctx, (ast.Store, ast.Del)) \
                and isinstance(node.value, ast.Name):
            res.add(node.value.id)
    return res


def _each(iter_expr, index=None):
    node = ast.Call(func=ast.Name(id='each', ctx=ast.Load()), args=[iter_expr], keywords=[])
    if index is not None:
        node = ast.Subscript(value=node, slice=ast.Constant(index), ctx=ast.Load())
    return node


def _alts(expr):
    if isinstance(expr, ast.Call) and isinstance(expr.func, ast.Name) and expr.func.id == 'alt':
        return list(expr.args)
    return [expr]


class _Rec(Expand):
    """Expand that records environments and merges two different definitions
    into ``alt(a, b)`` (sorted, at most 4 alternatives, never nested) before
    falling back to the opaque ``phi_<name>``."""

    def __init__(self, sink, opaque=()):
        Expand.__init__(self)
        self.sink = sink
        self.widened = set()
        self.opaque = set(opaque)

    def _set(self, state, name, expr):
        if name in self.opaque:
            return state
        return Expand._set(self, state, name, expr)

    def join(self, a, b):
        da, db = dict(a), dict(b)
        res = {}
        for name in set(da) | set(db):
            ta, tb = da.get(name), db.get(name)
            if ta == tb:
                res[name] = ta
                continue
            if (ta is None or tb is None) and '.' not in name:
                # a local bound on one side only: a later read can only follow
                # the binding path (anything else is a NameError)
                res[name] = ta if tb is None else tb
                continue
            if ta is None or tb is None:
                # an attribute stored on one side only keeps its previous,
                # unknown value on the other: alt(<the attribute itself>, stored)
                own = self._key(ast.parse(name, mode='eval').body)
                ta = own if ta is None else ta
                tb = own if tb is None else tb
                if ta == tb:
                    res[name] = ta
                    continue
            merged = None
            if name not in self.widened:
                alts = {}
                for t in (ta, tb):
                    for e in _alts(self.table[t]):
                        alts[norm(e)] = e
                nested = any('alt(' in k or 'phi_' in k for k in alts)
                if len(alts) <= 4 and not nested:
                    merged = ast.Call(func=ast.Name(id='alt', ctx=ast.Load()),
                                      args=[alts[k] for k in sorted(alts)], keywords=[])
            if merged is None:
                self.widened.add(name)
                merged = ast.Name(id='phi_' + name.replace('.', '__'), ctx=ast.Load())
            res[name] = self._key(merged)
        return tuple(sorted(res.items()))

    def _note(self, node, state):
        self.sink[id(node)] = self.env_of(state)

    def transfer(self, stmt, state):
        self._note(stmt, state)
        return Expand.transfer(self, stmt, state)

    def run_stmt(self, stmt, state):
        if state is not None:
            self._note(stmt, state)
        return Expand.run_stmt(self, stmt, state)

    def eval_test(self, expr, state):
        self._note(expr, state)
        return state

    def enter_with(self, stmt, state):
        self._note(stmt, state)
        return state

    def bind_loop(self, stmt, state):
        self._note(stmt, state)
        env = self.env_of(state)
        it = substitute(stmt.iter, env)
        tgt = stmt.target
        if isinstance(tgt, ast.Name):
            return self._set(state, tgt.id, _each(it))
        if isinstance(tgt, (ast.Tuple, ast.List)):
            for i, elt in enumerate(tgt.elts):
                if isinstance(elt, ast.Name):
                    state = self._set(state, elt.id, _each(it, i))
                else:
                    for sub in ast.walk(elt):
                        if isinstance(sub, ast.Name):
                            state = self._set(state, sub.id, _each(it, i))
            return state
        return state


class Canon:
    def __init__(self, fn):
        self.fn = fn
        self.envs = {}
        self.params = func_params(fn)
        self.locals = set(local_names(fn))
        self.opaque = mutated_locals(fn) & self.locals
        rec = _Rec(self.envs, self.opaque)
        try:
            rec.exit_states(fn)
            self.ok = True
        except RuntimeError:
            self.ok = False

    def env_for(self, node):
        """Environment in force where ``node`` is evaluated (nearest enclosing
        statement or test atom that the analysis visited)."""
        cur = node
        while cur is not None and cur is not self.fn:
            if id(cur) in self.envs:
                return self.envs[id(cur)]
            cur = getattr(cur, '_parent', None)
        return {}

    def expr(self, node, env=None):
        if env is None:
            env = self.env_for(node)
        # comprehension targets shadow locals of the same name
        shadow = set()
        for sub in ast.walk(node):
            if isinstance(sub, ast.comprehension):
                for n in ast.walk(sub.target):
                    if isinstance(n, ast.Name):
                        shadow.add(n.id)
            elif isinstance(sub, ast.Lambda):
                for a in sub.args.args:
                    shadow.add(a.arg)
        if shadow:
            env = {k: v for k, v in env.items() if k.split('.')[0] not in shadow}
        # a name bound by a comprehension around ``node`` denotes each element of
        # what the comprehension runs over - as the target of a for loop does
        bound = {}
        cur, below = getattr(node, '_parent', None), node
        chain = []
        while cur is not None and cur is not self.fn:
            if isinstance(cur, (ast.ListComp, ast.SetComp, ast.GeneratorExp, ast.DictComp)):
                chain.append((cur, below))
            below, cur = cur, getattr(cur, '_parent', None)
        for comp, inner in reversed(chain):
            for g in comp.generators:
                if any(node is x for x in ast.walk(g.iter)):
                    break       # the node sits in this generator's iterable: not bound yet
                it = substitute(g.iter, {**env, **bound})
                if isinstance(g.target, ast.Name):
                    bound[g.target.id] = _each(it)
                elif isinstance(g.target, (ast.Tuple, ast.List)):
                    for i, elt in enumerate(g.target.elts):
                        if isinstance(elt, ast.Name):
                            bound[elt.id] = _each(it, i)
        if bound:
            env = {k: v for k, v in env.items() if k.split('.')[0] not in bound}
            env.update(bound)
        return substitute(node, env)

    def key(self, node, define=False):
        """``text`` with the parameters named by position (A1, A2, ...), for
        instance keys that should survive a parameter rename."""
        text = self.text(node, define=define)
        mapping = {}
        pos = 0
        for prm in self.params:
            if prm in ('self', 'cls'):
                continue
            pos += 1
            mapping[prm] = 'A%d' % pos
        if not mapping:
            return text
        try:
            tree = ast.parse(text.split(' where ')[0], mode='eval')
        except SyntaxError:
            tree = None
        import re
        return re.sub(r'(?<![\w.\'"])(%s)(?![\w\'"])' % '|'.join(
            re.escape(k) for k in sorted(mapping, key=len, reverse=True)),
            lambda m: mapping[m.group(1)], text)

    def text(self, node, env=None, define=False):
        """Canonical text.  With ``define`` the containers that are built up in
        place (and therefore stay as placeholders) are followed by how they are
        filled: ``v1[0] where v1 := [] + append(each(enumerate(x))[0])``."""
        mapping = {}
        text = self._number(self.expr(node, env), mapping)
        if define:
            extra = []
            for name, ph in sorted(mapping.items(), key=lambda kv: kv[1]):
                if name not in self.opaque:
                    continue
                parts = []
                for st in ast.walk(self.fn):
                    if isinstance(st, ast.Assign) and len(st.targets) == 1 \
                            and isinstance(st.targets[0], ast.Name) and st.targets[0].id == name:
                        parts.append(self._number(self.expr(st.value), {}))
                    elif isinstance(st, ast.Call) and isinstance(st.func, ast.Attribute) \
                            and isinstance(st.func.value, ast.Name) and st.func.value.id == name \
                            and st.func.attr in MUTATORS:
                        parts.append('%s(%s)' % (st.func.attr, ', '.join(
                            self._number(self.expr(a), {}) for a in st.args)))
                extra.append('%s := %s' % (ph, ' + '.join(parts)))
            if extra:
                text += ' where ' + '; '.join(extra)
        return text

    def _number(self, tree, mapping=None):
        if mapping is None:
            mapping = {}

        def ph(name):
            if name not in mapping:
                mapping[name] = 'v%d' % (len(mapping) + 1)
            return mapping[name]

        def visit(n):
            if isinstance(n, ast.AST):
                if isinstance(n, (ast.ListComp, ast.SetComp, ast.GeneratorExp, ast.DictComp)):
                    visit(n.generators)
                    for f in n._fields:
                        if f != 'generators':
                            visit(getattr(n, f, None))
                    return
                if isinstance(n, ast.Name):
                    if n.id in self.locals or n.id.startswith('phi_'):
                        n.id = ph(n.id)
                    return
                for f in n._fields:
                    visit(getattr(n, f, None))
            elif isinstance(n, list):
                for x in n:
                    visit(x)
        visit(tree)
        return norm(tree)

    def value_of(self, name, at):
        """Canonical text of local/attribute ``name`` in front of statement ``at``."""
        env = self.env_for(at)
        if name in env:
            return self._number(clone(env[name]))
        return name

    def final(self, name):
        """Expanded values of ``name`` (a local or dotted attribute) at every
        normal exit of the function: list of AST nodes (None when unbound)."""
        ana = Expand()
        res = []
        for _stmt, state in ana.exit_states(self.fn):
            env = ana.env_of(state)
            res.append(env.get(name))
        return res


_CACHE = {}


def canon(fn):
    c = _CACHE.get(id(fn))
    if c is None or c.fn is not fn:
        c = Canon(fn)
        _CACHE[id(fn)] = c
    return c
